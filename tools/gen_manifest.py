#!/usr/bin/env python3
"""Regenerates /verif/MANIFEST.json from the table below (single source of truth)."""
import json, subprocess

def repo_commits(prefix):
    out = subprocess.run(["git", "-C", "/repo", "log", "--format=%H %s"], capture_output=True, text=True).stdout
    return [l.split()[0] for l in out.splitlines() if l.split(" ", 1)[1].startswith(prefix)]

# id -> (technique, level text, level note, design ref)
T = "Trusts bls12_381_plus arithmetic / hash_to_curve / pairing and sha2, sha3; sizes bounded as stated in the evidence rule. Exploration finds counterexamples, it does not establish absence."
BUILT = {
 "C01": ("property-based testing (proptest): generated keys/headers/message vectors; validity + round-trip + None/empty metamorphic oracle, both suites",
         "Generated-input search: sign/verify/round-trip on hundreds (quick) to thousands (thorough) of shapes incl. L=0, 255..257, 1000+, empty and 1 MiB messages, None vs empty spellings.", T, "DESIGN.md §6 C01"),
 "C02": ("property-based testing: honest signature + exhaustive per-case mutation catalogue (metamorphic: any single edit => reject), all 640 bit flips, cross-suite / cross-interface",
         "Every mutation family of the quantifier is enumerated per generated honest case (tens of thousands of rejected verifications per quick run), with shapes beyond the fixtures' 16-entry vectors forced.", T, "DESIGN.md §6 C02"),
 "C03": ("property-based testing: exhaustive enumeration of all 2^L disclosure masks for small L inside generated cases, class-sampled masks for large L; round-trip and length oracle",
         "All subsets for L <= 6 (quick) / 10 (thorough) under both suites and three header/ph classes; sampled masks up to L = 257 / 1000; production randomness path.", T, "DESIGN.md §6 C03"),
 "C04": ("property-based testing + attacker programs: statement edits, bit flips, whole-scalar framing edits, forged proofs assembled from public data with a reference model, negative control t = sk",
         "Enumerated edit catalogue and named forgery families (identity / Bv / P1 / generators / random points, responses cancelling the verifier's recomputation), as octets and as serde-built objects, plain and blind verifier.", T + " Forgery families are the named ones only.", "DESIGN.md §6 C04"),
 "C05": ("property-based testing: blind issuance + presentation round trips, exhaustive 2^L x 2^M disclosure pairs for small shapes",
         "All disclosure pairs for L, M <= 3 (quick) / 4 (thorough), fixed shapes with L+1+M > 16, random shapes; commit / blind_sign / verify / proof round trips incl. octet codecs.", T, "DESIGN.md §6 C05"),
 "C06": ("property-based testing: honest blind run + three mutation groups (commitment octets, verify_blind_sign inputs, blind_proof_verify inputs), all bit flips for selected runs",
         "Every single-bit flip of commitment / proof octets for the fixed runs, sampled otherwise; every whole-scalar truncation / extension; single edits of every verifier input.", T, "DESIGN.md §6 C06"),
 "C07": ("stateful property-based testing over generation histories (single thread, 1/4/16 threads on a barrier, fresh child processes); witness-side recomputation of every blinding scalar; two-transcript extractor",
         "Histories of 64 (quick) / 1000 (thorough) generations from identical inputs; reuse, structure, small values, repeated points, extraction and secret-in-encoding are refuted by algebra over the pooled history.", T + " Freshness/independence can only be refuted by sampling.", "DESIGN.md §6 C07"),
 "C08": ("fuzzing by structured generation: every length 0..=1024 x byte classes into every decoder/entry point, generated index lists and counts over the whole usize range, mutated JSON; thorough adds a coverage-guided libFuzzer campaign; oracle = returns under catch_unwind with overflow checks and a generator budget (hook H1)",
         "Exhaustive over lengths 0..=1024 per decoder and byte class; thousands of structured calls with boundary indexes/counts; work bound enforced by the generator-budget hook.", T + " update_signature's n is generated only in 0..=64 and usize::MAX.", "DESIGN.md §6 C08"),
 "C09": ("property-based testing: round-trip, canonical-form (decode then encode reproduces the octets) and forbidden-class relations over honest encodings, all single-bit flips, extensions, truncations and crafted point/scalar patterns; thorough adds a libFuzzer decode-encode target",
         "Every codec the API offers (octets, coordinates, JSON); forbidden classes built independently with bls12_381_plus primitives (off-curve, non-subgroup by search, x >= p, scalar >= r, flags, identity, e = 0).", T, "DESIGN.md §6 C09"),
 "C10": ("differential testing against an independent reference implementation of the drafts (validated against all fixtures first): byte equality of outputs, equality of verifier decisions on honest and mutated artefacts, interop both ways; thread schedules on a barrier",
         "Thousands of generated operations per run (KeyGen thresholds, generator histories, hash_to_scalar, sign, all verifiers incl. blind), plus operation lists executed by 2/4/16 threads.", "Reference shares bls12_381_plus arithmetic / hash_to_curve and sha2/sha3 with the library; everything above that is re-implemented from the drafts. Interleavings are sampled.", "DESIGN.md §4, §6 C10"),
 "C11": ("property-based testing: cross-verifier matrix (every honest artefact into every foreign verifier / interface) and set relations over generator lists (prefix stability, no identity / P1 / repetition, disjointness)",
         "Generated shapes for the 5 artefact kinds x foreign verifiers; exhaustive prefix check for n <= 40, sampled to 64 / 512.", T, "DESIGN.md §6 C11"),
 "C12": ("model-based (stateful) property-based testing: generated update histories against a model (current vector + A = B_ref/(sk+e)), probes for out-of-range positions and wrong old values at every step",
         "Hundreds (quick) / thousands (thorough) of histories with up to 12 / 32 updates incl. sweeps over every position and vectors of 24 / 33 / 64 messages.", T, "DESIGN.md §6 C12"),
}

TC = "Trusts rug/GMP integer arithmetic; CL1024-size moduli in quick, CL2048/CL3072 (keys assembled from pre-computed safe primes) in thorough only. Exploration finds counterexamples, it does not establish absence."
BUILT.update({
 "C13": ("property-based testing + attacker programs: generated keys / bases / attribute vectors, all 2^n selective-disclosure sets, forgeries derivable without the secret key (shift by k*e, trivial exponent), single-field edits",
         "Hundreds of generated vectors per run over a pool of generate()d and fixture-prime keys; every negative family of the quantifier enumerated per case; e checked prime (own Miller-Rabin + GMP), exact lengths.", TC, "DESIGN.md §6 C13"),
 "C14": ("property-based testing: every non-empty hidden set for n <= 3 (quick) / 5 (thorough), with and without trusted-party commitment; gating checked on verify_proof and blind_sign; integer-leaf perturbation of the serialised proof",
         "All hidden sets enumerated; mismatch families (other attributes / hidden set / bases / key / trusted commitment) and coverage-balanced field edits (+1, -1, 0, sibling) must be refused by verifier and issuer.", TC, "DESIGN.md §6 C14"),
 "C15": ("property-based testing: every hidden set incl. none/all, statement edits, range-proof replacement and transplant, integer-leaf perturbation of the serialised proof",
         "All hidden sets for n <= 3 / 5; every statement component edited; coverage-balanced field edits over every kind of leaf; a panic counts as not verifying.", TC, "DESIGN.md §6 C15"),
 "C16": ("property-based testing + attacker program: boundary grid of (interval, x) classes, out-of-range prover runs, other bounds/bases/modulus, leaf perturbation, transplant of sub-proofs onto foreign commitments (with arithmetic self-check)",
         "Grid x in {a, a+1, mid, b-1, b, random} x width in {1, 2, 3, 2^k, 2^256-1, random} x a classes, plus generated cases; transplant targets incl. unknown openings.", TC + " Domain 0 <= a < b.", "DESIGN.md §6 C16"),
 "C17": ("attacker programs over the serialised proofs (opening recomputation over (value, randomness) objects and over all leaf pairs, v recovery, dictionary attack with decoy) on generated honest proofs for every non-empty hidden set; planted-opening positive control",
         "Every non-empty hidden set for n <= 3 / 5, issuance proofs (with/without trusted commitment) and signature proofs, high-entropy attributes.", TC + " Only the direct recomputation attacks named by the property are decided.", "DESIGN.md §6 C17"),
 "C18": ("property-based testing with independent number-theoretic oracles (own Miller-Rabin, Jacobi, gcd) over freshly generated keys, bases, commitment keys (own modulus via hook H2), codecs and random helpers",
         "6 (quick) / 40 (thorough) generate()d CL1024 keys, fixture-prime keys for all three suites, own-modulus commitment keys, hundreds of random-helper cases.", TC + " Primality is probabilistic on both sides.", "DESIGN.md §6 C18"),
 "C19": ("attacker program over the serialised proofs: all response/challenge and response/response quotients against the prover's secrets, with challenges recomputed and validated against the verification equation; public inverse map for range-proof square roots; under-blinding positive control",
         "Every non-empty hidden set for n <= 3 / 5 and generated cases; ~10^5 quotients judged per quick run.", TC + " Internal commitment randomness unknown to the harness is judged only through known secrets.", "DESIGN.md §6 C19"),
})
NOT_YET = {}
ALL = ["C%02d" % i for i in range(1, 20)]

checks = []
for pid in ALL:
    if pid not in BUILT:
        continue
    tech, text, note, ref = BUILT[pid]
    checks.append({
        "property_id": pid,
        "quick_cmd": "./check %s quick" % pid,
        "thorough_cmd": "./check %s thorough" % pid,
        "evidence_file": "/verif/evidence/%s.json" % pid,
        "replay_cmd_template": "./check replay {path}",
        "engine": "zkverif",
        "level_claimed": {"category": "exploration", "text": text, "design_ref": ref},
        "level_note": note,
        "technique": tech,
    })
na = [{"property_id": p, "reason": NOT_YET.get(p, "check not built yet in this revision of /verif (work in progress; see DESIGN.md §6 for its design)")}
      for p in ALL if p not in BUILT]
m = {
 "version": 1,
 "setup_cmd": "./setup.sh",
 "hooks": {
   "guard": "cargo feature zkryptium_verif",
   "enable": "the harness crate depends on /repo (path dependency via /verif/.build/repo-under-test) with features bbsplus, bbsplus_blind, cl03 and, through its own feature 'hooks', zkryptium/zkryptium_verif; ./check builds with --features hooks",
   "baseline_off_cmd": "cd /repo && cargo test --workspace --no-fail-fast --offline",
   "source_commits": repo_commits("verif hooks"),
   "add_only": True,
 },
 "engines": [{
   "name": "zkverif",
   "path": "/verif/harness",
   "serves_properties": [c["property_id"] for c in checks],
   "kind_free_text": "Rust binary driving proptest TestRunners (16 workers) over the library linked as an ordinary dependency; explicit oracles per property; shrunk failures written as JSON replay files",
 }],
 "checks": checks,
 "not_applicable": na,
 "notes": "Technique family: property-based testing and fuzzing. ./check <id> <tier> rebuilds the harness from /repo's working tree (content-hash freshness), exit 0/1/2 (2 = inconclusive/infrastructure). Genuine defects repaired by 'fix:' commits in /repo are listed in known_findings.json under 'fixed'.",
}
json.dump(m, open("/verif/MANIFEST.json", "w"), indent=1)
print("checks:", [c["property_id"] for c in checks], "not_applicable:", len(na))
