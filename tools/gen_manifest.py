#!/usr/bin/env python3
"""Regenerates /verif/MANIFEST.json from the table below (single source of truth)."""
import json, subprocess

def repo_commits(prefix):
    out = subprocess.run(["git", "-C", "/repo", "log", "--format=%H %s"], capture_output=True, text=True).stdout
    return [l.split()[0] for l in out.splitlines() if l.split(" ", 1)[1].startswith(prefix)]

# id -> (technique, level text, level note, design ref)
BUILT = {
 "C01": ("property-based testing (proptest): generated keys/headers/message vectors, validity + round-trip + None/empty metamorphic oracle, both suites",
         "Generated-input search: sign/verify/round-trip on hundreds (quick) to thousands (thorough) of shapes incl. L=0, 255..257, 1000+, empty and 1 MiB messages, None vs empty spellings; finds counterexamples, does not establish absence.",
         "Trusts bls12_381_plus arithmetic; sizes bounded (L <= 10^4, messages/headers <= 1 MiB).", "DESIGN.md §6 C01"),
}
NOT_YET = {}
ALL = ["C%02d" % i for i in range(1, 20)]

checks = []
for pid in ALL:
    if pid not in BUILT:
        continue
    tech, text, note, ref = BUILT[pid]
    checks.append({
        "property_id": pid,
        "quick_cmd": "./check %s quick" % pid,
        "thorough_cmd": "./check %s thorough" % pid,
        "evidence_file": "/verif/evidence/%s.json" % pid,
        "replay_cmd_template": "./check replay {path}",
        "engine": "zkverif",
        "level_claimed": {"category": "exploration", "text": text, "design_ref": ref},
        "level_note": note,
        "technique": tech,
    })
na = [{"property_id": p, "reason": NOT_YET.get(p, "check not built yet in this revision of /verif (work in progress; see DESIGN.md §6 for its design)")}
      for p in ALL if p not in BUILT]
m = {
 "version": 1,
 "setup_cmd": "./setup.sh",
 "hooks": {
   "guard": "cargo feature zkryptium_verif",
   "enable": "the harness crate depends on /repo (path dependency via /verif/.build/repo-under-test) with features bbsplus, bbsplus_blind, cl03 and, through its own feature 'hooks', zkryptium/zkryptium_verif; ./check builds with --features hooks",
   "baseline_off_cmd": "cd /repo && cargo test --workspace --no-fail-fast --offline",
   "source_commits": repo_commits("verif hooks"),
   "add_only": True,
 },
 "engines": [{
   "name": "zkverif",
   "path": "/verif/harness",
   "serves_properties": [c["property_id"] for c in checks],
   "kind_free_text": "Rust binary driving proptest TestRunners (16 workers) over the library linked as an ordinary dependency; explicit oracles per property; shrunk failures written as JSON replay files",
 }],
 "checks": checks,
 "not_applicable": na,
 "notes": "Technique family: property-based testing and fuzzing. ./check <id> <tier> rebuilds the harness from /repo's working tree (content-hash freshness), exit 0/1/2 (2 = inconclusive/infrastructure). Genuine defects repaired by 'fix:' commits in /repo are listed in known_findings.json under 'fixed'.",
}
json.dump(m, open("/verif/MANIFEST.json", "w"), indent=1)
print("checks:", [c["property_id"] for c in checks], "not_applicable:", len(na))
