#!/bin/bash
# tools/stability.sh <repeats> <seeded-id>:<Cxx> ...   run a check several times against a seeded change and count the reports
# (race- and phase-dependent changes must be reported every time, not just once)
V=$(cd "$(dirname "$(readlink -f "$0")")/.." && pwd)
n=$1; shift
for pair in "$@"; do
  id=${pair%%:*}; prop=${pair##*:}
  hit=0
  for i in $(seq 1 "$n"); do
    if "$V/tools/with_patch.sh" "$V/seeded/$id/patch.diff" "$prop" quick 2>&1 | grep -q "^VIOLATION"; then hit=$((hit+1)); fi
  done
  echo "$id $prop reported $hit of $n"
done
