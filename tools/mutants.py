#!/usr/bin/env python3
"""Sensitivity runs: apply each catalogue mutant (notes/mutant-catalogue.json, exact old->new text) or
each seeded patch (seeded/*/patch.diff) to a scratch worktree of /repo and run the quick check of the
properties it is meant to break.  Results go to notes/sensitivity-<label>.json.
usage: tools/mutants.py [--only M01,M02] [--seeded] [--props C01,C02] [--tier quick]"""
import json, os, subprocess, sys, time, argparse, pathlib, shutil
V = pathlib.Path(__file__).resolve().parent.parent
ap = argparse.ArgumentParser()
ap.add_argument('--only', default='')
ap.add_argument('--seeded', action='store_true')
ap.add_argument('--props', default='')
ap.add_argument('--tier', default='quick')
ap.add_argument('--label', default='run')
ap.add_argument('--harvest', action='store_true', help='copy the replay file of each violation to regressions/<prop>/<id>.json')
a = ap.parse_args()
only = set(x for x in a.only.split(',') if x)
jobs = []
if a.seeded:
    for d in sorted((V / 'seeded').iterdir()):
        if (d / 'patch.diff').exists():
            meta = json.load(open(d / 'meta.json')) if (d / 'meta.json').exists() else {}
            jobs.append({'id': d.name, 'patch': str(d / 'patch.diff'), 'properties': meta.get('properties', [])})
else:
    for m in json.load(open(V / 'notes' / 'mutant-catalogue.json')):
        if 'old' in m:
            jobs.append(m)
if only:
    jobs = [j for j in jobs if j['id'] in only]
results = []
for j in jobs:
    props = [p for p in a.props.split(',') if p] or j.get('properties', [])
    wt = f'/tmp/scratch/mut-{os.getpid()}-{j["id"]}'
    os.makedirs('/tmp/scratch', exist_ok=True)
    subprocess.run(['git', '-C', '/repo', 'worktree', 'add', '-q', '--detach', wt, 'HEAD'], check=True)
    try:
        if 'patch' in j:
            r = subprocess.run(['git', '-C', wt, 'apply', j['patch']], capture_output=True, text=True)
            if r.returncode:
                results.append({'id': j['id'], 'error': 'patch does not apply: ' + r.stderr[:300]}); continue
        else:
            f = pathlib.Path(wt) / j['file']
            s = f.read_text()
            if s.count(j['old']) != 1:
                results.append({'id': j['id'], 'error': f'old text found {s.count(j["old"])} times'}); continue
            f.write_text(s.replace(j['old'], j['new']))
        for p in props:
            t0 = time.time()
            env = dict(os.environ, ZK_REPO=wt)
            r = subprocess.run([str(V / 'check'), p, a.tier], capture_output=True, text=True, env=env)
            lines = [l for l in r.stdout.splitlines() if l.startswith(('VIOLATION', 'OK ', 'INCONCLUSIVE', '  what:'))]
            results.append({'id': j['id'], 'property': p, 'exit': r.returncode, 'wall_s': round(time.time() - t0, 1), 'lines': lines[:4]})
            if a.harvest and r.returncode == 1:
                for l in r.stdout.splitlines():
                    if l.startswith('VIOLATION') and 'replay=' in l:
                        src = l.split('replay=')[1].strip()
                        dst = V / 'regressions' / p
                        dst.mkdir(parents=True, exist_ok=True)
                        try:
                            d = json.load(open(src)); d['origin'] = 'shrunk failing case found on seeded change ' + j['id']
                            json.dump(d, open(dst / (j['id'] + '.json'), 'w'), indent=1)
                        except Exception as e:
                            print('harvest failed', e)
                        break
            print(j['id'], p, 'exit', r.returncode, round(time.time() - t0, 1), 's', (lines[0][:160] if lines else ''), flush=True)
    finally:
        subprocess.run(['git', '-C', '/repo', 'worktree', 'remove', '--force', wt])
json.dump(results, open(V / 'notes' / f'sensitivity-{a.label}.json', 'w'), indent=1)
caught = sum(1 for r in results if r.get('exit') == 1)
print(f'{caught} of {len(results)} (mutant, property) runs reported a violation')
