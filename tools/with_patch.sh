#!/bin/bash
# tools/with_patch.sh <patch.diff> <Cxx> [tier]   run a check against a scratch copy of /repo with the patch applied
set -u
V=$(cd "$(dirname "$(readlink -f "$0")")/.." && pwd)
patch=$(readlink -f "$1"); prop=$2; tier=${3:-quick}
wt=/tmp/scratch/wt-$$
mkdir -p /tmp/scratch
git -C /repo worktree add -q --detach "$wt" HEAD || exit 2
if ! git -C "$wt" apply "$patch"; then echo "PATCH DOES NOT APPLY"; git -C /repo worktree remove --force "$wt"; exit 2; fi
ZK_REPO=$wt "$V/check" "$prop" "$tier"; rc=$?
git -C /repo worktree remove --force "$wt"
ln -sfn /repo "$V/.build/repo-under-test"
# restore the build for /repo lazily (next ./check rebuilds)
exit $rc
