#!/bin/bash
# tools/confirm_seeded.sh <agent-out-dir> <seeded-name> [cl]
# Confirms an independently produced defect in a scratch worktree: patch applies, the existing tests pass
# with it, the demonstration fails with it and passes without it.  Writes seeded/<name>/{patch.diff,demo.rs,meta.json}.
set -u
src=$1; name=$2; cl=${3:-}
dst=/verif/seeded/$name
wt=/tmp/scratch/confirm-$$
mkdir -p /tmp/scratch "$dst"
export CARGO_NET_OFFLINE=true CONFIG_SITE=/verif/gmp-config.site GMP_MPFR_SYS_CACHE=/verif/.build/gmp-cache
git -C /repo worktree add -q --detach "$wt" HEAD || exit 2
feat=""; [ -n "$cl" ] && feat="--features cl03"
res() { echo "$1" | tee -a "$dst/confirm.log"; }
: > "$dst/confirm.log"
cd "$wt"
mkdir -p tests && cp "$src/demo.rs" tests/demo.rs
# demo without patch
d0=$(cargo test --offline --release $feat --test demo 2>&1 | tail -30); e0=$?
echo "$d0" | grep -q "test result: ok" && p0=pass || p0=fail
res "demo without patch: $p0"
if ! git apply "$src/patch.diff"; then res "PATCH DOES NOT APPLY"; cd /; git -C /repo worktree remove --force "$wt"; exit 2; fi
d1=$(cargo test --offline --release $feat --test demo 2>&1 | tail -40)
echo "$d1" | grep -q "test result: ok" && p1=pass || p1=fail
res "demo with patch: $p1"
rm -rf tests/demo.rs; rmdir tests 2>/dev/null
t=$(cargo test --workspace --no-fail-fast --offline 2>&1 | grep -E '^test result' | head -1)
res "baseline tests with patch: $t"
if [ -n "$cl" ]; then
  tc=$(cargo test --offline --features cl03 --lib cl1024 2>&1 | grep -E '^test result' | head -1)
  res "crate's CL1024 tests with patch: $tc"
fi
cd /; git -C /repo worktree remove --force "$wt"
cp "$src/patch.diff" "$src/demo.rs" "$dst/"
python3 - "$src" "$dst" "$p0" "$p1" "$t" <<'PY'
import json,sys
src,dst,p0,p1,t=sys.argv[1:6]
try: m=json.load(open(src+'/meta.json'))
except Exception as e: m={'error':str(e)}
out={'properties':[m.get('property')], 'origin':'independent sub-agent (given only the property text and a scratch worktree)',
 'summary':m.get('summary'), 'needs_to_manifest':m.get('needs_to_manifest'), 'why_tests_pass':m.get('why_tests_pass'),
 'confirmed_by_me':{'demo_without_patch':p0,'demo_with_patch':p1,'baseline_tests_with_patch':t,
   'how':'tools/confirm_seeded.sh: scratch worktree of /repo HEAD, demo as tests/demo.rs (cargo test --release --test demo) before and after git apply patch.diff, then cargo test --workspace'}}
json.dump(out,open(dst+'/meta.json','w'),indent=1)
print('confirmed' if (p0=='pass' and p1=='fail' and '98 passed' in t) else 'NOT CONFIRMED', dst)
PY
