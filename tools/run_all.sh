#!/bin/bash
# tools/run_all.sh [tier] [ids...]   run the registered checks one after the other, summary at the end
cd "$(dirname "$(readlink -f "$0")")/.."
tier=${1:-quick}; shift
ids=${@:-$(python3 -c "import json;print(' '.join(c['property_id'] for c in json.load(open('MANIFEST.json'))['checks']))")}
rc=0
for id in $ids; do
  s=$(date +%s); out=$(./check $id $tier 2>&1); e=$?
  echo "$id exit=$e $(( $(date +%s) - s ))s :: $(echo "$out" | grep -E '^(OK|VIOLATION|INCONCLUSIVE|KNOWN-FINDING)' | head -3 | tr '\n' ' ')"
  [ $e -ne 0 ] && rc=1
done
exit $rc
