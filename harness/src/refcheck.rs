//! Validation of the reference model against every fixture of the repository (pinned copies under
//! /verif/fixtures).  A mismatch is a harness error (exit 2), never a verdict about the library.

use crate::gen::SuiteId;
use crate::refimpl::*;
use bls12_381_plus::Scalar;
use serde_json::Value;

fn load(path: &str) -> Result<Value, String> {
    let t = std::fs::read_to_string(path).map_err(|e| format!("{}: {}", path, e))?;
    serde_json::from_str(&t).map_err(|e| format!("{}: {}", path, e))
}

fn hexv(v: &Value) -> Vec<u8> {
    hex::decode(v.as_str().unwrap_or("")).unwrap_or_default()
}

fn msgs_of(v: &Value) -> Vec<Vec<u8>> {
    v.as_array().map(|a| a.iter().map(hexv).collect()).unwrap_or_default()
}

fn idx_map(v: &Value) -> (Vec<usize>, Vec<Vec<u8>>) {
    // {"0": hex, "2": hex}: ascending by numeric key
    let mut items: Vec<(usize, Vec<u8>)> = v
        .as_object()
        .map(|o| o.iter().map(|(k, h)| (k.parse().unwrap(), hexv(h))).collect())
        .unwrap_or_default();
    items.sort();
    (items.iter().map(|x| x.0).collect(), items.into_iter().map(|x| x.1).collect())
}

macro_rules! ensure {
    ($c:expr, $($a:tt)*) => { if !($c) { return Err(format!($($a)*)); } };
}

pub const MOCK_SEED: &[u8] = b"3.141592653589793238462643383279";

pub fn validate_reference() -> Result<usize, String> {
    let mut n = 0usize;
    for (suite, dir) in [(SuiteId::Sha256, "bls12-381-sha-256"), (SuiteId::Shake256, "bls12-381-shake-256")] {
        let r = Ref::new(suite);
        let base = format!("{}/fixtures/bbs/{}", crate::engine::verif_dir(), dir);
        let bbase = format!("{}/fixtures/bbs_blind/{}", crate::engine::verif_dir(), dir);
        let api = r.api_id();

        ensure!(r.p1() == r.p1_derived(), "{}: P1 constant differs from its derivation", dir);
        n += 1;

        // key pair
        let k = load(&format!("{}/keypair.json", base))?;
        let sk = r
            .keygen(&hexv(&k["keyMaterial"]), Some(&hexv(&k["keyInfo"])), Some(&hexv(&k["keyDst"])))
            .map_err(|e| format!("keygen {:?}", e))?;
        ensure!(scalar_bytes(&sk).to_vec() == hexv(&k["keyPair"]["secretKey"]), "{}: sk", dir);
        // the default dst is the one of the fixture
        let sk2 = r.keygen(&hexv(&k["keyMaterial"]), Some(&hexv(&k["keyInfo"])), None).unwrap();
        ensure!(sk2 == sk, "{}: default key dst differs from the fixture's", dir);
        ensure!(g2_bytes(&r.sk_to_pk(&sk)).to_vec() == hexv(&k["keyPair"]["publicKey"]), "{}: pk", dir);
        n += 3;

        // generators
        let g = load(&format!("{}/generators.json", base))?;
        let want: Vec<Vec<u8>> = msgs_of(&g["MsgGenerators"]);
        let gens = r.create_generators(want.len() + 1, &api).unwrap();
        ensure!(g1_bytes(&r.p1()).to_vec() == hexv(&g["P1"]), "{}: P1", dir);
        ensure!(g1_bytes(&gens[0]).to_vec() == hexv(&g["Q1"]), "{}: Q1", dir);
        for (i, w) in want.iter().enumerate() {
            ensure!(&g1_bytes(&gens[i + 1]).to_vec() == w, "{}: H_{}", dir, i + 1);
        }
        n += 2 + want.len();

        // h2s
        let h = load(&format!("{}/h2s.json", base))?;
        let s = r.h2s(&hexv(&h["message"]), &hexv(&h["dst"])).unwrap();
        ensure!(scalar_bytes(&s).to_vec() == hexv(&h["scalar"]), "{}: h2s", dir);
        n += 1;

        // map message to scalar
        let m = load(&format!("{}/MapMessageToScalarAsHash.json", base))?;
        for c in m["cases"].as_array().unwrap() {
            let s = r.msgs_to_scalars(&[hexv(&c["message"])], &api).unwrap();
            ensure!(scalar_bytes(&s[0]).to_vec() == hexv(&c["scalar"]), "{}: map message", dir);
            n += 1;
        }

        // mocked rng
        let mr = load(&format!("{}/mockedRng.json", base))?;
        let cnt = mr["count"].as_u64().unwrap() as usize;
        let ms = r.mocked_scalars(&hexv(&mr["seed"]), &hexv(&mr["dst"]), cnt).unwrap();
        for (i, w) in mr["mockedScalars"].as_array().unwrap().iter().enumerate() {
            ensure!(scalar_bytes(&ms[i]).to_vec() == hexv(w), "{}: mocked scalar {}", dir, i);
        }
        ensure!(hexv(&mr["seed"]) == MOCK_SEED, "mock seed");
        n += cnt;

        // signatures
        for i in 1..=10 {
            let f = load(&format!("{}/signature/signature{:03}.json", base, i))?;
            let sk = octets_to_scalar(&hexv(&f["signerKeyPair"]["secretKey"])).unwrap();
            let pko = hexv(&f["signerKeyPair"]["publicKey"]);
            let header = hexv(&f["header"]);
            let msgs = msgs_of(&f["messages"]);
            let sig = hexv(&f["signature"]);
            let valid = f["result"]["valid"].as_bool().unwrap();
            let dec = r.verify(&pko, &sig, &header, &msgs).is_ok();
            ensure!(dec == valid, "{}: signature{:03} decision {} expected {}", dir, i, dec, valid);
            if valid {
                let pk = octets_to_pubkey(&pko).unwrap();
                let mine = r.sign(&sk, &pk, &header, &msgs).unwrap();
                ensure!(mine.to_vec() == sig, "{}: signature{:03} octets", dir, i);
            }
            n += 1;
        }

        // proofs
        let mock_dst = [&api[..], b"MOCK_RANDOM_SCALARS_DST_"].concat();
        for i in 1..=15 {
            let f = load(&format!("{}/proof/proof{:03}.json", base, i))?;
            let pko = hexv(&f["signerPublicKey"]);
            let header = hexv(&f["header"]);
            let ph = hexv(&f["presentationHeader"]);
            let msgs = msgs_of(&f["messages"]);
            let idx: Vec<usize> = f["disclosedIndexes"].as_array().unwrap().iter().map(|x| x.as_u64().unwrap() as usize).collect();
            let proof = hexv(&f["proof"]);
            let valid = f["result"]["valid"].as_bool().unwrap();
            let disclosed: Vec<Vec<u8>> = idx.iter().filter_map(|&j| msgs.get(j).cloned()).collect();
            let dec = r.proof_verify(&pko, &proof, &header, &ph, &disclosed, &idx).is_ok();
            ensure!(dec == valid, "{}: proof{:03} decision {} expected {}", dir, i, dec, valid);
            if valid {
                let pk = octets_to_pubkey(&pko).unwrap();
                let u = msgs.len() - idx.len();
                let rnd = r.mocked_scalars(MOCK_SEED, &mock_dst, 5 + u).unwrap();
                let mine = r.proof_gen(&pk, &hexv(&f["signature"]), &header, &ph, &msgs, &idx, &rnd).unwrap();
                ensure!(mine == proof, "{}: proof{:03} octets", dir, i);
            }
            n += 1;
        }

        // blind: generators
        let bg = load(&format!("{}/generators.json", bbase))?;
        let apib = r.api_id_blind();
        ensure!(apib == bg["generators"]["api_id"].as_str().unwrap().as_bytes(), "{}: blind api id", dir);
        let want = msgs_of(&bg["generators"]["MsgGenerators"]);
        let gens = r.create_generators(want.len() + 1, &apib).unwrap();
        ensure!(g1_bytes(&gens[0]).to_vec() == hexv(&bg["generators"]["Q1"]), "{}: blind Q1", dir);
        for (i, w) in want.iter().enumerate() {
            ensure!(&g1_bytes(&gens[i + 1]).to_vec() == w, "{}: blind H_{}", dir, i + 1);
        }
        let want = msgs_of(&bg["blindGenerators"]["MsgGenerators"]);
        let bgens = r.blind_generators(want.len() + 1).unwrap();
        ensure!(g1_bytes(&bgens[0]).to_vec() == hexv(&bg["blindGenerators"]["Q1"]), "{}: Q2", dir);
        for (i, w) in want.iter().enumerate() {
            ensure!(&g1_bytes(&bgens[i + 1]).to_vec() == w, "{}: J_{}", dir, i + 1);
        }
        n += 2;

        // blind: commitments
        for i in 1..=2 {
            let f = load(&format!("{}/commit/commit{:03}.json", bbase, i))?;
            let cm = msgs_of(&f["committedMessages"]);
            let dst = f["mockRngParameters"]["commit"]["DST"].as_str().unwrap().as_bytes().to_vec();
            let cnt = f["mockRngParameters"]["commit"]["count"].as_u64().unwrap() as usize;
            ensure!(cnt == cm.len() + 2, "{}: commit count", dir);
            let rnd = r.mocked_scalars(MOCK_SEED, &dst, cnt).unwrap();
            let (oct, spb) = r.commit(&cm, &rnd).unwrap();
            ensure!(oct == hexv(&f["commitmentWithProof"]), "{}: commit{:03} octets", dir, i);
            ensure!(scalar_bytes(&spb).to_vec() == hexv(&f["proverBlind"]), "{}: commit{:03} blind", dir, i);
            ensure!(r.validate_commit(&oct).is_ok(), "{}: commit{:03} validation", dir, i);
            n += 1;
        }

        // blind: signatures
        for i in 1..=5 {
            let f = load(&format!("{}/signature/signature{:03}.json", bbase, i))?;
            let sk = octets_to_scalar(&hexv(&f["signerKeyPair"]["secretKey"])).unwrap();
            let pko = hexv(&f["signerKeyPair"]["publicKey"]);
            let pk = octets_to_pubkey(&pko).unwrap();
            let header = hexv(&f["header"]);
            let msgs = msgs_of(&f["messages"]);
            let cm = msgs_of(&f["committedMessages"]);
            let cwp = f["commitmentWithProof"].as_str().map(|s| hex::decode(s).unwrap()).unwrap_or_default();
            let spb = f["proverBlind"].as_str().map(|s| octets_to_scalar(&hex::decode(s).unwrap()).unwrap()).unwrap_or(Scalar::ZERO);
            let mine = r.blind_sign(&sk, &pk, &cwp, &header, &msgs).map_err(|e| format!("{}: blind signature{:03}: {:?}", dir, i, e))?;
            ensure!(mine.to_vec() == hexv(&f["signature"]), "{}: blind signature{:03} octets", dir, i);
            let dec = r.verify_blind_sign(&pko, &mine, &header, &msgs, &cm, &spb).is_ok();
            ensure!(dec == f["result"]["valid"].as_bool().unwrap(), "{}: blind signature{:03} decision", dir, i);
            n += 1;
        }

        // blind: proofs
        let all = load(&format!("{}/fixtures/bbs_blind/messages.json", crate::engine::verif_dir()))?;
        let all_msgs = msgs_of(&all["messages"]);
        let all_cm = msgs_of(&all["committedMessages"]);
        for i in 1..=8 {
            let f = load(&format!("{}/proof/proof{:03}.json", bbase, i))?;
            let pko = hexv(&f["signerPublicKey"]);
            let pk = octets_to_pubkey(&pko).unwrap();
            let header = hexv(&f["header"]);
            let ph = hexv(&f["presentationHeader"]);
            let l = f["L"].as_u64().unwrap() as usize;
            let (idx, dmsgs) = idx_map(&f["revealedMessages"]);
            let has_cm = f["revealedCommittedMessages"].is_object();
            let (cidx, dcm) = idx_map(&f["revealedCommittedMessages"]);
            let cm: Vec<Vec<u8>> = if has_cm { all_cm.clone() } else { vec![] };
            let spb = f["proverBlind"].as_str().map(|s| octets_to_scalar(&hex::decode(s).unwrap()).unwrap()).unwrap_or(Scalar::ZERO);
            let dst = f["mockRngParameters"]["proof"]["DST"].as_str().unwrap().as_bytes().to_vec();
            let cnt = f["mockRngParameters"]["proof"]["count"].as_u64().unwrap() as usize;
            let rnd = r.mocked_scalars(MOCK_SEED, &dst, cnt).unwrap();
            let mine = r
                .blind_proof_gen(&pk, &hexv(&f["signature"]), &header, &ph, &all_msgs, &cm, &idx, &cidx, &spb, &rnd)
                .map_err(|e| format!("{}: blind proof{:03}: {:?}", dir, i, e))?;
            ensure!(mine == hexv(&f["proof"]), "{}: blind proof{:03} octets", dir, i);
            let dec = r.blind_proof_verify(&pko, &mine, &header, &ph, l, &dmsgs, &dcm, &idx, &cidx).is_ok();
            ensure!(dec == f["result"]["valid"].as_bool().unwrap(), "{}: blind proof{:03} decision", dir, i);
            n += 1;
        }
    }
    Ok(n)
}
