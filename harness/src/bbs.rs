//! Thin typed helpers over the BBS API of the library under test.

pub use crate::gen::SuiteId;
use crate::gen::{KeySpec, FIXTURE_IKM, FIXTURE_KEY_INFO};
pub use zkryptium::bbsplus::ciphersuites::{BbsCiphersuite, Bls12381Sha256, Bls12381Shake256};
pub use zkryptium::bbsplus::commitment::BlindFactor;
pub use zkryptium::bbsplus::generators::Generators;
pub use zkryptium::bbsplus::keys::{BBSplusPublicKey, BBSplusSecretKey};
pub use zkryptium::errors::Error;
pub use zkryptium::keys::pair::KeyPair;
pub use zkryptium::schemes::algorithms::BBSplus;
pub use zkryptium::schemes::generics::{BlindSignature, Commitment, PoKSignature, Signature};

#[macro_export]
macro_rules! with_suite {
    ($s:expr, $CS:ident => $body:expr) => {
        match $s {
            $crate::gen::SuiteId::Sha256 => {
                type $CS = zkryptium::bbsplus::ciphersuites::Bls12381Sha256;
                $body
            }
            $crate::gen::SuiteId::Shake256 => {
                type $CS = zkryptium::bbsplus::ciphersuites::Bls12381Shake256;
                $body
            }
        }
    };
}

pub fn hx(b: &[u8]) -> String {
    if b.len() <= 96 {
        hex::encode(b)
    } else {
        format!("{}..({} bytes)", hex::encode(&b[..32]), b.len())
    }
}

pub fn key_inputs(spec: &KeySpec) -> (Vec<u8>, Option<Vec<u8>>, Option<Vec<u8>>) {
    if spec.fixture {
        (
            hex::decode(FIXTURE_IKM).unwrap(),
            Some(hex::decode(FIXTURE_KEY_INFO).unwrap()),
            None,
        )
    } else {
        (spec.ikm.bytes(), spec.key_info.get(), spec.key_dst.get())
    }
}

pub fn keypair<CS: BbsCiphersuite>(spec: &KeySpec) -> Result<KeyPair<BBSplus<CS>>, Error> {
    let (ikm, info, dst) = key_inputs(spec);
    KeyPair::<BBSplus<CS>>::generate(&ikm, info.as_deref(), dst.as_deref())
}

pub fn err_s<T>(r: &Result<T, Error>) -> String {
    match r {
        Ok(_) => "Ok".to_string(),
        Err(e) => format!("Err({:?})", e),
    }
}
