//! Thin typed helpers over the BBS API of the library under test.

pub use crate::gen::SuiteId;
use crate::gen::{KeySpec, FIXTURE_IKM, FIXTURE_KEY_INFO};
pub use zkryptium::bbsplus::ciphersuites::{BbsCiphersuite, Bls12381Sha256, Bls12381Shake256};
pub use zkryptium::bbsplus::commitment::BlindFactor;
pub use zkryptium::bbsplus::generators::Generators;
pub use zkryptium::bbsplus::keys::{BBSplusPublicKey, BBSplusSecretKey};
pub use zkryptium::errors::Error;
pub use zkryptium::keys::pair::KeyPair;
pub use zkryptium::schemes::algorithms::BBSplus;
pub use zkryptium::schemes::generics::{BlindSignature, Commitment, PoKSignature, Signature};

#[macro_export]
macro_rules! with_suite {
    ($s:expr, $CS:ident => $body:expr) => {
        match $s {
            $crate::gen::SuiteId::Sha256 => {
                type $CS = zkryptium::bbsplus::ciphersuites::Bls12381Sha256;
                $body
            }
            $crate::gen::SuiteId::Shake256 => {
                type $CS = zkryptium::bbsplus::ciphersuites::Bls12381Shake256;
                $body
            }
        }
    };
}

/// A non-identity point of E(Fp) whose order divides the cofactor (so it lies outside G1): r * P for the
/// `k`-th curve point P found from small x coordinates.
pub fn torsion_g1(k: usize) -> bls12_381_plus::G1Projective {
    use bls12_381_plus::group::Curve;
    use bls12_381_plus::{G1Affine, G1Projective, Scalar};
    let mut found = 0;
    for x in 1u16..=4000 {
        let mut enc = [0u8; 48];
        enc[0] = 0x80;
        enc[46] = (x >> 8) as u8;
        enc[47] = x as u8;
        if let Some(p) = Option::<G1Affine>::from(G1Affine::from_compressed_unchecked(&enc)) {
            let p = G1Projective::from(p);
            let q = p * (-Scalar::ONE) + p; // (r - 1) P + P
            let qa = q.to_affine();
            if !bool::from(qa.is_identity()) && !bool::from(qa.is_torsion_free()) {
                if found == k {
                    return q;
                }
                found += 1;
            }
        }
    }
    panic!("no torsion point found");
}

pub const GROUP_ORDER_HEX: &str = "73eda753299d7d483339d80809a1d80553bda402fffe5bfeffffffff00000001";

/// the 32-octet big-endian string of (value + r): another octet string for the same residue; None when it
/// does not fit 256 bits
pub fn plus_r(b: &[u8]) -> Option<Vec<u8>> {
    let r = hex::decode(GROUP_ORDER_HEX).unwrap();
    if b.len() != 32 {
        return None;
    }
    let mut out = vec![0u8; 32];
    let mut carry = 0u16;
    for i in (0..32).rev() {
        let t = b[i] as u16 + r[i] as u16 + carry;
        out[i] = t as u8;
        carry = t >> 8;
    }
    if carry == 0 { Some(out) } else { None }
}

pub fn hx(b: &[u8]) -> String {
    if b.len() <= 96 {
        hex::encode(b)
    } else {
        format!("{}..({} bytes)", hex::encode(&b[..32]), b.len())
    }
}

pub fn key_inputs(spec: &KeySpec) -> (Vec<u8>, Option<Vec<u8>>, Option<Vec<u8>>) {
    if spec.fixture {
        (
            hex::decode(FIXTURE_IKM).unwrap(),
            Some(hex::decode(FIXTURE_KEY_INFO).unwrap()),
            None,
        )
    } else {
        (spec.ikm.bytes(), spec.key_info.get(), spec.key_dst.get())
    }
}

pub fn keypair<CS: BbsCiphersuite>(spec: &KeySpec) -> Result<KeyPair<BBSplus<CS>>, Error> {
    let (ikm, info, dst) = key_inputs(spec);
    KeyPair::<BBSplus<CS>>::generate(&ikm, info.as_deref(), dst.as_deref())
}

pub fn err_s<T>(r: &Result<T, Error>) -> String {
    match r {
        Ok(_) => "Ok".to_string(),
        Err(e) => format!("Err({:?})", e),
    }
}

/// Shorter stand-ins for an octet string: what a "large input" shortcut inside the library could hash the
/// data down to before binding it (generic digests, and the suite's own expand_message / hash_to_scalar under the
/// domain-separation tags the library uses). A statement in which a long header / message / presentation header
/// is replaced by one of these is a different statement and has to be refused.
pub fn digests_of(suite: crate::gen::SuiteId, data: &[u8]) -> Vec<(String, Vec<u8>)> {
    use sha2::Digest as _;
    use sha3::digest::{ExtendableOutput, Update, XofReader};
    let mut out: Vec<(String, Vec<u8>)> = vec![
        ("sha256".into(), sha2::Sha256::digest(data).to_vec()),
        ("sha384".into(), sha2::Sha384::digest(data).to_vec()),
        ("sha512".into(), sha2::Sha512::digest(data).to_vec()),
        ("sha3-256".into(), sha3::Sha3_256::digest(data).to_vec()),
    ];
    for n in [32usize, 48, 64] {
        let mut h = sha3::Shake256::default();
        h.update(data);
        let mut buf = vec![0u8; n];
        h.finalize_xof().read(&mut buf);
        out.push((format!("shake256/{}", n), buf));
    }
    let r = crate::refimpl::Ref::new(suite);
    for (an, api) in [("api", r.api_id()), ("blind-api", r.api_id_blind())] {
        for sfx in ["H2S_", "MAP_MSG_TO_SCALAR_AS_HASH_"] {
            let dst = [api.as_slice(), sfx.as_bytes()].concat();
            for n in [32usize, 48, 64] {
                if let Ok(x) = r.expand_message(data, &dst, n) {
                    out.push((format!("expand_message({}{})/{}", an, sfx, n), x));
                }
            }
            if let Ok(s) = r.h2s(data, &dst) {
                out.push((format!("hash_to_scalar({}{})", an, sfx), crate::refimpl::scalar_bytes(&s).to_vec()));
            }
        }
    }
    out.retain(|(_, d)| d.as_slice() != data);
    out
}
