//! Engine: proptest runners spread over worker threads, counters, evidence, replay files,
//! known-finding matching, stdout silencing and the watchdog.

use proptest::strategy::Strategy;
use proptest::test_runner::{Config, RngAlgorithm, TestCaseError, TestError, TestRng, TestRunner};
use serde_json::{json, Value};
use sha2::{Digest, Sha256};
use std::cell::RefCell;
use std::collections::{BTreeMap, HashSet};
use std::io::Write;
use std::sync::atomic::{AtomicBool, AtomicU64, AtomicUsize, Ordering};
use std::sync::Mutex;
use std::time::Instant;

/// root of the verification tree (set by ./check; /verif by default)
pub fn out_dir() -> String {
    std::env::var("VERIF_OUT_DIR").unwrap_or_else(|_| verif_dir())
}

pub fn verif_dir() -> String {
    std::env::var("VERIF_DIR").unwrap_or_else(|_| "/verif".to_string())
}

#[derive(Clone, Copy, PartialEq, Eq, Debug)]
pub enum Tier {
    Quick,
    Thorough,
}

impl Tier {
    pub fn name(&self) -> &'static str {
        match self {
            Tier::Quick => "quick",
            Tier::Thorough => "thorough",
        }
    }
    /// pick by tier
    pub fn pick<T>(&self, quick: T, thorough: T) -> T {
        match self {
            Tier::Quick => quick,
            Tier::Thorough => thorough,
        }
    }
}

pub struct Ctx {
    pub prop: String,
    pub tier: Tier,
    pub seed: u64,
    pub workers: usize,
}

#[derive(Clone, Debug)]
pub struct Fail {
    pub check: String,
    /// stable description of what fails; matched against known_findings.json
    pub site: String,
    pub msg: String,
    /// the generated case (replayable) plus any concrete artefacts
    pub case: Value,
}

pub type CheckResult = Result<(), Fail>;

#[derive(Default)]
struct CheckStats {
    cases: u64,
    evaluations: u64,
    /// seconds since the start of the run at the first / last counted evaluation of this check
    first_s: Option<f64>,
    last_s: f64,
}

pub struct Report {
    pub prop: String,
    evaluations: AtomicU64,
    nontrivial: Mutex<HashSet<u128>>,
    classes: Mutex<BTreeMap<String, u64>>,
    samples: Mutex<Vec<Value>>,
    per_check: Mutex<BTreeMap<String, CheckStats>>,
    violations: Mutex<Vec<Fail>>,
    known_hits: Mutex<BTreeMap<String, u64>>,
    known: Vec<KnownFinding>,
    notes: Mutex<Vec<String>>,
    /// a self-test of the harness failed somewhere: without a violation the run ends INCONCLUSIVE (exit 2)
    inconclusive: Mutex<Option<String>>,
    exhaustive: Mutex<Vec<String>>,
    /// set while a failing case is being shrunk: nothing is counted
    frozen: AtomicBool,
    /// set after the first violation: remaining work is skipped
    pub abort: AtomicBool,
    start: Instant,
}

#[derive(Clone, Debug)]
pub struct KnownFinding {
    pub property: String,
    pub site: String,
    pub what: String,
}

pub fn load_known_findings() -> Vec<KnownFinding> {
    let path = format!("{}/known_findings.json", verif_dir());
    let Ok(txt) = std::fs::read_to_string(&path) else {
        return vec![];
    };
    let Ok(v) = serde_json::from_str::<Value>(&txt) else {
        eprintln!("known_findings.json does not parse");
        std::process::exit(2);
    };
    let mut out = vec![];
    if let Some(arr) = v.get("findings").and_then(|a| a.as_array()) {
        for f in arr {
            out.push(KnownFinding {
                property: f["property"].as_str().unwrap_or("").to_string(),
                site: f["site"].as_str().unwrap_or("").to_string(),
                what: f["what"].as_str().unwrap_or("").to_string(),
            });
        }
    }
    out
}

impl Report {
    pub fn new(prop: &str) -> Self {
        Report {
            prop: prop.to_string(),
            evaluations: AtomicU64::new(0),
            nontrivial: Mutex::new(HashSet::new()),
            classes: Mutex::new(BTreeMap::new()),
            samples: Mutex::new(vec![]),
            per_check: Mutex::new(BTreeMap::new()),
            violations: Mutex::new(vec![]),
            known_hits: Mutex::new(BTreeMap::new()),
            known: load_known_findings()
                .into_iter()
                .filter(|k| k.property == prop)
                .collect(),
            notes: Mutex::new(vec![]),
            inconclusive: Mutex::new(None),
            exhaustive: Mutex::new(vec![]),
            frozen: AtomicBool::new(false),
            abort: AtomicBool::new(false),
            start: Instant::now(),
        }
    }

    fn counting(&self) -> bool {
        !self.frozen.load(Ordering::Relaxed)
    }

    /// count `n` evaluations (oracle applications) under `check`
    pub fn eval(&self, check: &str, n: u64) {
        if !self.counting() {
            return;
        }
        self.evaluations.fetch_add(n, Ordering::Relaxed);
        let now = self.start.elapsed().as_secs_f64();
        let mut pc = self.per_check.lock().unwrap();
        let e = pc.entry(check.to_string()).or_default();
        e.evaluations += n;
        e.first_s.get_or_insert(now);
        e.last_s = now;
    }

    fn case_done(&self, check: &str) {
        if !self.counting() {
            return;
        }
        let mut pc = self.per_check.lock().unwrap();
        pc.entry(check.to_string()).or_default().cases += 1;
    }

    /// record a non-trivial case by fingerprint
    pub fn nontrivial<T: serde::Serialize>(&self, check: &str, case: &T) {
        if !self.counting() {
            return;
        }
        let s = serde_json::to_vec(case).unwrap_or_default();
        let mut h = Sha256::new();
        h.update(check.as_bytes());
        h.update([0u8]);
        h.update(&s);
        let d = h.finalize();
        let mut b = [0u8; 16];
        b.copy_from_slice(&d[..16]);
        self.nontrivial.lock().unwrap().insert(u128::from_be_bytes(b));
    }

    pub fn class(&self, name: &str) {
        self.class_n(name, 1)
    }

    pub fn class_n(&self, name: &str, n: u64) {
        if !self.counting() {
            return;
        }
        *self.classes.lock().unwrap().entry(name.to_string()).or_insert(0) += n;
    }

    pub fn class_count(&self, name: &str) -> u64 {
        *self.classes.lock().unwrap().get(name).unwrap_or(&0)
    }

    /// keep up to `cap` samples per check label
    pub fn sample(&self, check: &str, v: Value) {
        if !self.counting() {
            return;
        }
        let mut s = self.samples.lock().unwrap();
        let have = s.iter().filter(|x| x["check"] == check).count();
        if have < 3 {
            s.push(json!({"check": check, "case": v}));
        }
    }

    pub fn note(&self, s: String) {
        self.notes.lock().unwrap().push(s);
    }

    pub fn exhaustive(&self, what: String) {
        let mut e = self.exhaustive.lock().unwrap();
        if !e.contains(&what) && e.len() < 40 {
            e.push(what);
        }
    }

    /// Report a failed expectation.  A failure whose site is listed in known_findings.json is
    /// counted and tolerated (the search continues); anything else is returned as `Err`.
    pub fn fail(&self, check: &str, site: &str, msg: String, case: Value) -> CheckResult {
        if let Some(k) = self.known.iter().find(|k| k.site == site) {
            if self.counting() {
                *self.known_hits.lock().unwrap().entry(k.site.clone()).or_insert(0) += 1;
            }
            return Ok(());
        }
        Err(Fail {
            check: check.to_string(),
            site: site.to_string(),
            msg,
            case,
        })
    }

    pub fn add_violation(&self, f: Fail) {
        self.abort.store(true, Ordering::SeqCst);
        let mut v = self.violations.lock().unwrap();
        if v.len() < 8 {
            v.push(f);
        }
    }

    /// a self-test of the harness (negative control, model self-check) failed for one case: the judgement of that
    /// case is withheld; the run goes on (another check may still show a violation) and ends INCONCLUSIVE otherwise
    pub fn inconclusive(&self, why: String) {
        if self.frozen.load(Ordering::Relaxed) {
            return;
        }
        let mut g = self.inconclusive.lock().unwrap();
        if g.is_none() {
            *g = Some(why);
        }
    }

    pub fn aborted(&self) -> bool {
        self.abort.load(Ordering::Relaxed)
    }

    pub fn violation_count(&self) -> usize {
        self.violations.lock().unwrap().len()
    }
}

fn worker_seed(ctx: &Ctx, check: &str, w: usize) -> [u8; 32] {
    let mut h = Sha256::new();
    h.update(b"zkverif-seed");
    h.update(ctx.seed.to_be_bytes());
    h.update(ctx.prop.as_bytes());
    h.update([0]);
    h.update(check.as_bytes());
    h.update((w as u64).to_be_bytes());
    let d = h.finalize();
    let mut s = [0u8; 32];
    s.copy_from_slice(&d);
    s
}

/// A deterministic 64-bit value derived from (seed, property, label); for the few places where the
/// harness needs randomness outside a proptest strategy (e.g. attacker-chosen scalars).
pub fn derive_u64(ctx: &Ctx, label: &str) -> u64 {
    let s = worker_seed(ctx, label, 0);
    u64::from_be_bytes(s[..8].try_into().unwrap())
}

thread_local! {
    static LAST_PANIC: RefCell<Option<String>> = RefCell::new(None);
}

pub fn install_panic_hook() {
    std::panic::set_hook(Box::new(|info| {
        let msg = if let Some(s) = info.payload().downcast_ref::<&str>() {
            s.to_string()
        } else if let Some(s) = info.payload().downcast_ref::<String>() {
            s.clone()
        } else {
            "<non-string panic>".to_string()
        };
        let loc = info
            .location()
            .map(|l| format!("{}:{}", l.file(), l.line()))
            .unwrap_or_default();
        LAST_PANIC.with(|p| *p.borrow_mut() = Some(format!("{} @ {}", msg, loc)));
    }));
}

/// Run `f` and convert a panic into `Err(message @ location)`.
pub fn catch<R>(f: impl FnOnce() -> R) -> Result<R, String> {
    LAST_PANIC.with(|p| *p.borrow_mut() = None);
    match std::panic::catch_unwind(std::panic::AssertUnwindSafe(f)) {
        Ok(r) => Ok(r),
        Err(_) => Err(LAST_PANIC
            .with(|p| p.borrow_mut().take())
            .unwrap_or_else(|| "panic".to_string())),
    }
}

/// Drive `f` with `cases` generated values, split over worker threads.  The first failure is
/// shrunk by proptest and recorded as a violation; the other workers stop.
pub fn run_cases<T, S, MK, F>(
    ctx: &Ctx,
    rep: &Report,
    check: &str,
    cases: u32,
    max_shrink_iters: u32,
    mk: MK,
    f: F,
) where
    T: std::fmt::Debug + Clone + serde::Serialize,
    S: Strategy<Value = T>,
    MK: Fn() -> S + Sync,
    F: Fn(&T) -> CheckResult + Sync,
{
    if rep.aborted() || cases == 0 {
        return;
    }
    let workers = ctx.workers.min(cases as usize).max(1);
    let per = cases as usize / workers;
    let extra = cases as usize % workers;
    std::thread::scope(|scope| {
        for w in 0..workers {
            let n = per + if w < extra { 1 } else { 0 };
            let (mk, f) = (&mk, &f);
            scope.spawn(move || {
                let cfg = Config {
                    cases: n as u32,
                    failure_persistence: None,
                    max_shrink_iters,
                    max_global_rejects: 65536,
                    verbose: 0,
                    ..Config::default()
                };
                let rng = TestRng::from_seed(RngAlgorithm::ChaCha, &worker_seed(ctx, check, w));
                let mut runner = TestRunner::new_with_rng(cfg, rng);
                let strat = mk();
                let last_fail: RefCell<Option<Fail>> = RefCell::new(None);
                let failed_here = std::cell::Cell::new(false);
                let res = runner.run(&strat, |v| {
                    if rep.aborted() && !failed_here.get() {
                        return Ok(());
                    }
                    let r = match catch(|| f(&v)) {
                        Ok(r) => r,
                        Err(p) => Err(Fail {
                            check: check.to_string(),
                            site: "harness-or-library-panic".to_string(),
                            msg: format!("unexpected panic: {}", p),
                            case: json!({"case": serde_json::to_value(&v).unwrap_or(json!(format!("{:?}", v)))}),
                        }),
                    };
                    match r {
                        Ok(()) => {
                            rep.case_done(check);
                            Ok(())
                        }
                        Err(fl) => {
                            // freeze counters: proptest re-runs the closure while shrinking
                            failed_here.set(true);
                            rep.frozen.store(true, Ordering::SeqCst);
                            rep.abort.store(true, Ordering::SeqCst);
                            let m = fl.msg.clone();
                            *last_fail.borrow_mut() = Some(fl);
                            Err(TestCaseError::fail(m))
                        }
                    }
                });
                match res {
                    Ok(()) => {}
                    Err(TestError::Fail(_, v)) => {
                        // recompute the failure record for the minimal value
                        let fl = match catch(|| f(&v)) {
                            Ok(Err(fl)) => fl,
                            _ => last_fail.borrow_mut().take().unwrap_or(Fail {
                                check: check.to_string(),
                                site: "unknown".into(),
                                msg: "failure did not reproduce on the shrunk value".into(),
                                case: json!({"case": serde_json::to_value(&v).unwrap_or(json!(format!("{:?}", v)))}),
                            }),
                        };
                        rep.add_violation(fl);
                    }
                    Err(TestError::Abort(r)) => {
                        eprintln!("proptest aborted in {}: {}", check, r);
                        std::process::exit(2);
                    }
                }
            });
        }
    });
}

/// Deterministic list of work items spread over the workers (work stealing by atomic index).
pub fn par_items<T: Sync + serde::Serialize, F: Fn(&T) -> CheckResult + Sync>(
    ctx: &Ctx,
    rep: &Report,
    check: &str,
    items: &[T],
    f: F,
) {
    if rep.aborted() {
        return;
    }
    let next = AtomicUsize::new(0);
    let workers = ctx.workers.min(items.len()).max(1);
    std::thread::scope(|scope| {
        for _ in 0..workers {
            scope.spawn(|| loop {
                if rep.aborted() {
                    break;
                }
                let i = next.fetch_add(1, Ordering::SeqCst);
                if i >= items.len() {
                    break;
                }
                let r = match catch(|| f(&items[i])) {
                    Ok(r) => r,
                    Err(p) => Err(Fail {
                        check: check.to_string(),
                        site: "harness-or-library-panic".to_string(),
                        msg: format!("unexpected panic: {}", p),
                        case: json!({"case": serde_json::to_value(&items[i]).unwrap_or(json!(null)), "item_index": i}),
                    }),
                };
                match r {
                    Ok(()) => rep.case_done(check),
                    Err(fl) => {
                        rep.frozen.store(true, Ordering::SeqCst);
                        rep.add_violation(fl);
                        break;
                    }
                }
            });
        }
    });
}

// ---------------------------------------------------------------------------------------------
// stdout handling: the library prints diagnostics on stdout; protocol lines go to the real stdout.

static REAL_STDOUT: Mutex<Option<std::fs::File>> = Mutex::new(None);

pub fn silence_library_stdout() {
    use std::os::fd::FromRawFd;
    unsafe {
        let saved = libc::dup(1);
        if saved < 0 {
            return;
        }
        let devnull = libc::open(b"/dev/null\0".as_ptr() as *const libc::c_char, libc::O_WRONLY);
        if devnull >= 0 {
            libc::dup2(devnull, 1);
            libc::close(devnull);
        }
        *REAL_STDOUT.lock().unwrap() = Some(std::fs::File::from_raw_fd(saved));
    }
}

pub fn out(line: &str) {
    let mut g = REAL_STDOUT.lock().unwrap();
    match g.as_mut() {
        Some(f) => {
            let _ = writeln!(f, "{}", line);
            let _ = f.flush();
        }
        None => println!("{}", line),
    }
}

pub fn start_watchdog(secs: u64, prop: String) {
    std::thread::spawn(move || {
        std::thread::sleep(std::time::Duration::from_secs(secs));
        out(&format!(
            "INCONCLUSIVE property={} watchdog expired after {} s",
            prop, secs
        ));
        std::process::exit(2);
    });
}

// ---------------------------------------------------------------------------------------------

pub struct Meta {
    pub rule: String,
    pub assumptions: Vec<String>,
}

/// Write evidence + replay files, print protocol lines, return the exit code.
pub fn finish(ctx: &Ctx, rep: &Report, meta: &Meta) -> i32 {
    let wall = rep.start.elapsed().as_secs_f64();
    let violations = rep.violations.lock().unwrap().clone();
    let nontrivial = rep.nontrivial.lock().unwrap().len() as u64;
    let evals = rep.evaluations.load(Ordering::Relaxed);

    // self-check against vacuity: an evidence file that cannot satisfy the schema is an
    // infrastructure error, not a pass
    if !violations.is_empty() && (evals < 1 || nontrivial < 2) {
        // keep the evidence file schema-valid even when the very first case failed
        rep.evaluations.fetch_add(1, Ordering::Relaxed);
    }
    if violations.is_empty() {
        if let Some(why) = rep.inconclusive.lock().unwrap().clone() {
            out(&format!("INCONCLUSIVE property={} {}", ctx.prop, why));
            return 2;
        }
    }
    if violations.is_empty() && (evals < 1 || nontrivial < 2) {
        out(&format!(
            "INCONCLUSIVE property={} vacuous run (evaluations={}, distinct_nontrivial={})",
            ctx.prop, evals, nontrivial
        ));
        return 2;
    }

    let per_check: BTreeMap<String, Value> = rep
        .per_check
        .lock()
        .unwrap()
        .iter()
        .map(|(k, v)| (k.clone(), json!({"cases": v.cases, "evaluations": v.evaluations, "active_from_s": (v.first_s.unwrap_or(0.0) * 10.0).round() / 10.0, "active_until_s": (v.last_s * 10.0).round() / 10.0})))
        .collect();
    let known_hits = rep.known_hits.lock().unwrap().clone();
    let exhaustive = rep.exhaustive.lock().unwrap().clone();
    let mut coverage = json!({
        "evaluations": evals,
        "distinct_nontrivial": nontrivial,
        "rule": meta.rule,
        "samples": *rep.samples.lock().unwrap(),
        "classes": *rep.classes.lock().unwrap(),
        "per_check": per_check,
        "known_findings_hit": known_hits,
        "notes": *rep.notes.lock().unwrap(),
        "workers": ctx.workers,
    });
    if !exhaustive.is_empty() {
        coverage["exhaustive_subdomains"] = json!(exhaustive);
    }
    if coverage["samples"].as_array().map(|a| a.is_empty()).unwrap_or(true) {
        coverage["samples"] = json!([{"note": "no sample recorded"}]);
    }
    let ev = json!({
        "property_id": ctx.prop,
        "tier": ctx.tier.name(),
        "seed": ctx.seed,
        "level": "exploration",
        "coverage": coverage,
        "assumptions": meta.assumptions,
        "wall_s": (wall * 1000.0).round() / 1000.0,
        "violations": violations.len(),
    });
    let evdir = format!("{}/evidence", out_dir());
    let _ = std::fs::create_dir_all(&evdir);
    let evpath = format!("{}/{}.json", evdir, ctx.prop);
    let tmp = format!("{}.tmp", evpath);
    if std::fs::write(&tmp, serde_json::to_string_pretty(&ev).unwrap()).is_err()
        || std::fs::rename(&tmp, &evpath).is_err()
    {
        out("INCONCLUSIVE cannot write evidence file");
        return 2;
    }

    for k in &rep.known {
        if let Some(n) = known_hits.get(&k.site) {
            out(&format!(
                "KNOWN-FINDING: property={} {} (site={}, hit {} times)",
                ctx.prop, k.what, k.site, n
            ));
        }
    }

    if violations.is_empty() {
        out(&format!(
            "OK property={} tier={} seed={} evaluations={} distinct_nontrivial={} wall_s={:.1}",
            ctx.prop,
            ctx.tier.name(),
            ctx.seed,
            evals,
            nontrivial,
            wall
        ));
        return 0;
    }
    let rdir = format!("{}/replays", out_dir());
    let _ = std::fs::create_dir_all(&rdir);
    for (i, v) in violations.iter().enumerate() {
        let mut h = Sha256::new();
        h.update(serde_json::to_vec(&v.case).unwrap_or_default());
        h.update(v.site.as_bytes());
        let tag = hex::encode(&h.finalize()[..4]);
        let path = format!("{}/{}-{}-{}-{}.json", rdir, ctx.prop, sanitize(&v.check), tag, i);
        let body = json!({
            "property": ctx.prop,
            "check": v.check,
            "site": v.site,
            "message": v.msg,
            "tier": ctx.tier.name(),
            "seed": ctx.seed,
            "case": v.case,
        });
        let _ = std::fs::write(&path, serde_json::to_string_pretty(&body).unwrap());
        out(&format!("  what: [{}] {} -- {}", v.check, v.site, truncate(&v.msg, 600)));
        out(&format!("VIOLATION property={} replay={}", ctx.prop, path));
    }
    1
}

fn sanitize(s: &str) -> String {
    s.chars()
        .map(|c| if c.is_ascii_alphanumeric() { c } else { '_' })
        .collect()
}

pub fn truncate(s: &str, n: usize) -> String {
    if s.len() <= n {
        s.to_string()
    } else {
        let mut e = n;
        while !s.is_char_boundary(e) {
            e -= 1;
        }
        format!("{}…", &s[..e])
    }
}

/// Contention stress: `threads` threads released from one barrier, each calling `f(thread, round)` for
/// `rounds` rounds; the first failure (or panic) is returned.  Used for state shared between threads
/// (caches, staging buffers, pools): the schedule is not controlled, only made dense.
pub fn contend<F>(check: &str, threads: usize, rounds: usize, f: F) -> CheckResult
where
    F: Fn(usize, usize) -> CheckResult + Sync,
{
    let barrier = std::sync::Barrier::new(threads);
    let first: Mutex<Option<Fail>> = Mutex::new(None);
    let stop = AtomicBool::new(false);
    std::thread::scope(|s| {
        for t in 0..threads {
            let (barrier, first, stop, f) = (&barrier, &first, &stop, &f);
            s.spawn(move || {
                barrier.wait();
                for r in 0..rounds {
                    if stop.load(Ordering::Relaxed) {
                        break;
                    }
                    let res = match catch(|| f(t, r)) {
                        Ok(x) => x,
                        Err(p) => Err(Fail {
                            check: check.to_string(),
                            site: format!("panic-under-contention:{}", p.split('@').next().unwrap_or("").chars().filter(|c| !c.is_ascii_digit()).collect::<String>().trim()),
                            msg: format!("panic while {} threads run the same operations: {}", threads, p),
                            case: json!({"thread": t, "round": r}),
                        }),
                    };
                    if let Err(e) = res {
                        stop.store(true, Ordering::SeqCst);
                        let mut g = first.lock().unwrap();
                        if g.is_none() {
                            *g = Some(e);
                        }
                        break;
                    }
                }
            });
        }
    });
    match first.into_inner().unwrap() {
        Some(e) => Err(e),
        None => Ok(()),
    }
}
