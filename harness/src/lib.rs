#![allow(non_snake_case)]
#![allow(clippy::too_many_arguments)]
pub mod bbs;
pub mod cl;
pub mod clmath;
pub mod engine;
pub mod fuzz_entry;
pub mod fuzzdrv;
pub mod gen;
pub mod history;
pub mod props;
pub mod refcheck;
pub mod refimpl;
