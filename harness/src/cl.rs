//! Helpers over the CL03 API of the library under test: key pool, JSON leaf walking, suites.

use crate::clmath;
use crate::engine::*;
use crate::gen::splitmix;
use rug::{Complete, Integer};
use serde::{Deserialize, Serialize};
use serde_json::Value;
pub use zkryptium::cl03::bases::Bases;
pub use zkryptium::cl03::ciphersuites::{CL1024Sha256, CL2048Sha256, CL3072Sha256, CLCiphersuite};
pub use zkryptium::cl03::commitment::CL03Commitment;
pub use zkryptium::cl03::keys::{CL03CommitmentPublicKey, CL03PublicKey, CL03SecretKey};
pub use zkryptium::cl03::range_proof::Boudot2000RangeProof;
pub use zkryptium::cl03::signature::CL03Signature;
pub use zkryptium::keys::pair::KeyPair;
pub use zkryptium::schemes::algorithms::CL03;
pub use zkryptium::schemes::generics::{BlindSignature, Commitment, PoKSignature, Signature, ZKPoK};
pub use zkryptium::utils::message::cl03_message::CL03Message;

#[derive(Clone, Copy, Debug, PartialEq, Eq, Hash, Serialize, Deserialize)]
pub enum ClSuite {
    CL1024,
    CL2048,
    CL3072,
}

impl ClSuite {
    pub fn name(&self) -> &'static str {
        match self {
            ClSuite::CL1024 => "CL1024",
            ClSuite::CL2048 => "CL2048",
            ClSuite::CL3072 => "CL3072",
        }
    }
    pub fn secparam(&self) -> u32 {
        match self {
            ClSuite::CL1024 => 512,
            ClSuite::CL2048 => 1024,
            ClSuite::CL3072 => 1536,
        }
    }
}

/// A small parameter set declared through the public `CLCiphersuite` trait (512-bit modulus).  Proofs made under
/// it are never judged; it only provides "another ciphersuite was used earlier in this process" cheaply.
#[derive(Clone, PartialEq, Eq, Debug, Serialize, Deserialize)]
pub struct CL512Warmup {}

impl CLCiphersuite for CL512Warmup {
    const SECPARAM: u32 = 256;
    const QSEC: u32 = 19;
    const ln: u32 = 2 * Self::SECPARAM;
    const lm: u32 = 256;
    const lin: u32 = 256;
    const le: u32 = Self::lm + 2;
    const ls: u32 = Self::ln + Self::lm + Self::lin;
    const RANGEPROOF_ALG: zkryptium::cl03::range_proof::RangeProof = zkryptium::cl03::range_proof::RangeProof::Boudot2000;
    const t: u32 = 128;
    const l: u32 = 40;
    const s: u32 = 40;
    const s1: u32 = 40;
    const s2: u32 = 552;
}

impl zkryptium::schemes::algorithms::Ciphersuite for CL512Warmup {
    type HashAlg = sha2::Sha256;
}

/// One complete run (key, issuance proof, blind signature, signature proof, verifications) under the small
/// parameter set, on the calling thread.  Returns whether it went through (a failure is not judged).
pub fn other_suite_first() -> bool {
    static DONE: std::sync::OnceLock<bool> = std::sync::OnceLock::new();
    *DONE.get_or_init(other_suite_run)
}

fn other_suite_run() -> bool {
    catch(|| {
        type CS = CL512Warmup;
        let kp = KeyPair::<CL03<CS>>::generate();
        let (pk, sk) = (kp.public_key(), kp.private_key());
        let n = 3;
        let bases = Bases::generate(pk, n);
        let mut st = 0x512u64;
        let msgs: Vec<CL03Message> = (0..n).map(|_| CL03Message::new(attr_random(&mut st))).collect();
        let hidden = [0usize, 2];
        let ridx = [1usize];
        let revealed = vec![msgs[1].clone()];
        let com = Commitment::<CL03<CS>>::commit_with_pk(&msgs, pk, &bases, Some(&hidden));
        let zk = ZKPoK::<CL03<CS>>::generate_proof(&msgs, com.cl03Commitment(), None, pk, &bases, None, &hidden);
        let c_issuer = CL03Commitment { value: com.cl03Commitment().value.clone(), randomness: Integer::new() };
        let ok1 = zk.verify_proof(&c_issuer, None, pk, &bases, None, &hidden);
        let bs = BlindSignature::<CL03<CS>>::blind_sign(pk, sk, &bases, &zk, Some(&revealed), &c_issuer, None, None, &hidden, Some(&ridx));
        let sig = bs.unblind_sign(&com);
        let cpk = CL03CommitmentPublicKey::generate::<CS>(Some(pk.N.clone()), Some(n));
        let proof = PoKSignature::<CL03<CS>>::proof_gen(sig.cl03Signature(), &cpk, pk, &bases, &msgs, &hidden);
        let ok2 = proof.proof_verify(&cpk, pk, &bases, &revealed, &hidden, n);
        ok1 && ok2
    })
    .unwrap_or(false)
}

#[macro_export]
macro_rules! with_cl {
    ($s:expr, $CS:ident => $body:expr) => {
        match $s {
            $crate::cl::ClSuite::CL1024 => {
                type $CS = zkryptium::cl03::ciphersuites::CL1024Sha256;
                $body
            }
            $crate::cl::ClSuite::CL2048 => {
                type $CS = zkryptium::cl03::ciphersuites::CL2048Sha256;
                $body
            }
            $crate::cl::ClSuite::CL3072 => {
                type $CS = zkryptium::cl03::ciphersuites::CL3072Sha256;
                $body
            }
        }
    };
}

#[derive(Clone)]
pub struct ClKey {
    pub suite: ClSuite,
    pub pk: CL03PublicKey,
    pub sk: CL03SecretKey,
    pub id: String,
    /// "generate()" or "fixture-primes"
    pub origin: &'static str,
}

fn load_primes(bits: u32) -> Vec<Integer> {
    let path = format!("{}/fixtures/cl/safe_primes_{}.jsonl", verif_dir(), bits);
    let Ok(t) = std::fs::read_to_string(&path) else { return vec![] };
    t.lines()
        .filter_map(|l| serde_json::from_str::<Value>(l).ok())
        .filter_map(|v| v["p"].as_str().and_then(|s| Integer::from_str_radix(s, 10).ok()))
        .collect()
}

/// a key built through the public constructors from two pre-computed safe primes
pub fn key_from_primes(suite: ClSuite, p: &Integer, q: &Integer, tag: usize) -> ClKey {
    let n = (p * q).complete();
    let b = zkryptium::utils::random::random_qr(&n);
    let c = zkryptium::utils::random::random_qr(&n);
    ClKey { suite, pk: CL03PublicKey::new(n, b, c), sk: CL03SecretKey::new(p.clone(), q.clone()), id: format!("{}-fixture-{}", suite.name(), tag), origin: "fixture-primes" }
}

/// `n_gen` keys from KeyPair::generate() (in parallel) plus `n_fix` keys from fixture primes
pub fn key_pool(suite: ClSuite, n_gen: usize, n_fix: usize, seed: u64) -> Vec<ClKey> {
    let mut keys: Vec<ClKey> = vec![];
    let gens: Vec<ClKey> = std::thread::scope(|s| {
        let hs: Vec<_> = (0..n_gen)
            .map(|i| {
                s.spawn(move || {
                    with_cl!(suite, CS => {
                        let kp = KeyPair::<CL03<CS>>::generate();
                        ClKey { suite, pk: kp.public_key().clone(), sk: kp.private_key().clone(), id: format!("{}-generated-{}", suite.name(), i), origin: "generate()" }
                    })
                })
            })
            .collect();
        hs.into_iter().map(|h| h.join().expect("key generation panicked")).collect()
    });
    keys.extend(gens);
    let primes = load_primes(suite.secparam());
    if primes.len() >= 2 {
        let mut st = seed ^ 0xC1;
        for k in 0..n_fix {
            let i = (splitmix(&mut st) as usize) % primes.len();
            let mut j = (splitmix(&mut st) as usize) % primes.len();
            if j == i {
                j = (j + 1) % primes.len();
            }
            keys.push(key_from_primes(suite, &primes[i], &primes[j], k));
        }
    }
    keys
}

/// attribute value classes
pub fn attr(class: u8, st: &mut u64) -> Integer {
    match class % 6 {
        0 => Integer::from(0),
        1 => Integer::from(1),
        2 => Integer::from(1) << 255,
        3 => (Integer::from(1) << 256) - 1,
        4 => {
            // SHA-256 of some bytes, the way applications derive attributes
            use sha2::Digest;
            let d = sha2::Sha256::digest(splitmix(st).to_le_bytes());
            Integer::from_digits(&d, rug::integer::Order::MsfBe)
        }
        _ => clmath::int_from_seed(st, 256),
    }
}

/// high-entropy attribute (random 256-bit value with the top bit set)
pub fn attr_random(st: &mut u64) -> Integer {
    let mut v = clmath::int_from_seed(st, 256);
    v.set_bit(255, true);
    v
}

pub fn int_of(v: &Value) -> Option<Integer> {
    serde_json::from_value::<Integer>(v.clone()).ok()
}

pub fn int_val(i: &Integer) -> Value {
    serde_json::to_value(i).unwrap()
}

/// all integer leaves of a serialised object: (json-pointer path, value)
pub fn int_leaves(v: &Value) -> Vec<(String, Integer)> {
    let mut out = vec![];
    fn walk(v: &Value, path: String, out: &mut Vec<(String, Integer)>) {
        if let Some(i) = int_of(v) {
            // rug serialises an Integer as {"radix":..,"value":..}; a bare JSON number is not one
            if v.is_object() || v.is_string() {
                out.push((path, i));
                return;
            }
        }
        match v {
            Value::Object(m) => {
                for (k, x) in m {
                    walk(x, format!("{}/{}", path, k), out);
                }
            }
            Value::Array(a) => {
                for (k, x) in a.iter().enumerate() {
                    walk(x, format!("{}/{}", path, k), out);
                }
            }
            _ => {}
        }
    }
    walk(v, String::new(), &mut out);
    out
}

/// json-pointer paths of every composite node below the variant wrapper (objects that are not integer leaves,
/// arrays and their composite elements): the units a whole sub-proof can be exchanged at
pub fn composite_nodes(v: &Value) -> Vec<String> {
    let mut out = vec![];
    fn walk(v: &Value, path: String, depth: usize, out: &mut Vec<String>) {
        if int_of(v).is_some() && (v.is_object() || v.is_string()) {
            return;
        }
        match v {
            Value::Object(m) => {
                if depth >= 2 {
                    out.push(path.clone());
                }
                for (k, x) in m {
                    walk(x, format!("{}/{}", path, k), depth + 1, out);
                }
            }
            Value::Array(a) => {
                if depth >= 2 && !a.is_empty() {
                    out.push(path.clone());
                }
                for (k, x) in a.iter().enumerate() {
                    walk(x, format!("{}/{}", path, k), depth + 1, out);
                }
            }
            _ => {}
        }
    }
    walk(v, String::new(), 0, &mut out);
    out
}

/// replace the integer leaf at `path`
pub fn set_leaf(v: &mut Value, path: &str, i: &Integer) -> bool {
    match v.pointer_mut(path) {
        Some(slot) => {
            *slot = int_val(i);
            true
        }
        None => false,
    }
}

/// path with array indexes replaced by `*` (stable site for known findings)
pub fn generic_path(path: &str) -> String {
    path.split('/').map(|s| if s.chars().all(|c| c.is_ascii_digit()) && !s.is_empty() { "*" } else { s }).collect::<Vec<_>>().join("/")
}

pub fn subsets(n: usize) -> Vec<Vec<usize>> {
    (0u32..(1 << n)).map(|m| (0..n).filter(|i| m >> i & 1 == 1).collect()).collect()
}

pub fn short(i: &Integer) -> String {
    let s = i.to_string_radix(16);
    if s.len() > 40 {
        format!("0x{}..({} bits)", &s[..24], i.significant_bits())
    } else {
        format!("0x{}", s)
    }
}

/// Kinds of single-field perturbation: +1, -1, := 0, := the next leaf, one high bit flipped, + 2^k above the
/// low 128 / 256 bits (a value that is only compared modulo a power of two stays "equal").
/// (A change of sign is deliberately not among them: see DESIGN.md 11.3, sign ambiguity.)
pub const EDIT_KINDS: u8 = 6;
pub const EDIT_TAGS: [&str; 6] = ["+1", "-1", ":=0", ":=sibling", "high-bit-flipped", "+2^k(k>=128)"];

pub fn edit_leaf(leaves: &[(String, Integer)], li: usize, e: u8) -> Integer {
    let val = &leaves[li].1;
    let bits = val.significant_bits();
    match e {
        0 => (val + 1u32).complete(),
        1 => (val - 1u32).complete(),
        2 => Integer::new(),
        3 => leaves[(li + 1) % leaves.len()].1.clone(),
        4 => {
            // a bit in the upper half of the value (position 128 or above when the value is that long)
            let pos = if bits > 129 { 128 + (li as u32 * 37 + 5) % (bits - 128) } else { bits / 2 + (li as u32) % (bits / 2 + 1) };
            let mut v = val.clone();
            v.toggle_bit(pos);
            v
        }
        _ => {
            let k = [128u32, 256, 300, 160][li % 4];
            let sh: Integer = Integer::from(1) << k;
            if val.cmp0() == std::cmp::Ordering::Less { (val - sh).into() } else { (val + sh).into() }
        }
    }
}

/// Selection of leaf perturbations under a budget, balancing over (generic path, edit kind) across
/// the whole run, so that every kind of field is perturbed even when each proof gets only a sample.
pub fn pick_edits(leaves: &[(String, Integer)], budget: usize, st: &mut u64) -> Vec<(usize, u8)> {
    use std::collections::HashMap;
    use std::sync::Mutex;
    static COVER: Mutex<Option<HashMap<(String, u8), u32>>> = Mutex::new(None);
    let mut all: Vec<(usize, u8)> = (0..leaves.len()).flat_map(|li| (0..EDIT_KINDS).map(move |e| (li, e))).collect();
    if budget == 0 || budget >= all.len() {
        return all;
    }
    // shuffle, then stable-sort by how often the kind was exercised so far
    for i in (1..all.len()).rev() {
        let j = (splitmix(st) as usize) % (i + 1);
        all.swap(i, j);
    }
    let mut g = COVER.lock().unwrap();
    let cover = g.get_or_insert_with(HashMap::new);
    let mut chosen: Vec<(usize, u8)> = vec![];
    let mut local: HashMap<(String, u8), u32> = HashMap::new();
    let mut keyed: Vec<(u32, usize, u8)> = all.iter().map(|&(li, e)| (*cover.get(&(generic_path(&leaves[li].0), e)).unwrap_or(&0), li, e)).collect();
    keyed.sort_by_key(|k| k.0);
    for (_, li, e) in keyed {
        let k = (generic_path(&leaves[li].0), e);
        // at most one instance of a kind per proof until the budget is spent on distinct kinds
        if local.contains_key(&k) {
            continue;
        }
        local.insert(k.clone(), 1);
        *cover.entry(k).or_insert(0) += 1;
        chosen.push((li, e));
        if chosen.len() >= budget {
            break;
        }
    }
    chosen
}

/// List-shape edits of a proof in its JSON form: for every array, the last (and the first) entry dropped; for every
/// two arrays of the same length, the last entry dropped from both; for every length, the last entry dropped from
/// all arrays of that length.  What is left proves less than the statement asks for: a verifier that walks its lists
/// with `zip` (silently stopping at the shortest) instead of by position still says yes.
pub fn array_drop_edits(v: &Value) -> Vec<(String, Value)> {
    let arrays: Vec<(String, usize)> = composite_nodes(v).into_iter().filter_map(|p| v.pointer(&p).and_then(|x| x.as_array()).map(|a| (p.clone(), a.len()))).filter(|(_, n)| *n >= 1).collect();
    let drop_last = |doc: &mut Value, path: &str| {
        if let Some(a) = doc.pointer_mut(path).and_then(|x| x.as_array_mut()) {
            a.pop();
        }
    };
    let mut out = vec![];
    for (p, n) in &arrays {
        let mut d = v.clone();
        drop_last(&mut d, p);
        out.push((format!("{}: last of {} entries dropped", generic_path(p), n), d));
        if *n >= 2 {
            let mut d = v.clone();
            if let Some(a) = d.pointer_mut(p).and_then(|x| x.as_array_mut()) {
                a.remove(0);
            }
            out.push((format!("{}: first of {} entries dropped", generic_path(p), n), d));
        }
    }
    // arrays that are not inside another array (the lists that run in parallel over the hidden positions)
    let top: Vec<&(String, usize)> = arrays.iter().filter(|(p, _)| !arrays.iter().any(|(q, _)| q != p && p.starts_with(&format!("{}/", q)))).collect();
    for i in 0..top.len() {
        for j in i + 1..top.len() {
            if top[i].1 == top[j].1 {
                let mut d = v.clone();
                drop_last(&mut d, &top[i].0);
                drop_last(&mut d, &top[j].0);
                out.push((format!("{} and {}: last of {} entries dropped from both", generic_path(&top[i].0), generic_path(&top[j].0), top[i].1), d));
            }
        }
    }
    let mut lens: Vec<usize> = top.iter().map(|t| t.1).collect();
    lens.sort();
    lens.dedup();
    for n in lens {
        let same: Vec<&&(String, usize)> = top.iter().filter(|t| t.1 == n).collect();
        if same.len() >= 3 {
            let mut d = v.clone();
            for t in &same {
                drop_last(&mut d, &t.0);
            }
            out.push((format!("all {} lists of {} entries: last entry dropped", same.len(), n), d));
        }
    }
    out
}

/// Number of entries of the CL refused-call catalogue.
pub const CL_REFUSED_CALLS: u64 = 10;

struct ClRefusedKit {
    key: ClKey,
    bases: Bases,
    msgs: Vec<CL03Message>,
    sig: Signature<CL03<CL1024Sha256>>,
    cpk: CL03CommitmentPublicKey,
    com: Commitment<CL03<CL1024Sha256>>,
    zk: ZKPoK<CL03<CL1024Sha256>>,
    pok: PoKSignature<CL03<CL1024Sha256>>,
    rp: Boudot2000RangeProof,
    rp_com: CL03Commitment,
}

thread_local! {
    static CL_REFUSED_KIT: std::cell::OnceCell<Option<ClRefusedKit>> = const { std::cell::OnceCell::new() };
}

fn cl_refused_kit() -> Option<ClRefusedKit> {
    let key = key_pool(ClSuite::CL1024, 0, 1, 0).into_iter().next()?;
    let bases = Bases::generate(&key.pk, 2);
    let msgs = vec![CL03Message::new(Integer::from(1234567)), CL03Message::new(Integer::from(89))];
    let sig = Signature::<CL03<CL1024Sha256>>::sign_multiattr(&key.pk, &key.sk, &bases, &msgs);
    let cpk = CL03CommitmentPublicKey::generate::<CL1024Sha256>(Some(key.pk.N.clone()), Some(2));
    let com = Commitment::<CL03<CL1024Sha256>>::commit_with_pk(&msgs, &key.pk, &bases, Some(&[0]));
    let zk = catch(|| ZKPoK::<CL03<CL1024Sha256>>::generate_proof(&msgs, com.cl03Commitment(), None, &key.pk, &bases, None, &[0])).ok()?;
    let pok = catch(|| PoKSignature::<CL03<CL1024Sha256>>::proof_gen(sig.cl03Signature(), &cpk, &key.pk, &bases, &msgs, &[0])).ok()?;
    let x = Integer::from(77);
    let r = Integer::from(123456789);
    let e = Integer::from(cpk.g_bases[0].pow_mod_ref(&x, &cpk.N)?) * Integer::from(cpk.h.pow_mod_ref(&r, &cpk.N)?) % &cpk.N;
    let rp_com = CL03Commitment { value: e, randomness: r };
    let rp = catch(|| Boudot2000RangeProof::prove::<sha2::Sha256>(&x, &rp_com, &cpk.g_bases[0], &cpk.h, &cpk.N, &Integer::from(0), &Integer::from(1000))).ok()?;
    Some(ClRefusedKit { key, bases, msgs, sig, cpk, com, zk, pok, rp, rp_com })
}

/// One call that the CL03 code has to refuse (it answers `false` or panics; a panic is swallowed here), executed on
/// the current thread with honest CL1024 objects that are made once per thread.  A flow whose steps are each
/// preceded by one of these must behave exactly as without them.
pub fn cl_refused_call(k: u64) -> &'static str {
    CL_REFUSED_KIT.with(|cell| {
        let Some(kit) = cell.get_or_init(cl_refused_kit).as_ref() else { return "kit-not-available" };
        let (pk, sk) = (&kit.key.pk, &kit.key.sk);
        let zero = Integer::new();
        let c_issuer = CL03Commitment { value: kit.com.cl03Commitment().value.clone(), randomness: Integer::new() };
        match k % CL_REFUSED_CALLS {
            0 => {
                let mut m2 = kit.msgs.clone();
                m2[1] = CL03Message::new(Integer::from(90));
                let _ = catch(|| kit.sig.verify_multiattr(pk, &kit.bases, &m2));
                "verify_multiattr:attribute-changed"
            }
            1 => {
                let short = Bases(kit.bases.0[..1].to_vec());
                let _ = catch(|| kit.sig.verify_multiattr(pk, &short, &kit.msgs));
                let _ = catch(|| Signature::<CL03<CL1024Sha256>>::sign_multiattr(pk, sk, &short, &kit.msgs));
                "sign-and-verify_multiattr:fewer-bases-than-attributes"
            }
            2 => {
                let _ = catch(|| kit.zk.verify_proof(&c_issuer, None, pk, &kit.bases, None, &[1]));
                "verify_proof:other-hidden-position"
            }
            3 => {
                let _ = catch(|| kit.zk.verify_proof(&c_issuer, None, pk, &kit.bases, None, &[0, 7]));
                let _ = catch(|| ZKPoK::<CL03<CL1024Sha256>>::generate_proof(&kit.msgs, kit.com.cl03Commitment(), None, pk, &kit.bases, None, &[0, 7]));
                "generate-and-verify_proof:hidden-position-out-of-range"
            }
            4 => {
                let mut cpk2 = kit.cpk.clone();
                cpk2.g_bases.truncate(1);
                let _ = catch(|| kit.pok.proof_verify(&cpk2, pk, &kit.bases, &kit.msgs[1..], &[0], 2));
                "proof_verify:commitment-key-without-a-base"
            }
            5 => {
                let mut cpk2 = kit.cpk.clone();
                cpk2.h = zero.clone();
                let _ = catch(|| kit.pok.proof_verify(&cpk2, pk, &kit.bases, &kit.msgs[1..], &[0], 2));
                "proof_verify:h=0"
            }
            6 => {
                let _ = catch(|| kit.pok.proof_verify(&kit.cpk, pk, &kit.bases, &kit.msgs[..1], &[0], 2));
                "proof_verify:other-revealed-attribute"
            }
            7 => {
                let _ = catch(|| kit.rp.verify::<sha2::Sha256>(&kit.cpk.g_bases[0], &kit.cpk.h, &kit.cpk.N, &Integer::from(100), &Integer::from(1000)));
                let _ = catch(|| kit.rp.verify::<sha2::Sha256>(&kit.cpk.g_bases[0], &zero, &kit.cpk.N, &Integer::from(0), &Integer::from(1000)));
                "range-proof-verify:other-bounds,h=0"
            }
            8 => {
                let _ = catch(|| Boudot2000RangeProof::prove::<sha2::Sha256>(&Integer::from(5000), &kit.rp_com, &kit.cpk.g_bases[0], &kit.cpk.h, &kit.cpk.N, &Integer::from(0), &Integer::from(1000)));
                "range-proof-prove:value-out-of-range"
            }
            _ => {
                let other = CL03Commitment { value: (c_issuer.value.clone() * &pk.b) % &pk.N, randomness: Integer::new() };
                let _ = catch(|| BlindSignature::<CL03<CL1024Sha256>>::blind_sign(pk, sk, &kit.bases, &kit.zk, Some(&kit.msgs[1..]), &other, None, None, &[0], Some(&[1])));
                "blind_sign:proof-for-another-commitment"
            }
        }
    })
}
