//! Independent reference implementation of draft-irtf-cfrg-bbs-signatures-08 and of the blind
//! extension (draft-01 with the "grotto" edits pinned down by the repository's blind vectors).
//!
//! Written from the drafts, not from /repo/src.  Trusted and shared with the code under test:
//! bls12_381_plus group/field arithmetic, point (de)compression, the pairing and hash_to_curve,
//! and the sha2 / sha3 primitives.  Re-implemented here: expand_message_xmd / _xof (RFC 9380 5.3),
//! OS2IP mod r (Horner in the scalar field), hash_to_scalar, every BBS operation on top.

use crate::gen::SuiteId;
use bls12_381_plus::{
    multi_miller_loop, G1Affine, G1Projective, G2Affine, G2Prepared, G2Projective, Scalar,
};
use elliptic_curve::hash2curve::{ExpandMsgXmd, ExpandMsgXof};
use bls12_381_plus::group::{Curve, Group};
use sha2::{Digest, Sha256};
use sha3::digest::{ExtendableOutput, Update, XofReader};
use sha3::Shake256;

#[derive(Debug, Clone, PartialEq, Eq)]
pub struct Invalid(pub &'static str);
pub type R<T> = Result<T, Invalid>;

#[derive(Clone, Copy)]
pub struct Ref {
    pub suite: SuiteId,
}

pub const P1_SHA256: &str = "a8ce256102840821a3e94ea9025e4662b205762f9776b3a766c872b948f1fd225e7c59698588e70d11406d161b4e28c9";
pub const P1_SHAKE256: &str = "8929dfbc7e6642c4ed9cba0856e493f8b9d7d5fcb0c31ef8fdcd34d50648a56c795e106e9eada6e0bda386b414150755";

pub fn i2osp(x: u64, n: usize) -> Vec<u8> {
    let mut out = vec![0u8; n];
    let mut v = x as u128;
    for i in (0..n).rev() {
        out[i] = (v & 0xff) as u8;
        v >>= 8;
    }
    assert!(v == 0, "i2osp overflow");
    out
}

/// OS2IP(bytes) mod r by Horner evaluation in the scalar field.
pub fn os2ip_mod_r(bytes: &[u8]) -> Scalar {
    let k256 = Scalar::from(256u64);
    let mut acc = Scalar::ZERO;
    for &b in bytes {
        acc = acc * k256 + Scalar::from(b as u64);
    }
    acc
}

pub fn scalar_bytes(s: &Scalar) -> [u8; 32] {
    s.to_be_bytes()
}

pub fn g1_bytes(p: &G1Projective) -> [u8; 48] {
    p.to_affine().to_compressed()
}

pub fn g2_bytes(p: &G2Projective) -> [u8; 96] {
    p.to_affine().to_compressed()
}

/// octets -> scalar in [0, r)
pub fn octets_to_scalar(b: &[u8]) -> R<Scalar> {
    let a: [u8; 32] = b.try_into().map_err(|_| Invalid("scalar length"))?;
    Option::<Scalar>::from(Scalar::from_be_bytes(&a)).ok_or(Invalid("scalar >= r"))
}

/// octets -> point of G1 (on curve, in the subgroup; may be the identity)
pub fn octets_to_g1(b: &[u8]) -> R<G1Projective> {
    let a: [u8; 48] = b.try_into().map_err(|_| Invalid("g1 length"))?;
    Option::<G1Affine>::from(G1Affine::from_compressed(&a))
        .map(G1Projective::from)
        .ok_or(Invalid("g1 point"))
}

pub fn octets_to_g2(b: &[u8]) -> R<G2Projective> {
    let a: [u8; 96] = b.try_into().map_err(|_| Invalid("g2 length"))?;
    Option::<G2Affine>::from(G2Affine::from_compressed(&a))
        .map(G2Projective::from)
        .ok_or(Invalid("g2 point"))
}

#[derive(Clone, Debug, PartialEq, Eq)]
pub struct RefSig {
    pub a: G1Projective,
    pub e: Scalar,
}

#[derive(Clone, Debug, PartialEq, Eq)]
pub struct RefProof {
    pub abar: G1Projective,
    pub bbar: G1Projective,
    pub d: G1Projective,
    pub e_hat: Scalar,
    pub r1_hat: Scalar,
    pub r3_hat: Scalar,
    pub m_hat: Vec<Scalar>,
    pub c: Scalar,
}

impl RefProof {
    pub fn to_bytes(&self) -> Vec<u8> {
        let mut o = vec![];
        o.extend_from_slice(&g1_bytes(&self.abar));
        o.extend_from_slice(&g1_bytes(&self.bbar));
        o.extend_from_slice(&g1_bytes(&self.d));
        o.extend_from_slice(&scalar_bytes(&self.e_hat));
        o.extend_from_slice(&scalar_bytes(&self.r1_hat));
        o.extend_from_slice(&scalar_bytes(&self.r3_hat));
        for m in &self.m_hat {
            o.extend_from_slice(&scalar_bytes(m));
        }
        o.extend_from_slice(&scalar_bytes(&self.c));
        o
    }
}

pub struct InitRes {
    pub abar: G1Projective,
    pub bbar: G1Projective,
    pub d: G1Projective,
    pub t1: G1Projective,
    pub t2: G1Projective,
    pub domain: Scalar,
}

impl Ref {
    pub fn new(suite: SuiteId) -> Self {
        Ref { suite }
    }

    pub fn ciphersuite_id(&self) -> &'static [u8] {
        match self.suite {
            SuiteId::Sha256 => b"BBS_BLS12381G1_XMD:SHA-256_SSWU_RO_",
            SuiteId::Shake256 => b"BBS_BLS12381G1_XOF:SHAKE-256_SSWU_RO_",
        }
    }

    pub fn api_id(&self) -> Vec<u8> {
        [self.ciphersuite_id(), b"H2G_HM2S_"].concat()
    }

    pub fn api_id_blind(&self) -> Vec<u8> {
        [self.ciphersuite_id(), b"BLIND_H2G_HM2S_"].concat()
    }

    pub fn p1(&self) -> G1Projective {
        let h = match self.suite {
            SuiteId::Sha256 => P1_SHA256,
            SuiteId::Shake256 => P1_SHAKE256,
        };
        octets_to_g1(&hex::decode(h).unwrap()).unwrap()
    }

    /// RFC 9380 section 5.3.1 / 5.3.2
    pub fn expand_message(&self, msg: &[u8], dst: &[u8], len: usize) -> R<Vec<u8>> {
        if dst.len() > 255 {
            return Err(Invalid("dst longer than 255"));
        }
        if len > 65535 || len == 0 {
            return Err(Invalid("len_in_bytes out of range"));
        }
        let mut dst_prime = dst.to_vec();
        dst_prime.push(dst.len() as u8);
        match self.suite {
            SuiteId::Sha256 => {
                let ell = (len + 31) / 32;
                if ell > 255 {
                    return Err(Invalid("ell > 255"));
                }
                let mut h = Sha256::new();
                Digest::update(&mut h, [0u8; 64]);
                Digest::update(&mut h, msg);
                Digest::update(&mut h, i2osp(len as u64, 2));
                Digest::update(&mut h, [0u8]);
                Digest::update(&mut h, &dst_prime);
                let b0 = h.finalize();
                let mut out: Vec<u8> = Vec::with_capacity(ell * 32);
                let mut prev = [0u8; 32];
                for i in 1..=ell {
                    let mut h = Sha256::new();
                    let mut x = [0u8; 32];
                    for k in 0..32 {
                        x[k] = b0[k] ^ prev[k];
                    }
                    if i == 1 {
                        x.copy_from_slice(&b0);
                    }
                    Digest::update(&mut h, x);
                    Digest::update(&mut h, [i as u8]);
                    Digest::update(&mut h, &dst_prime);
                    let bi = h.finalize();
                    prev.copy_from_slice(&bi);
                    out.extend_from_slice(&bi);
                }
                out.truncate(len);
                Ok(out)
            }
            SuiteId::Shake256 => {
                let mut h = Shake256::default();
                h.update(msg);
                h.update(&i2osp(len as u64, 2));
                h.update(&dst_prime);
                let mut out = vec![0u8; len];
                h.finalize_xof().read(&mut out);
                Ok(out)
            }
        }
    }

    pub fn h2s(&self, msg: &[u8], dst: &[u8]) -> R<Scalar> {
        let u = self.expand_message(msg, dst, 48)?;
        Ok(os2ip_mod_r(&u))
    }

    /// trusted: SSWU + isogeny + cofactor clearing of bls12_381_plus
    pub fn hash_to_curve_g1(&self, msg: &[u8], dst: &[u8]) -> G1Projective {
        match self.suite {
            SuiteId::Sha256 => G1Projective::hash::<ExpandMsgXmd<Sha256>>(msg, dst),
            SuiteId::Shake256 => G1Projective::hash::<ExpandMsgXof<Shake256>>(msg, dst),
        }
    }

    fn generators_with_seed(&self, count: usize, api_id: &[u8], seed_label: &[u8]) -> R<Vec<G1Projective>> {
        let seed_dst = [api_id, b"SIG_GENERATOR_SEED_"].concat();
        let generator_dst = [api_id, b"SIG_GENERATOR_DST_"].concat();
        let generator_seed = [api_id, seed_label].concat();
        let mut v = self.expand_message(&generator_seed, &seed_dst, 48)?;
        let mut out = Vec::with_capacity(count);
        for i in 1..=count {
            let mut inp = v.clone();
            inp.extend_from_slice(&i2osp(i as u64, 8));
            v = self.expand_message(&inp, &seed_dst, 48)?;
            out.push(self.hash_to_curve_g1(&v, &generator_dst));
        }
        Ok(out)
    }

    pub fn create_generators(&self, count: usize, api_id: &[u8]) -> R<Vec<G1Projective>> {
        self.generators_with_seed(count, api_id, b"MESSAGE_GENERATOR_SEED")
    }

    /// P1 as the draft defines it (create_generators with the BP seed); used as a self-check
    pub fn p1_derived(&self) -> G1Projective {
        self.generators_with_seed(1, &self.api_id(), b"BP_MESSAGE_GENERATOR_SEED").unwrap()[0]
    }

    pub fn keygen(&self, ikm: &[u8], key_info: Option<&[u8]>, key_dst: Option<&[u8]>) -> R<Scalar> {
        if ikm.len() < 32 {
            return Err(Invalid("key material shorter than 32"));
        }
        let key_info = key_info.unwrap_or(b"");
        if key_info.len() > 65535 {
            return Err(Invalid("key info longer than 65535"));
        }
        // draft text: ciphersuite_id || "KEYGEN_DST_"; the draft's own fixture: api_id || "KEYGEN_DST_"
        let default_dst = [&self.api_id()[..], b"KEYGEN_DST_"].concat();
        let dst = key_dst.unwrap_or(&default_dst);
        let mut inp = ikm.to_vec();
        inp.extend_from_slice(&i2osp(key_info.len() as u64, 2));
        inp.extend_from_slice(key_info);
        self.h2s(&inp, dst)
    }

    pub fn sk_to_pk(&self, sk: &Scalar) -> G2Projective {
        G2Projective::GENERATOR * sk
    }

    pub fn msgs_to_scalars(&self, msgs: &[Vec<u8>], api_id: &[u8]) -> R<Vec<Scalar>> {
        let dst = [api_id, b"MAP_MSG_TO_SCALAR_AS_HASH_"].concat();
        msgs.iter().map(|m| self.h2s(m, &dst)).collect()
    }

    pub fn domain(
        &self,
        pk: &G2Projective,
        q1: &G1Projective,
        h: &[G1Projective],
        header: &[u8],
        api_id: &[u8],
    ) -> R<Scalar> {
        let mut inp = g2_bytes(pk).to_vec();
        inp.extend_from_slice(&i2osp(h.len() as u64, 8));
        inp.extend_from_slice(&g1_bytes(q1));
        for p in h {
            inp.extend_from_slice(&g1_bytes(p));
        }
        inp.extend_from_slice(api_id);
        inp.extend_from_slice(&i2osp(header.len() as u64, 8));
        inp.extend_from_slice(header);
        self.h2s(&inp, &[api_id, b"H2S_"].concat())
    }

    pub fn compute_b(&self, gens: &[G1Projective], domain: &Scalar, msgs: &[Scalar]) -> G1Projective {
        let mut b = self.p1() + gens[0] * domain;
        for (i, m) in msgs.iter().enumerate() {
            b += gens[1 + i] * m;
        }
        b
    }

    pub fn core_sign(
        &self,
        sk: &Scalar,
        pk: &G2Projective,
        gens: &[G1Projective],
        header: &[u8],
        msgs: &[Scalar],
        api_id: &[u8],
    ) -> R<RefSig> {
        if gens.len() != msgs.len() + 1 {
            return Err(Invalid("generator count"));
        }
        let domain = self.domain(pk, &gens[0], &gens[1..], header, api_id)?;
        let mut ser = scalar_bytes(sk).to_vec();
        for m in msgs {
            ser.extend_from_slice(&scalar_bytes(m));
        }
        ser.extend_from_slice(&scalar_bytes(&domain));
        let e = self.h2s(&ser, &[api_id, b"H2S_"].concat())?;
        let b = self.compute_b(gens, &domain, msgs);
        let inv = Option::<Scalar>::from((sk + e).invert()).ok_or(Invalid("sk + e = 0"))?;
        let a = b * inv;
        if bool::from(a.is_identity()) {
            return Err(Invalid("A is the identity"));
        }
        Ok(RefSig { a, e })
    }

    pub fn sign(&self, sk: &Scalar, pk: &G2Projective, header: &[u8], msgs: &[Vec<u8>]) -> R<[u8; 80]> {
        let api = self.api_id();
        let ms = self.msgs_to_scalars(msgs, &api)?;
        let gens = self.create_generators(msgs.len() + 1, &api)?;
        let s = self.core_sign(sk, pk, &gens, header, &ms, &api)?;
        Ok(sig_to_octets(&s))
    }

    pub fn core_verify(
        &self,
        pk: &G2Projective,
        sig: &RefSig,
        gens: &[G1Projective],
        header: &[u8],
        msgs: &[Scalar],
        api_id: &[u8],
    ) -> R<()> {
        if gens.len() != msgs.len() + 1 {
            return Err(Invalid("generator count"));
        }
        let domain = self.domain(pk, &gens[0], &gens[1..], header, api_id)?;
        let b = self.compute_b(gens, &domain, msgs);
        let a2 = pk + G2Projective::GENERATOR * sig.e;
        let t1 = (&sig.a.to_affine(), &G2Prepared::from(a2.to_affine()));
        let t2 = (&b.to_affine(), &G2Prepared::from(-G2Affine::generator()));
        let p = multi_miller_loop(&[t1, t2]).final_exponentiation();
        if bool::from(p.is_identity()) {
            Ok(())
        } else {
            Err(Invalid("pairing"))
        }
    }

    /// decode then verify (plain interface)
    pub fn verify(&self, pk_octets: &[u8], sig_octets: &[u8], header: &[u8], msgs: &[Vec<u8>]) -> R<()> {
        let pk = octets_to_pubkey(pk_octets)?;
        let sig = octets_to_sig(sig_octets)?;
        let api = self.api_id();
        let ms = self.msgs_to_scalars(msgs, &api)?;
        let gens = self.create_generators(msgs.len() + 1, &api)?;
        self.core_verify(&pk, &sig, &gens, header, &ms, &api)
    }

    pub fn mocked_scalars(&self, seed: &[u8], dst: &[u8], count: usize) -> R<Vec<Scalar>> {
        let v = self.expand_message(seed, dst, 48 * count)?;
        Ok((0..count).map(|i| os2ip_mod_r(&v[i * 48..(i + 1) * 48])).collect())
    }

    pub fn challenge(
        &self,
        init: &InitRes,
        disclosed_idx: &[usize],
        disclosed: &[Scalar],
        ph: &[u8],
        api_id: &[u8],
    ) -> R<Scalar> {
        if disclosed_idx.len() != disclosed.len() {
            return Err(Invalid("R mismatch"));
        }
        let mut c = i2osp(disclosed_idx.len() as u64, 8);
        for (i, m) in disclosed_idx.iter().zip(disclosed) {
            c.extend_from_slice(&i2osp(*i as u64, 8));
            c.extend_from_slice(&scalar_bytes(m));
        }
        for p in [&init.abar, &init.bbar, &init.d, &init.t1, &init.t2] {
            c.extend_from_slice(&g1_bytes(p));
        }
        c.extend_from_slice(&scalar_bytes(&init.domain));
        c.extend_from_slice(&i2osp(ph.len() as u64, 8));
        c.extend_from_slice(ph);
        self.h2s(&c, &[api_id, b"H2S_"].concat())
    }

    /// CoreProofGen with caller-supplied random scalars (r1, r2, e~, r1~, r3~, m~_1..m~_U)
    pub fn core_proof_gen(
        &self,
        pk: &G2Projective,
        sig: &RefSig,
        gens: &[G1Projective],
        header: &[u8],
        ph: &[u8],
        msgs: &[Scalar],
        disclosed_idx: &[usize],
        rnd: &[Scalar],
        api_id: &[u8],
    ) -> R<RefProof> {
        let l = msgs.len();
        if gens.len() != l + 1 {
            return Err(Invalid("generator count"));
        }
        for w in disclosed_idx.windows(2) {
            if w[0] >= w[1] {
                return Err(Invalid("indexes not ascending"));
            }
        }
        if disclosed_idx.iter().any(|&i| i >= l) {
            return Err(Invalid("index out of range"));
        }
        let undisclosed: Vec<usize> = (0..l).filter(|i| !disclosed_idx.contains(i)).collect();
        let u = undisclosed.len();
        if rnd.len() != 5 + u {
            return Err(Invalid("random scalar count"));
        }
        let domain = self.domain(pk, &gens[0], &gens[1..], header, api_id)?;
        let b = self.compute_b(gens, &domain, msgs);
        let (r1, r2, et, r1t, r3t) = (rnd[0], rnd[1], rnd[2], rnd[3], rnd[4]);
        let mt = &rnd[5..];
        let d = b * r2;
        let abar = sig.a * (r1 * r2);
        let bbar = d * r1 - abar * sig.e;
        let t1 = abar * et + d * r1t;
        let mut t2 = d * r3t;
        for (k, &j) in undisclosed.iter().enumerate() {
            t2 += gens[1 + j] * mt[k];
        }
        let init = InitRes { abar, bbar, d, t1, t2, domain };
        let dm: Vec<Scalar> = disclosed_idx.iter().map(|&i| msgs[i]).collect();
        let c = self.challenge(&init, disclosed_idx, &dm, ph, api_id)?;
        let r3 = Option::<Scalar>::from(r2.invert()).ok_or(Invalid("r2 = 0"))?;
        Ok(RefProof {
            abar,
            bbar,
            d,
            e_hat: et + sig.e * c,
            r1_hat: r1t - r1 * c,
            r3_hat: r3t - r3 * c,
            m_hat: undisclosed.iter().enumerate().map(|(k, &j)| mt[k] + msgs[j] * c).collect(),
            c,
        })
    }

    /// Bv of ProofVerifyInit: P1 + Q1*domain + sum over disclosed
    pub fn bv(
        &self,
        gens: &[G1Projective],
        domain: &Scalar,
        disclosed_idx: &[usize],
        disclosed: &[Scalar],
    ) -> G1Projective {
        let mut bv = self.p1() + gens[0] * domain;
        for (i, m) in disclosed_idx.iter().zip(disclosed) {
            bv += gens[1 + *i] * m;
        }
        bv
    }

    pub fn core_proof_verify(
        &self,
        pk: &G2Projective,
        proof: &RefProof,
        gens: &[G1Projective],
        header: &[u8],
        ph: &[u8],
        disclosed: &[Scalar],
        disclosed_idx: &[usize],
        api_id: &[u8],
    ) -> R<()> {
        let u = proof.m_hat.len();
        let r = disclosed_idx.len();
        let l = u + r;
        if disclosed.len() != r {
            return Err(Invalid("R mismatch"));
        }
        for w in disclosed_idx.windows(2) {
            if w[0] >= w[1] {
                return Err(Invalid("indexes not ascending"));
            }
        }
        if disclosed_idx.iter().any(|&i| i >= l) {
            return Err(Invalid("index out of range"));
        }
        if gens.len() != l + 1 {
            return Err(Invalid("generator count"));
        }
        let undisclosed: Vec<usize> = (0..l).filter(|i| !disclosed_idx.contains(i)).collect();
        let domain = self.domain(pk, &gens[0], &gens[1..], header, api_id)?;
        let t1 = proof.bbar * proof.c + proof.abar * proof.e_hat + proof.d * proof.r1_hat;
        let bv = self.bv(gens, &domain, disclosed_idx, disclosed);
        let mut t2 = bv * proof.c + proof.d * proof.r3_hat;
        for (k, &j) in undisclosed.iter().enumerate() {
            t2 += gens[1 + j] * proof.m_hat[k];
        }
        let init = InitRes { abar: proof.abar, bbar: proof.bbar, d: proof.d, t1, t2, domain };
        let c = self.challenge(&init, disclosed_idx, disclosed, ph, api_id)?;
        if c != proof.c {
            return Err(Invalid("challenge"));
        }
        let t1 = (&proof.abar.to_affine(), &G2Prepared::from(pk.to_affine()));
        let t2 = (&proof.bbar.to_affine(), &G2Prepared::from(-G2Affine::generator()));
        if bool::from(multi_miller_loop(&[t1, t2]).final_exponentiation().is_identity()) {
            Ok(())
        } else {
            Err(Invalid("pairing"))
        }
    }

    pub fn proof_gen(
        &self,
        pk: &G2Projective,
        sig_octets: &[u8],
        header: &[u8],
        ph: &[u8],
        msgs: &[Vec<u8>],
        disclosed_idx: &[usize],
        rnd: &[Scalar],
    ) -> R<Vec<u8>> {
        let api = self.api_id();
        let sig = octets_to_sig(sig_octets)?;
        let ms = self.msgs_to_scalars(msgs, &api)?;
        let gens = self.create_generators(msgs.len() + 1, &api)?;
        Ok(self
            .core_proof_gen(pk, &sig, &gens, header, ph, &ms, disclosed_idx, rnd, &api)?
            .to_bytes())
    }

    /// decode then verify (plain interface)
    pub fn proof_verify(
        &self,
        pk_octets: &[u8],
        proof_octets: &[u8],
        header: &[u8],
        ph: &[u8],
        disclosed_msgs: &[Vec<u8>],
        disclosed_idx: &[usize],
    ) -> R<()> {
        let pk = octets_to_pubkey(pk_octets)?;
        let proof = octets_to_proof(proof_octets)?;
        let api = self.api_id();
        let ms = self.msgs_to_scalars(disclosed_msgs, &api)?;
        let l = proof.m_hat.len() + disclosed_idx.len();
        let gens = self.create_generators(l + 1, &api)?;
        self.core_proof_verify(&pk, &proof, &gens, header, ph, &ms, disclosed_idx, &api)
    }

    // ------------------------------------------------------------------------- blind extension

    pub fn blind_generators(&self, count: usize) -> R<Vec<G1Projective>> {
        self.create_generators(count, &[b"BLIND_", &self.api_id_blind()[..]].concat())
    }

    pub fn blind_challenge(
        &self,
        c: &G1Projective,
        cbar: &G1Projective,
        blind_gens: &[G1Projective],
        api_id: &[u8],
    ) -> R<Scalar> {
        if blind_gens.is_empty() {
            return Err(Invalid("no blind generators"));
        }
        let mut a = i2osp((blind_gens.len() - 1) as u64, 8);
        for g in blind_gens {
            a.extend_from_slice(&g1_bytes(g));
        }
        a.extend_from_slice(&g1_bytes(c));
        a.extend_from_slice(&g1_bytes(cbar));
        self.h2s(&a, &[api_id, b"H2S_"].concat())
    }

    /// Commit with caller-supplied random scalars (secret_prover_blind, s~, m~_1..m~_M).
    /// Returns (commitment_with_proof octets, secret_prover_blind).
    pub fn commit(&self, committed: &[Vec<u8>], rnd: &[Scalar]) -> R<(Vec<u8>, Scalar)> {
        let api = self.api_id_blind();
        let m = committed.len();
        if rnd.len() != m + 2 {
            return Err(Invalid("random scalar count"));
        }
        let ms = self.msgs_to_scalars(committed, &api)?;
        let bg = self.blind_generators(m + 1)?;
        let (spb, st) = (rnd[0], rnd[1]);
        let mt = &rnd[2..];
        let mut c = bg[0] * spb;
        let mut cbar = bg[0] * st;
        for i in 0..m {
            c += bg[1 + i] * ms[i];
            cbar += bg[1 + i] * mt[i];
        }
        let ch = self.blind_challenge(&c, &cbar, &bg, &api)?;
        let mut o = g1_bytes(&c).to_vec();
        o.extend_from_slice(&scalar_bytes(&(st + spb * ch)));
        for i in 0..m {
            o.extend_from_slice(&scalar_bytes(&(mt[i] + ms[i] * ch)));
        }
        o.extend_from_slice(&scalar_bytes(&ch));
        Ok((o, spb))
    }

    /// deserialize_and_validate_commit: returns (commitment point, M)
    pub fn validate_commit(&self, octets: &[u8]) -> R<(G1Projective, usize)> {
        if octets.is_empty() {
            return Ok((G1Projective::IDENTITY, 0));
        }
        if octets.len() < 48 + 64 || (octets.len() - 48) % 32 != 0 {
            return Err(Invalid("commitment length"));
        }
        let c = octets_to_g1(&octets[..48])?;
        let mut sc = vec![];
        for ch in octets[48..].chunks(32) {
            sc.push(octets_to_scalar(ch)?);
        }
        let chal = sc.pop().unwrap();
        let s_hat = sc.remove(0);
        let m_hat = sc;
        let m = m_hat.len();
        let api = self.api_id_blind();
        let bg = self.blind_generators(m + 1)?;
        let mut cbar = bg[0] * s_hat;
        for i in 0..m {
            cbar += bg[1 + i] * m_hat[i];
        }
        cbar -= c * chal;
        let cv = self.blind_challenge(&c, &cbar, &bg, &api)?;
        if cv != chal {
            return Err(Invalid("commitment proof"));
        }
        Ok((c, m))
    }

    /// BlindSign as pinned down by the repository's blind vectors.
    pub fn blind_sign(
        &self,
        sk: &Scalar,
        pk: &G2Projective,
        commitment_with_proof: &[u8],
        header: &[u8],
        msgs: &[Vec<u8>],
    ) -> R<[u8; 80]> {
        let api = self.api_id_blind();
        let (commit, m) = self.validate_commit(commitment_with_proof)?;
        let l = msgs.len();
        let gens = self.create_generators(l + 1, &api)?;
        let bg = self.blind_generators(m + 1)?;
        let ms = self.msgs_to_scalars(msgs, &api)?;
        // B starts from P1 ("grotto"), commitment added, Q1*domain added in finalize
        let mut b = self.p1();
        for i in 0..l {
            b += gens[1 + i] * ms[i];
        }
        b += commit;
        if bool::from(b.is_identity()) {
            return Err(Invalid("B is the identity"));
        }
        // domain over (H_1..H_L, Q2, J_1..J_M)
        let mut hs: Vec<G1Projective> = gens[1..].to_vec();
        hs.extend_from_slice(&bg);
        let domain = self.domain(pk, &gens[0], &hs, header, &api)?;
        let b = b + gens[0] * domain;
        let mut e_in = scalar_bytes(sk).to_vec();
        e_in.extend_from_slice(&g1_bytes(&b));
        let e = self.h2s(&e_in, &[&api[..], b"H2S_"].concat())?;
        let inv = Option::<Scalar>::from((sk + e).invert()).ok_or(Invalid("sk + e = 0"))?;
        Ok(sig_to_octets(&RefSig { a: b * inv, e }))
    }

    fn blind_params(
        &self,
        msgs: &[Vec<u8>],
        committed: &[Vec<u8>],
        l: usize,
        m: usize,
        spb: Option<&Scalar>,
    ) -> R<(Vec<Scalar>, Vec<G1Projective>)> {
        let api = self.api_id_blind();
        let mut ms = self.msgs_to_scalars(msgs, &api)?;
        if let Some(s) = spb {
            ms.push(*s);
        }
        ms.extend(self.msgs_to_scalars(committed, &api)?);
        let mut gens = self.create_generators(l + 1, &api)?;
        gens.extend(self.blind_generators(m + 1)?);
        Ok((ms, gens))
    }

    pub fn verify_blind_sign(
        &self,
        pk_octets: &[u8],
        sig_octets: &[u8],
        header: &[u8],
        msgs: &[Vec<u8>],
        committed: &[Vec<u8>],
        spb: &Scalar,
    ) -> R<()> {
        let pk = octets_to_pubkey(pk_octets)?;
        let sig = octets_to_sig(sig_octets)?;
        let (ms, gens) = self.blind_params(msgs, committed, msgs.len(), committed.len(), Some(spb))?;
        self.core_verify(&pk, &sig, &gens, header, &ms, &self.api_id_blind())
    }

    pub fn blind_proof_gen(
        &self,
        pk: &G2Projective,
        sig_octets: &[u8],
        header: &[u8],
        ph: &[u8],
        msgs: &[Vec<u8>],
        committed: &[Vec<u8>],
        disclosed_idx: &[usize],
        disclosed_commit_idx: &[usize],
        spb: &Scalar,
        rnd: &[Scalar],
    ) -> R<Vec<u8>> {
        let sig = octets_to_sig(sig_octets)?;
        let l = msgs.len();
        let m = committed.len();
        if disclosed_idx.iter().any(|&i| i >= l) || disclosed_commit_idx.iter().any(|&j| j >= m) {
            return Err(Invalid("index out of range"));
        }
        let (ms, gens) = self.blind_params(msgs, committed, l, m, Some(spb))?;
        let idx: Vec<usize> = disclosed_idx
            .iter()
            .copied()
            .chain(disclosed_commit_idx.iter().map(|j| j + l + 1))
            .collect();
        Ok(self
            .core_proof_gen(pk, &sig, &gens, header, ph, &ms, &idx, rnd, &self.api_id_blind())?
            .to_bytes())
    }

    pub fn blind_proof_verify(
        &self,
        pk_octets: &[u8],
        proof_octets: &[u8],
        header: &[u8],
        ph: &[u8],
        l: usize,
        disclosed_msgs: &[Vec<u8>],
        disclosed_committed: &[Vec<u8>],
        disclosed_idx: &[usize],
        disclosed_commit_idx: &[usize],
    ) -> R<()> {
        let pk = octets_to_pubkey(pk_octets)?;
        let proof = octets_to_proof(proof_octets)?;
        let u = proof.m_hat.len();
        let n = disclosed_idx.len() + disclosed_commit_idx.len() + u;
        // N = L + 1 + M messages in the signature
        if n < 1 || l > n - 1 {
            return Err(Invalid("L out of range"));
        }
        let m = n - 1 - l;
        let (ms, gens) = self.blind_params(disclosed_msgs, disclosed_committed, l, m, None)?;
        let mut idx: Vec<usize> = disclosed_idx.to_vec();
        for j in disclosed_commit_idx {
            idx.push(j.checked_add(l + 1).ok_or(Invalid("index overflow"))?);
        }
        self.core_proof_verify(&pk, &proof, &gens, header, ph, &ms, &idx, &self.api_id_blind())
    }
}

pub fn sig_to_octets(s: &RefSig) -> [u8; 80] {
    let mut o = [0u8; 80];
    o[..48].copy_from_slice(&g1_bytes(&s.a));
    o[48..].copy_from_slice(&scalar_bytes(&s.e));
    o
}

/// octets_to_signature of draft-08: exact length, A in G1 and not the identity, 0 < e < r
pub fn octets_to_sig(b: &[u8]) -> R<RefSig> {
    if b.len() != 80 {
        return Err(Invalid("signature length"));
    }
    let a = octets_to_g1(&b[..48])?;
    if bool::from(a.is_identity()) {
        return Err(Invalid("A is the identity"));
    }
    let e = octets_to_scalar(&b[48..])?;
    if e == Scalar::ZERO {
        return Err(Invalid("e = 0"));
    }
    Ok(RefSig { a, e })
}

/// octets_to_pubkey: 96 bytes, in G2, not the identity
pub fn octets_to_pubkey(b: &[u8]) -> R<G2Projective> {
    if b.len() != 96 {
        return Err(Invalid("public key length"));
    }
    let p = octets_to_g2(b)?;
    if bool::from(p.is_identity()) {
        return Err(Invalid("public key is the identity"));
    }
    Ok(p)
}

/// octets_to_proof: 3 points (not the identity), 3 + U scalars and the challenge, exact framing.
/// (The draft additionally rejects zero scalars; an honest or mutated-honest proof has one with
/// probability 2^-255, and the library accepts them, so this reference accepts them as well.)
pub fn octets_to_proof(b: &[u8]) -> R<RefProof> {
    if b.len() < 272 || (b.len() - 240) % 32 != 0 {
        return Err(Invalid("proof length"));
    }
    let abar = octets_to_g1(&b[0..48])?;
    let bbar = octets_to_g1(&b[48..96])?;
    let d = octets_to_g1(&b[96..144])?;
    if bool::from(abar.is_identity()) || bool::from(bbar.is_identity()) || bool::from(d.is_identity()) {
        return Err(Invalid("identity point in proof"));
    }
    let mut sc = vec![];
    for ch in b[144..].chunks(32) {
        sc.push(octets_to_scalar(ch)?);
    }
    let c = sc.pop().unwrap();
    let m_hat = sc.split_off(3);
    Ok(RefProof { abar, bbar, d, e_hat: sc[0], r1_hat: sc[1], r3_hat: sc[2], m_hat, c })
}
