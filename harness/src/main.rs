#![allow(non_snake_case)]
use zkverif::engine::*;
use zkverif::{props, refcheck};
use serde_json::Value;

type RunFn = fn(&Ctx, &Report) -> Meta;
type ReplayFn = fn(&Ctx, &Report, &str, &Value) -> CheckResult;

fn registry() -> Vec<(&'static str, RunFn, ReplayFn, u64)> {
    // (id, run, replay, watchdog seconds for the thorough tier; quick uses a quarter)
    vec![
        ("C01", props::c01::run, props::c01::replay, 7200),
        ("C02", props::c02::run, props::c02::replay, 14400),
        ("C03", props::c03::run, props::c03::replay, 7200),
        ("C04", props::c04::run, props::c04::replay, 7200),
        ("C05", props::c05::run, props::c05::replay, 7200),
        ("C06", props::c06::run, props::c06::replay, 7200),
        ("C07", props::c07::run, props::c07::replay, 7200),
        ("C08", props::c08::run, props::c08::replay, 10800),
        ("C09", props::c09::run, props::c09::replay, 10800),
        ("C10", props::c10::run, props::c10::replay, 10800),
        ("C11", props::c11::run, props::c11::replay, 7200),
        ("C12", props::c12::run, props::c12::replay, 7200),
        ("C13", props::c13::run, props::c13::replay, 10800),
        ("C14", props::c14::run, props::c14::replay, 10800),
        ("C15", props::c15::run, props::c15::replay, 10800),
        ("C16", props::c16::run, props::c16::replay, 10800),
        ("C17", props::c17::run, props::c17::replay, 10800),
        ("C18", props::c18::run, props::c18::replay, 10800),
        ("C19", props::c19::run, props::c19::replay, 10800),
    ]
}

fn usage() -> ! {
    eprintln!("usage: zkverif check <Cxx> [--tier quick|thorough] [--seed N]\n       zkverif replay <file>\n       zkverif list");
    std::process::exit(2);
}

/// What an application that wires up the `log` facade looks like to the library: a logger that accepts every
/// record and formats its arguments (so whatever a `log::trace!` / `debug!` in the library evaluates, runs).
/// The output goes to a counting sink. `VERIF_LOG=off` leaves the facade in its default (disabled) state.
struct TraceSink;
struct CountingWriter(usize);
impl std::fmt::Write for CountingWriter {
    fn write_str(&mut self, s: &str) -> std::fmt::Result {
        self.0 += s.len();
        Ok(())
    }
}
impl log::Log for TraceSink {
    fn enabled(&self, _: &log::Metadata) -> bool {
        true
    }
    fn log(&self, record: &log::Record) {
        use std::fmt::Write;
        let mut w = CountingWriter(0);
        let _ = write!(w, "{}", record.args());
        std::hint::black_box(w.0);
    }
    fn flush(&self) {}
}
static TRACE_SINK: TraceSink = TraceSink;

fn main() {
    let args: Vec<String> = std::env::args().collect();
    if args.len() < 2 {
        usage();
    }
    install_panic_hook();
    if std::env::var("VERIF_LOG").map(|v| v != "off").unwrap_or(true) && log::set_logger(&TRACE_SINK).is_ok() {
        log::set_max_level(log::LevelFilter::Trace);
    }
    let workers = std::env::var("VERIF_WORKERS")
        .ok()
        .and_then(|s| s.parse().ok())
        .unwrap_or_else(|| std::thread::available_parallelism().map(|n| n.get()).unwrap_or(8).min(16));
    match args[1].as_str() {
        "c07-child" => props::c07::child_main(&args[2..]),
        "gen-safe-primes" => {
            // zkverif gen-safe-primes <bits of p'> <count> <threads>  -> JSON lines {"bits":..,"p":..}
            let bits: u32 = args[2].parse().unwrap();
            let count: usize = args[3].parse().unwrap();
            let threads: usize = args.get(4).and_then(|s| s.parse().ok()).unwrap_or(8);
            let found = std::sync::atomic::AtomicUsize::new(0);
            std::thread::scope(|s| {
                for _ in 0..threads {
                    s.spawn(|| {
                        while found.load(std::sync::atomic::Ordering::SeqCst) < count {
                            let (p, _) = zkverif::clmath::find_safe_prime(bits);
                            if found.fetch_add(1, std::sync::atomic::Ordering::SeqCst) < count {
                                println!("{{\"bits\": {}, \"p\": \"{}\"}}", bits, p);
                            }
                        }
                    });
                }
            });
        }
        "range-forgery-probe" => props::c16::probe(),
        "refcheck" => match refcheck::validate_reference() {
            Ok(n) => println!("reference model reproduces all fixtures ({} items)", n),
            Err(e) => {
                println!("reference model mismatch: {}", e);
                std::process::exit(2);
            }
        },
        "list" => {
            for (id, _, _, _) in registry() {
                println!("{}", id);
            }
        }
        "check" => {
            if args.len() < 3 {
                usage();
            }
            let id = args[2].clone();
            let mut tier = match std::env::var("VERIF_TIER").as_deref() {
                Ok("thorough") => Tier::Thorough,
                _ => Tier::Quick,
            };
            let mut seed: u64 = std::env::var("VERIF_SEED").ok().and_then(|s| s.trim().parse().ok()).unwrap_or(0);
            let mut i = 3;
            while i < args.len() {
                match args[i].as_str() {
                    "--tier" => {
                        i += 1;
                        tier = match args.get(i).map(|s| s.as_str()) {
                            Some("quick") => Tier::Quick,
                            Some("thorough") => Tier::Thorough,
                            _ => usage(),
                        };
                    }
                    "--seed" => {
                        i += 1;
                        seed = args.get(i).and_then(|s| s.parse().ok()).unwrap_or_else(|| usage());
                    }
                    _ => usage(),
                }
                i += 1;
            }
            let Some((_, run, replay, wd)) = registry().into_iter().find(|(p, _, _, _)| *p == id) else {
                eprintln!("unknown property {}", id);
                std::process::exit(2);
            };
            silence_library_stdout();
            let ctx = Ctx { prop: id.clone(), tier, seed, workers };
            start_watchdog(if tier == Tier::Quick { wd / 4 } else { wd }, id.clone());
            let rep = Report::new(&id);
            // CL properties: another, smaller CL ciphersuite is used before anything else in this process (also before
            // the regression replays)
            if ["C13", "C14", "C15", "C16", "C17", "C18", "C19"].contains(&id.as_str()) {
                let went = zkverif::cl::other_suite_first();
                if !["C17", "C19"].contains(&id.as_str()) {
                    rep.note(format!("a complete run (key generation, issuance, presentation) under a 512-bit parameter set declared through CLCiphersuite preceded everything else in this process (went through: {})", went));
                }
            }
            // regressions first
            let rdir = format!("{}/regressions/{}", verif_dir(), id);
            let mut regs: Vec<_> = std::fs::read_dir(&rdir)
                .map(|d| d.filter_map(|e| e.ok()).map(|e| e.path()).collect())
                .unwrap_or_else(|_| vec![]);
            regs.sort();
            // the recorded cases are independent of each other: replayed on up to 8 threads
            let regs: Vec<_> = regs.into_iter().filter(|p| p.extension().map(|e| e == "json").unwrap_or(false)).collect();
            let next = std::sync::atomic::AtomicUsize::new(0);
            std::thread::scope(|sc| {
                for _ in 0..regs.len().min(8) {
                    sc.spawn(|| loop {
                        let i = next.fetch_add(1, std::sync::atomic::Ordering::SeqCst);
                        let Some(p) = regs.get(i) else { break };
                        let Ok(txt) = std::fs::read_to_string(p) else { continue };
                        let Ok(v) = serde_json::from_str::<Value>(&txt) else {
                            out(&format!("INCONCLUSIVE regression file {} does not parse", p.display()));
                            std::process::exit(2);
                        };
                        let ck = v["check"].as_str().unwrap_or("").to_string();
                        rep.class("regression-replayed");
                        let r = match catch(|| replay(&ctx, &rep, &ck, &v["case"])) {
                            Ok(r) => r,
                            Err(pn) => Err(Fail { check: ck.clone(), site: "panic-in-replay".into(), msg: pn, case: v["case"].clone() }),
                        };
                        if let Err(f) = r {
                            if f.site == "replay-parse" {
                                out(&format!("INCONCLUSIVE regression file {} does not hold a case this harness can replay: {}", p.display(), truncate(&f.msg, 200)));
                                std::process::exit(2);
                            }
                            rep.add_violation(f);
                        }
                    });
                }
            });
            // a panic outside the guarded library calls (e.g. a poisoned lock inside the library while the
            // harness prepares the next check) must not lose what was found so far
            let meta = match catch(|| run(&ctx, &rep)) {
                Ok(m) => m,
                Err(p) => {
                    if rep.violation_count() > 0 {
                        rep.note(format!("the run was cut short by a panic outside a guarded call after the first violation: {}", p));
                        Meta { rule: "run cut short by a panic after a violation had been recorded (see notes)".into(), assumptions: vec![] }
                    } else {
                        out(&format!("INCONCLUSIVE property={} panic in the harness outside a guarded library call: {}", id, p));
                        std::process::exit(2);
                    }
                }
            };
            let code = finish(&ctx, &rep, &meta);
            std::process::exit(code);
        }
        "replay" => {
            if args.len() < 3 {
                usage();
            }
            let txt = std::fs::read_to_string(&args[2]).unwrap_or_else(|e| {
                eprintln!("cannot read {}: {}", args[2], e);
                std::process::exit(2)
            });
            let v: Value = serde_json::from_str(&txt).unwrap_or_else(|e| {
                eprintln!("cannot parse {}: {}", args[2], e);
                std::process::exit(2)
            });
            let id = v["property"].as_str().unwrap_or("").to_string();
            let ck = v["check"].as_str().unwrap_or("").to_string();
            let Some((_, _, replay, _)) = registry().into_iter().find(|(p, _, _, _)| *p == id) else {
                eprintln!("unknown property {}", id);
                std::process::exit(2);
            };
            silence_library_stdout();
            let ctx = Ctx { prop: id.clone(), tier: Tier::Quick, seed: v["seed"].as_u64().unwrap_or(0), workers };
            let rep = Report::new(&id);
            let r = match catch(|| replay(&ctx, &rep, &ck, &v["case"])) {
                Ok(r) => r,
                Err(pn) => Err(Fail { check: ck.clone(), site: "panic-in-replay".into(), msg: pn, case: v["case"].clone() }),
            };
            match r {
                Ok(()) => {
                    out(&format!("REPLAY-OK property={} check={} (the recorded case passes on this tree)", id, ck));
                    std::process::exit(0);
                }
                Err(f) if f.site == "replay-parse" => {
                    out(&format!("INCONCLUSIVE {} does not hold a case this harness can replay: {}", args[2], truncate(&f.msg, 300)));
                    std::process::exit(2);
                }
                Err(f) => {
                    out(&format!("  what: [{}] {} -- {}", f.check, f.site, truncate(&f.msg, 600)));
                    out(&format!("VIOLATION property={} replay={}", id, args[2]));
                    std::process::exit(1);
                }
            }
        }
        _ => usage(),
    }
}
