//! Shared generators.  Every generated value is a small serialisable *spec*; the bytes are
//! materialised deterministically from it, so cases stay printable, shrinkable and replayable.

use proptest::prelude::*;
use serde::{Deserialize, Serialize};

/// Byte-string spec: `len` bytes of a content class.
#[derive(Clone, Debug, PartialEq, Eq, Hash, Serialize, Deserialize)]
pub struct BSpec {
    pub len: usize,
    /// 0 random, 1 zeros, 2 0xff, 3 ascii, 4 "copy of the previous message", 5 "copy of an earlier message",
    /// 6 "an earlier message with exactly one octet changed" (4..6 in vectors only)
    pub class: u8,
    pub seed: u32,
}

pub fn splitmix(state: &mut u64) -> u64 {
    *state = state.wrapping_add(0x9E3779B97F4A7C15);
    let mut z = *state;
    z = (z ^ (z >> 30)).wrapping_mul(0xBF58476D1CE4E5B9);
    z = (z ^ (z >> 27)).wrapping_mul(0x94D049BB133111EB);
    z ^ (z >> 31)
}

pub fn fill_random(seed: u64, out: &mut [u8]) {
    let mut st = seed ^ 0xA5A5_5A5A_DEAD_BEEF;
    for chunk in out.chunks_mut(8) {
        let v = splitmix(&mut st).to_le_bytes();
        chunk.copy_from_slice(&v[..chunk.len()]);
    }
}

impl BSpec {
    pub fn bytes(&self) -> Vec<u8> {
        let mut v = vec![0u8; self.len];
        match self.class {
            1 => {}
            2 => v.iter_mut().for_each(|b| *b = 0xff),
            3 => {
                fill_random(self.seed as u64, &mut v);
                v.iter_mut().for_each(|b| *b = 0x20 + (*b % 0x5f));
            }
            _ => fill_random(self.seed as u64, &mut v),
        }
        v
    }
    pub fn lit(b: &[u8]) -> Self {
        // not invertible in general; used only for labels
        BSpec { len: b.len(), class: 0, seed: 0 }
    }
}

pub fn bspec_from(lens: &'static [usize], classes: &'static [u8]) -> impl Strategy<Value = BSpec> {
    (prop::sample::select(lens), prop::sample::select(classes), any::<u32>())
        .prop_map(|(len, class, seed)| BSpec { len, class, seed })
}

pub const MSG_LENS_SMALL: &[usize] = &[0, 1, 5, 31, 32, 33, 47, 48, 49, 64, 100, 255, 256, 257];
pub const MSG_LENS_ALL: &[usize] =
    &[0, 1, 5, 31, 32, 33, 47, 48, 49, 64, 100, 255, 256, 257, 4096, 65536];
pub const HDR_LENS: &[usize] =
    &[1, 2, 15, 16, 17, 31, 32, 33, 47, 48, 49, 255, 256, 257, 65535, 65536];
pub const HDR_LENS_SMALL: &[usize] = &[1, 2, 16, 17, 32, 48, 255, 256, 257];

/// `None`, `Some(b"")` or bytes.
#[derive(Clone, Debug, PartialEq, Eq, Hash, Serialize, Deserialize)]
pub enum OptBytes {
    None,
    Empty,
    Bytes(BSpec),
}

impl OptBytes {
    pub fn get(&self) -> Option<Vec<u8>> {
        match self {
            OptBytes::None => None,
            OptBytes::Empty => Some(vec![]),
            OptBytes::Bytes(b) => Some(b.bytes()),
        }
    }
    pub fn class(&self) -> &'static str {
        match self {
            OptBytes::None => "none",
            OptBytes::Empty => "empty",
            OptBytes::Bytes(_) => "bytes",
        }
    }
}

pub fn opt_bytes(lens: &'static [usize]) -> impl Strategy<Value = OptBytes> {
    prop_oneof![
        2 => Just(OptBytes::None),
        2 => Just(OptBytes::Empty),
        6 => bspec_from(lens, &[0, 0, 0, 1, 2, 3]).prop_map(OptBytes::Bytes),
    ]
}

/// A message vector spec.
#[derive(Clone, Debug, PartialEq, Eq, Hash, Serialize, Deserialize)]
pub struct MsgVec {
    pub items: Vec<BSpec>,
}

impl MsgVec {
    pub fn materialize(&self) -> Vec<Vec<u8>> {
        let mut out: Vec<Vec<u8>> = Vec::with_capacity(self.items.len());
        for (i, it) in self.items.iter().enumerate() {
            if it.class == 4 && i > 0 {
                let prev = out[i - 1].clone();
                out.push(prev);
            } else if it.class == 5 && i > 0 {
                // copy of an arbitrary earlier message: patterns such as [a, a, b, c, b]
                let prev = out[(it.seed as usize) % i].clone();
                out.push(prev);
            } else if it.class == 6 && i > 0 {
                // near-copy: same length, one octet (anywhere) differs - two messages a partial comparison or a
                // sampled fingerprint cannot tell apart
                let mut m = out[(it.seed as usize) % i].clone();
                if m.is_empty() {
                    m.push(1);
                } else {
                    let p = ((it.seed >> 8) as usize) % m.len();
                    m[p] ^= 1 << (it.seed >> 29);
                }
                out.push(m);
            } else {
                out.push(it.bytes());
            }
        }
        out
    }
    pub fn len(&self) -> usize {
        self.items.len()
    }
}

pub fn msg_vec(
    counts: &'static [usize],
    lens: &'static [usize],
) -> impl Strategy<Value = MsgVec> {
    prop::sample::select(counts)
        .prop_flat_map(move |l| {
            prop::collection::vec(bspec_from(lens, &[0, 0, 0, 0, 1, 2, 3, 4, 5, 5, 6, 6]), l..=l)
        })
        .prop_map(|items| MsgVec { items })
}

pub fn msg_vec_range(
    lo: usize,
    hi: usize,
    lens: &'static [usize],
) -> impl Strategy<Value = MsgVec> {
    prop::collection::vec(bspec_from(lens, &[0, 0, 0, 0, 1, 2, 3, 4, 5, 5, 6]), lo..=hi)
        .prop_map(|items| MsgVec { items })
}

/// distinct-content message vector (no duplicates, for swap / move edits)
pub fn bucket(l: usize) -> &'static str {
    match l {
        0 => "L=0",
        1 => "L=1",
        2..=9 => "L=2..9",
        10 => "L=10",
        11..=16 => "L=11..16",
        17..=32 => "L=17..32",
        33..=128 => "L=33..128",
        129..=255 => "L=129..255",
        256..=257 => "L=256..257",
        258..=999 => "L=258..999",
        _ => "L>=1000",
    }
}

/// BBS key spec.
#[derive(Clone, Debug, PartialEq, Eq, Hash, Serialize, Deserialize)]
pub struct KeySpec {
    /// use the draft's fixture key material / key info / key dst
    pub fixture: bool,
    pub ikm: BSpec,
    pub key_info: OptBytes,
    pub key_dst: OptBytes,
}

pub const FIXTURE_IKM: &str = "746869732d49532d6a7573742d616e2d546573742d494b4d2d746f2d67656e65726174652d246528724074232d6b6579";
pub const FIXTURE_KEY_INFO: &str = "746869732d49532d736f6d652d6b65792d6d657461646174612d746f2d62652d757365642d696e2d746573742d6b65792d67656e";

pub const IKM_LENS: &[usize] = &[32, 33, 48, 64, 100, 1000];
pub const KEY_INFO_LENS: &[usize] = &[1, 16, 64, 255, 256, 65535];
pub const KEY_DST_LENS: &[usize] = &[1, 8, 32, 60, 255];

pub fn key_spec() -> impl Strategy<Value = KeySpec> {
    (
        prop::bool::weighted(0.15),
        bspec_from(IKM_LENS, &[0, 0, 0, 1, 2]),
        opt_bytes(KEY_INFO_LENS),
        prop_oneof![
            6 => Just(OptBytes::None),
            1 => Just(OptBytes::Empty),
            2 => bspec_from(KEY_DST_LENS, &[0, 3]).prop_map(OptBytes::Bytes),
        ],
    )
        .prop_map(|(fixture, ikm, key_info, key_dst)| KeySpec {
            fixture,
            ikm,
            key_info,
            key_dst,
        })
}

/// simple key spec: random 32..64-byte ikm, no info, default dst (cheap, many distinct keys)
pub fn key_spec_simple() -> impl Strategy<Value = KeySpec> {
    (prop::bool::weighted(0.1), bspec_from(&[32, 48, 64], &[0])).prop_map(|(fixture, ikm)| KeySpec {
        fixture,
        ikm,
        key_info: OptBytes::None,
        key_dst: OptBytes::None,
    })
}

#[derive(Clone, Copy, Debug, PartialEq, Eq, Hash, Serialize, Deserialize)]
pub enum SuiteId {
    Sha256,
    Shake256,
}

impl SuiteId {
    pub fn other(&self) -> SuiteId {
        match self {
            SuiteId::Sha256 => SuiteId::Shake256,
            SuiteId::Shake256 => SuiteId::Sha256,
        }
    }
    pub fn name(&self) -> &'static str {
        match self {
            SuiteId::Sha256 => "sha256",
            SuiteId::Shake256 => "shake256",
        }
    }
}

pub fn suite() -> impl Strategy<Value = SuiteId> {
    prop_oneof![Just(SuiteId::Sha256), Just(SuiteId::Shake256)]
}

/// monotone map of a 16-bit draw onto 0..n (shrinks toward 0)
pub fn pick(draw: u16, n: usize) -> usize {
    if n == 0 {
        0
    } else {
        ((draw as usize) * n) >> 16
    }
}

/// disclosure mask classes for large L
pub fn mask_classes(l: usize, seed: u64) -> Vec<(String, Vec<usize>)> {
    let mut out: Vec<(String, Vec<usize>)> = vec![];
    out.push(("none".into(), vec![]));
    out.push(("all".into(), (0..l).collect()));
    if l >= 1 {
        out.push(("first".into(), vec![0]));
        out.push(("last".into(), vec![l - 1]));
        out.push(("all-but-last".into(), (0..l - 1).collect()));
        out.push(("evens".into(), (0..l).step_by(2).collect()));
    }
    if l >= 23 {
        // hide position 21+ only / disclose position 21+ only
        out.push(("all-but-22".into(), (0..l).filter(|&i| i != 22).collect()));
        out.push(("only-22".into(), vec![22]));
    }
    let mut st = seed;
    let half: Vec<usize> = (0..l).filter(|_| splitmix(&mut st) & 1 == 1).collect();
    out.push(("random-half".into(), half));
    let sparse: Vec<usize> = (0..l).filter(|_| splitmix(&mut st) % 8 == 0).collect();
    out.push(("random-sparse".into(), sparse));
    let dense: Vec<usize> = (0..l).filter(|_| splitmix(&mut st) % 8 != 0).collect();
    out.push(("random-dense".into(), dense));
    out
}

pub fn mask_to_indexes(mask: u32, l: usize) -> Vec<usize> {
    (0..l).filter(|i| mask >> i & 1 == 1).collect()
}

/// subset of 0..n from a 32-bit mask (period 32, rotated per block); equals mask_to_indexes for n <= 32
pub fn mask_idx(mask: u32, n: usize) -> Vec<usize> {
    (0..n).filter(|i| mask.rotate_left((*i / 32) as u32) >> (i % 32) & 1 == 1).collect()
}


/// FNV-1a (32 bit), the fingerprint a hand-written cache key is most likely to use.
pub fn fnv1a32(data: &[u8]) -> u32 {
    let mut h: u32 = 0x811c9dc5;
    for &b in data {
        h = (h ^ b as u32).wrapping_mul(0x01000193);
    }
    h
}

/// Another octet string of the same length with the same FNV-1a-32 value (second preimage by meet in the
/// middle over the last four octets after one earlier octet was changed).  Needs at least 5 octets.
pub fn fnv1a32_collision(data: &[u8], salt: u64) -> Option<Vec<u8>> {
    use std::collections::HashMap;
    const P: u32 = 0x01000193;
    const PINV: u32 = 0x359c449b; // P * PINV = 1 (mod 2^32)
    debug_assert_eq!(P.wrapping_mul(PINV), 1);
    let n = data.len();
    if n < 5 {
        return None;
    }
    let target = fnv1a32(data);
    let mut st = salt | 1;
    for _ in 0..64 {
        let mut out = data.to_vec();
        let pos = (splitmix(&mut st) as usize) % (n - 4);
        out[pos] ^= 1 + (splitmix(&mut st) % 255) as u8;
        let s0 = fnv1a32(&out[..n - 4]);
        let mut fwd: HashMap<u32, (u8, u8)> = HashMap::with_capacity(65536);
        for b1 in 0..=255u8 {
            let s1 = (s0 ^ b1 as u32).wrapping_mul(P);
            for b2 in 0..=255u8 {
                fwd.insert((s1 ^ b2 as u32).wrapping_mul(P), (b1, b2));
            }
        }
        for b4 in 0..=255u8 {
            let before4 = target.wrapping_mul(PINV) ^ b4 as u32;
            for b3 in 0..=255u8 {
                let before3 = before4.wrapping_mul(PINV) ^ b3 as u32;
                if let Some(&(b1, b2)) = fwd.get(&before3) {
                    out[n - 4] = b1;
                    out[n - 3] = b2;
                    out[n - 2] = b3;
                    out[n - 1] = b4;
                    if out != data && fnv1a32(&out) == target {
                        return Some(out);
                    }
                }
            }
        }
    }
    None
}
