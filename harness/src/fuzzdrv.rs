//! Driver for the libFuzzer campaigns of the thorough tier (C08, C09); the byte-level entry
//! functions themselves live in `fuzz_entry` and are shared with the in-process replay.

use crate::engine::*;
use serde_json::Value;

pub fn run_campaign(_ctx: &Ctx, rep: &Report, target: &str, _check: &str) {
    rep.note(format!("libFuzzer campaign for {} not built in this revision", target));
}

pub fn replay_input(_rep: &Report, ck: &str, case: &Value) -> CheckResult {
    Err(Fail { check: ck.into(), site: "replay-unknown-check".into(), msg: "no replay routine for this check".into(), case: case.clone() })
}
