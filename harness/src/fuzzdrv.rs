//! Driver for the libFuzzer campaigns of the thorough tier (C08, C09).  The byte-level entry
//! functions live in `fuzz_entry` and are shared with the in-process replay of saved inputs.

use crate::engine::*;
use serde_json::{json, Value};
use std::process::Command;

fn run_entry(target: &str, data: &[u8]) -> Result<(), String> {
    catch(|| match target {
        "c08_robust" => crate::fuzz_entry::c08(data),
        _ => crate::fuzz_entry::c09(data),
    })
}

fn site_of(target: &str, panic: &str) -> String {
    // strip numbers / hex so that the site is stable
    let mut out = String::new();
    let mut last = false;
    for ch in panic.chars().take(160) {
        if ch.is_ascii_hexdigit() && (ch.is_ascii_digit() || last) {
            if !last {
                out.push('N');
            }
            last = true;
        } else {
            out.push(ch);
            last = false;
        }
    }
    format!("libfuzzer:{}:{}", target, out)
}

/// in-process smoke run of the entry functions over the seed corpus and deterministic random bytes
/// (also part of the quick tier, so that the targets themselves are exercised on every change)
pub fn smoke(ctx: &Ctx, rep: &Report, target: &str, check: &str, n_random: usize) {
    let mut inputs = crate::fuzz_entry::seeds(target);
    let mut st = derive_u64(ctx, target);
    for i in 0..n_random {
        let len = (crate::gen::splitmix(&mut st) % 96) as usize + 3;
        let mut v = vec![0u8; len];
        crate::gen::fill_random(crate::gen::splitmix(&mut st), &mut v);
        if i % 2 == 0 {
            v[2] %= 3; // few mutations: stay close to honest artefacts
        }
        inputs.push(v);
    }
    par_items(ctx, rep, check, &inputs, |inp| {
        rep.eval(check, 1);
        match run_entry(target, inp) {
            Ok(()) => {
                rep.nontrivial(check, &hex::encode(inp));
                Ok(())
            }
            Err(p) => rep.fail(check, &site_of(target, &p), format!("{} on input {}: {}", target, hex::encode(inp), p), json!({"target": target, "input_hex": hex::encode(inp)})),
        }
    });
}

pub fn run_campaign(ctx: &Ctx, rep: &Report, target: &str, check: &str) {
    let vd = verif_dir();
    let build = format!("{}/.build", vd);
    let tdir = format!("{}/fuzz-target", build);
    let work = format!("{}/fuzz-work/{}-{}", build, target, std::process::id());
    let corpus = format!("{}/corpus", work);
    let arts = format!("{}/artifacts/", work);
    let _ = std::fs::remove_dir_all(&work);
    if std::fs::create_dir_all(&corpus).is_err() || std::fs::create_dir_all(&arts).is_err() {
        rep.note("libFuzzer: cannot create the work directory".into());
        return;
    }
    for (i, s) in crate::fuzz_entry::seeds(target).iter().enumerate() {
        let _ = std::fs::write(format!("{}/seed-{:04}", corpus, i), s);
    }
    let runs: u64 = std::env::var("VERIF_FUZZ_RUNS").ok().and_then(|s| s.parse().ok()).unwrap_or(400_000);
    let jobs = (ctx.workers / 2).max(1);
    let base_args = |sub: &str| {
        let mut c = Command::new("cargo");
        c.current_dir(format!("{}/harness", vd)).args(["+nightly", "fuzz", sub, "--fuzz-dir", &format!("{}/fuzz", vd), "--target-dir", &tdir, target]);
        c.env("CARGO_NET_OFFLINE", "true");
        c
    };
    // the tree under test may have been swapped with older file times: force zkryptium to be rebuilt
    let _ = Command::new("cargo")
        .current_dir(format!("{}/fuzz", vd))
        .args(["+nightly", "clean", "-p", "zkryptium", "--release", "--target", "x86_64-unknown-linux-gnu", "--target-dir", &tdir])
        .env("CARGO_NET_OFFLINE", "true")
        .output();
    let b = base_args("build").output();
    match b {
        Ok(o) if o.status.success() => {}
        Ok(o) => {
            out(&format!("INCONCLUSIVE property={} cargo fuzz build {} failed: {}", ctx.prop, target, truncate(&String::from_utf8_lossy(&o.stderr), 400)));
            std::process::exit(2);
        }
        Err(e) => {
            out(&format!("INCONCLUSIVE property={} cannot run cargo fuzz: {}", ctx.prop, e));
            std::process::exit(2);
        }
    }
    // `jobs` independent fuzzing processes with different seeds, `runs / jobs` executions each
    let per = runs / jobs as u64;
    let children: Vec<_> = (0..jobs)
        .map(|j| {
            let mut c = base_args("run");
            let cdir = format!("{}-{}", corpus, j);
            let _ = std::fs::create_dir_all(&cdir);
            c.arg(&cdir).arg(&corpus).arg("--");
            c.args([format!("-runs={}", per), format!("-seed={}", ctx.seed.wrapping_mul(31).wrapping_add(j as u64 + 1) % 2_000_000_000 + 1), "-max_len=2048".into(), "-len_control=0".into(), format!("-artifact_prefix={}", arts), "-print_final_stats=1".into(), "-timeout=30".into()]);
            c.stdout(std::process::Stdio::null()).stderr(std::process::Stdio::piped());
            c.spawn()
        })
        .collect();
    let mut total_execs = 0u64;
    let mut crashed = false;
    for ch in children {
        let Ok(ch) = ch else { continue };
        let Ok(o) = ch.wait_with_output() else { continue };
        let err = String::from_utf8_lossy(&o.stderr);
        for line in err.lines() {
            if let Some(r) = line.strip_prefix("stat::number_of_executed_units:") {
                total_execs += r.trim().parse::<u64>().unwrap_or(0);
            }
        }
        if !o.status.success() {
            crashed = true;
        }
    }
    rep.eval(check, total_execs);
    rep.class_n(&format!("libfuzzer-executions:{}", target), total_execs);
    rep.note(format!("libFuzzer {}: {} executions in {} processes (ASan, debug assertions and overflow checks on), seed corpus of {} structured inputs", target, total_execs, jobs, crate::fuzz_entry::seeds(target).len()));
    let mut found = vec![];
    if let Ok(rd) = std::fs::read_dir(&arts) {
        for e in rd.flatten() {
            if let Ok(data) = std::fs::read(e.path()) {
                found.push((e.file_name().to_string_lossy().to_string(), data));
            }
        }
    }
    found.sort();
    for (name, data) in found.iter().take(3) {
        let (site, msg) = match run_entry(target, data) {
            Err(p) => (site_of(target, &p), format!("{} (libFuzzer artefact {}): {}", target, name, p)),
            Ok(()) => (format!("libfuzzer:{}:crash-not-reproduced-in-process", target), format!("libFuzzer reported {} but the input passes in-process (sanitizer finding, timeout or out-of-memory)", name)),
        };
        if let Err(f) = rep.fail(check, &site, msg, json!({"target": target, "input_hex": hex::encode(data)})) {
            rep.add_violation(f);
        }
    }
    if crashed && found.is_empty() {
        rep.note(format!("libFuzzer {} exited non-zero without leaving an artefact (treated as inconclusive for the campaign)", target));
    }
    let _ = std::fs::remove_dir_all(&work);
}

pub fn replay_input(rep: &Report, ck: &str, case: &Value) -> CheckResult {
    let target = case["target"].as_str().unwrap_or("c08_robust").to_string();
    let Ok(data) = hex::decode(case["input_hex"].as_str().unwrap_or("")) else {
        return Err(Fail { check: ck.into(), site: "replay-parse".into(), msg: "input_hex missing".into(), case: case.clone() });
    };
    match run_entry(&target, &data) {
        Ok(()) => Ok(()),
        Err(p) => rep.fail(ck, &site_of(&target, &p), format!("{}: {}", target, p), case.clone()),
    }
}
