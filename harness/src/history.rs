//! Warm-up histories: a pseudo-random sequence of unrelated, legal API calls executed on the current
//! thread before a case is judged.  The properties quantify over every input regardless of what the
//! process did before, so the oracle is unchanged; what changes is that state kept between calls
//! (caches, thread-locals, scratch buffers, counters) is in a non-trivial condition when the case runs.

use crate::bbs::*;
use crate::gen::{splitmix, SuiteId};
use crate::with_suite;

fn one_step<CS: BbsCiphersuite>(st: &mut u64) {
    let k = splitmix(st);
    let l = (k >> 8) as usize % 5;
    let msgs: Vec<Vec<u8>> = (0..l).map(|i| format!("warm-{}-{}", i, k & 0xff).into_bytes()).collect();
    let cm: Vec<Vec<u8>> = (0..(k >> 16) as usize % 4).map(|i| format!("wc-{}", i).into_bytes()).collect();
    let hdr_owned = format!("wh-{}", k & 3).into_bytes();
    let hdr: Option<&[u8]> = if k & 4 == 0 { None } else { Some(&hdr_owned) };
    let Ok(kp) = KeyPair::<BBSplus<CS>>::generate(&[(k & 0x7) as u8 + 1; 32], None, None) else { return };
    let (sk, pk) = (kp.private_key(), kp.public_key());
    match (k >> 24) % 9 {
        0 => {
            if let Ok(s) = Signature::<BBSplus<CS>>::sign(Some(&msgs), sk, pk, hdr) {
                let _ = s.verify(pk, Some(&msgs), hdr);
                let _ = s.verify(pk, Some(&msgs), Some(b"another header")); // a failing verification
            }
        }
        1 => {
            if let Ok(s) = Signature::<BBSplus<CS>>::sign(Some(&msgs), sk, pk, hdr) {
                let idx: Vec<usize> = (0..l).step_by(2).collect();
                if let Ok(p) = PoKSignature::<BBSplus<CS>>::proof_gen(pk, &s.to_bytes(), hdr, Some(b"ph"), Some(&msgs), Some(&idx)) {
                    let dm: Vec<Vec<u8>> = idx.iter().map(|&i| msgs[i].clone()).collect();
                    let _ = p.proof_verify(pk, Some(&dm), Some(&idx), hdr, Some(b"ph"));
                    let _ = p.proof_verify(pk, Some(&dm), Some(&idx), hdr, None);
                }
            }
        }
        2 | 3 => {
            if let Ok((com, bf)) = Commitment::<BBSplus<CS>>::commit(Some(&cm)) {
                if let Ok(bs) = BlindSignature::<BBSplus<CS>>::blind_sign(sk, pk, Some(&com.to_bytes()), hdr, Some(&msgs)) {
                    let _ = bs.verify_blind_sign(pk, hdr, Some(&msgs), Some(&cm), Some(&bf));
                    if let Ok(p) = PoKSignature::<BBSplus<CS>>::blind_proof_gen(pk, &bs.to_bytes(), hdr, None, Some(&msgs), Some(&cm), Some(&[]), Some(&[]), Some(&bf)) {
                        let _ = p.blind_proof_verify(pk, hdr, None, Some(l), Some(&[]), Some(&[]), Some(&[]), Some(&[]));
                    }
                }
            }
        }
        4 => {
            let _ = BlindSignature::<BBSplus<CS>>::blind_sign(sk, pk, None, hdr, Some(&msgs)).map(|b| b.verify_blind_sign(pk, hdr, Some(&msgs), None, None));
        }
        5 => {
            // generator requests under assorted api_ids
            let custom = format!("APP-{}_", k & 7).into_bytes();
            let _ = Generators::create::<CS>(1 + l * 3, None);
            let _ = Generators::create::<CS>(2 + l, Some(&custom));
            let _ = Generators::create::<CS>(l, Some(b""));
        }
        6 => {
            // refused operations (error paths)
            let _ = KeyPair::<BBSplus<CS>>::generate(&[1u8; 16], None, None);
            let _ = KeyPair::<BBSplus<CS>>::generate(&[1u8; 32], None, Some(&[0x41u8; 300]));
            let _ = KeyPair::<BBSplus<CS>>::generate(&[1u8; 32], Some(&vec![0u8; 65536]), None);
            let _ = BBSplusPublicKey::from_bytes(&[0u8; 96]);
            let _ = BlindSignature::<BBSplus<CS>>::blind_sign(sk, pk, Some(&[0xc0; 112]), hdr, Some(&msgs));
        }
        7 => {
            if let Ok(s) = Signature::<BBSplus<CS>>::sign(Some(&msgs), sk, pk, hdr) {
                if l > 0 {
                    let _ = s.update_signature(sk, &msgs[0], b"updated", 0, l);
                }
                let _ = s.update_signature(sk, b"x", b"x", l + 3, l);
            }
        }
        _ => {
            let _ = BBSplusPublicKey::from_bytes(&pk.to_bytes());
            let (x, y) = pk.to_coordinates();
            let _ = BBSplusPublicKey::from_coordinates(&x, &y);
            let _ = KeyPair::<BBSplus<CS>>::random();
            let _ = BlindFactor::random();
        }
    }
}

/// `n` pseudo-random warm-up steps derived from `seed`, alternating suites at random
pub fn warmup(seed: u64, n: usize) {
    let mut st = seed ^ 0x57A7E;
    for _ in 0..n {
        let s = if splitmix(&mut st) & 1 == 0 { SuiteId::Sha256 } else { SuiteId::Shake256 };
        with_suite!(s, CS => one_step::<CS>(&mut st));
    }
}
