//! Warm-up histories: a pseudo-random sequence of unrelated, legal API calls executed on the current
//! thread before a case is judged.  The properties quantify over every input regardless of what the
//! process did before, so the oracle is unchanged; what changes is that state kept between calls
//! (caches, thread-locals, scratch buffers, counters) is in a non-trivial condition when the case runs.

use crate::bbs::*;
use crate::gen::{splitmix, SuiteId};
use crate::with_suite;

fn one_step<CS: BbsCiphersuite>(st: &mut u64) {
    let k = splitmix(st);
    let l = (k >> 8) as usize % 5;
    let msgs: Vec<Vec<u8>> = (0..l).map(|i| format!("warm-{}-{}", i, k & 0xff).into_bytes()).collect();
    let cm: Vec<Vec<u8>> = (0..(k >> 16) as usize % 4).map(|i| format!("wc-{}", i).into_bytes()).collect();
    let hdr_owned = format!("wh-{}", k & 3).into_bytes();
    let hdr: Option<&[u8]> = if k & 4 == 0 { None } else { Some(&hdr_owned) };
    let Ok(kp) = KeyPair::<BBSplus<CS>>::generate(&[(k & 0x7) as u8 + 1; 32], None, None) else { return };
    let (sk, pk) = (kp.private_key(), kp.public_key());
    match (k >> 24) % 9 {
        0 => {
            if let Ok(s) = Signature::<BBSplus<CS>>::sign(Some(&msgs), sk, pk, hdr) {
                let _ = s.verify(pk, Some(&msgs), hdr);
                let _ = s.verify(pk, Some(&msgs), Some(b"another header")); // a failing verification
            }
        }
        1 => {
            if let Ok(s) = Signature::<BBSplus<CS>>::sign(Some(&msgs), sk, pk, hdr) {
                let idx: Vec<usize> = (0..l).step_by(2).collect();
                if let Ok(p) = PoKSignature::<BBSplus<CS>>::proof_gen(pk, &s.to_bytes(), hdr, Some(b"ph"), Some(&msgs), Some(&idx)) {
                    let dm: Vec<Vec<u8>> = idx.iter().map(|&i| msgs[i].clone()).collect();
                    let _ = p.proof_verify(pk, Some(&dm), Some(&idx), hdr, Some(b"ph"));
                    let _ = p.proof_verify(pk, Some(&dm), Some(&idx), hdr, None);
                }
            }
        }
        2 | 3 => {
            if let Ok((com, bf)) = Commitment::<BBSplus<CS>>::commit(Some(&cm)) {
                if let Ok(bs) = BlindSignature::<BBSplus<CS>>::blind_sign(sk, pk, Some(&com.to_bytes()), hdr, Some(&msgs)) {
                    let _ = bs.verify_blind_sign(pk, hdr, Some(&msgs), Some(&cm), Some(&bf));
                    if let Ok(p) = PoKSignature::<BBSplus<CS>>::blind_proof_gen(pk, &bs.to_bytes(), hdr, None, Some(&msgs), Some(&cm), Some(&[]), Some(&[]), Some(&bf)) {
                        let _ = p.blind_proof_verify(pk, hdr, None, Some(l), Some(&[]), Some(&[]), Some(&[]), Some(&[]));
                    }
                }
            }
        }
        4 => {
            let _ = BlindSignature::<BBSplus<CS>>::blind_sign(sk, pk, None, hdr, Some(&msgs)).map(|b| b.verify_blind_sign(pk, hdr, Some(&msgs), None, None));
        }
        5 => {
            // generator requests under assorted api_ids
            let custom = format!("APP-{}_", k & 7).into_bytes();
            let _ = Generators::create::<CS>(1 + l * 3, None);
            let _ = Generators::create::<CS>(2 + l, Some(&custom));
            let _ = Generators::create::<CS>(l, Some(b""));
        }
        6 => {
            // refused operations (error paths)
            let _ = KeyPair::<BBSplus<CS>>::generate(&[1u8; 16], None, None);
            let _ = KeyPair::<BBSplus<CS>>::generate(&[1u8; 32], None, Some(&[0x41u8; 300]));
            let _ = KeyPair::<BBSplus<CS>>::generate(&[1u8; 32], Some(&vec![0u8; 65536]), None);
            let _ = BBSplusPublicKey::from_bytes(&[0u8; 96]);
            let _ = BlindSignature::<BBSplus<CS>>::blind_sign(sk, pk, Some(&[0xc0; 112]), hdr, Some(&msgs));
        }
        7 => {
            if let Ok(s) = Signature::<BBSplus<CS>>::sign(Some(&msgs), sk, pk, hdr) {
                if l > 0 {
                    let _ = s.update_signature(sk, &msgs[0], b"updated", 0, l);
                }
                let _ = s.update_signature(sk, b"x", b"x", l + 3, l);
            }
        }
        _ => {
            let _ = BBSplusPublicKey::from_bytes(&pk.to_bytes());
            let (x, y) = pk.to_coordinates();
            let _ = BBSplusPublicKey::from_coordinates(&x, &y);
            let _ = KeyPair::<BBSplus<CS>>::random();
            let _ = BlindFactor::random();
        }
    }
}

/// `n` pseudo-random warm-up steps derived from `seed`, alternating suites at random
pub fn warmup(seed: u64, n: usize) {
    let mut st = seed ^ 0x57A7E;
    for _ in 0..n {
        let s = if splitmix(&mut st) & 1 == 0 { SuiteId::Sha256 } else { SuiteId::Shake256 };
        with_suite!(s, CS => one_step::<CS>(&mut st));
    }
}

/// Number of entries of the refused-call catalogue.
pub const REFUSED_CALLS: u64 = 17;

/// One call that the library has to refuse (an error value, or for some a panic that is swallowed here), executed
/// on the current thread.  A flow whose steps are each preceded by one of these must behave exactly as without
/// them: what an error path leaves behind (a scratch buffer not cleared, a half-written cache entry, a poisoned
/// lock) otherwise goes into the next honest call on the thread.
pub fn refused_call<CS: BbsCiphersuite>(k: u64) -> &'static str {
    let kp = KeyPair::<BBSplus<CS>>::generate(&[9u8; 32], None, None);
    let run = |f: &mut dyn FnMut()| {
        let _ = std::panic::catch_unwind(std::panic::AssertUnwindSafe(f));
    };
    match k % REFUSED_CALLS {
        0 => {
            run(&mut || drop(KeyPair::<BBSplus<CS>>::generate(&[1u8; 31], None, None)));
            "keygen:ikm-too-short"
        }
        1 => {
            run(&mut || drop(KeyPair::<BBSplus<CS>>::generate(&[1u8; 32], None, Some(&[0x41u8; 256]))));
            "keygen:key_dst-256-octets"
        }
        2 => {
            run(&mut || drop(KeyPair::<BBSplus<CS>>::generate(&[1u8; 32], Some(&vec![7u8; 65536]), None)));
            "keygen:key_info-65536-octets"
        }
        3 => {
            run(&mut || drop(BBSplusPublicKey::from_bytes(&[0u8; 96])));
            "public-key:zeros"
        }
        4 => {
            run(&mut || drop(Signature::<BBSplus<CS>>::from_bytes(&[0xffu8; 80])));
            "signature:0xff"
        }
        5 => {
            run(&mut || drop(PoKSignature::<BBSplus<CS>>::from_bytes(&[0xc0u8; 272])));
            "proof:0xc0"
        }
        6 => {
            if let Ok(kp) = &kp {
                run(&mut || drop(BlindSignature::<BBSplus<CS>>::blind_sign(kp.private_key(), kp.public_key(), Some(&[0xc0; 112]), Some(b"h"), Some(&[b"m".to_vec()]))));
            }
            "blind_sign:commitment-0xc0"
        }
        7 => {
            if let Ok(kp) = &kp {
                let (sk, pk) = (kp.private_key(), kp.public_key());
                let m = [b"refused".to_vec()];
                if let Ok(s) = Signature::<BBSplus<CS>>::sign(Some(&m), sk, pk, Some(b"h")) {
                    run(&mut || drop(s.verify(pk, Some(&m), Some(b"other header"))));
                }
            }
            "verify:other-header"
        }
        8 => {
            if let Ok(kp) = &kp {
                let (sk, pk) = (kp.private_key(), kp.public_key());
                let m = [b"refused".to_vec(), b"second".to_vec()];
                if let Ok(s) = Signature::<BBSplus<CS>>::sign(Some(&m), sk, pk, None) {
                    run(&mut || drop(PoKSignature::<BBSplus<CS>>::proof_gen(pk, &s.to_bytes(), None, None, Some(&m), Some(&[5]))));
                }
            }
            "proof_gen:index-out-of-range"
        }
        9 => {
            if let Ok(kp) = &kp {
                let (sk, pk) = (kp.private_key(), kp.public_key());
                let m = [b"refused".to_vec(), b"second".to_vec()];
                if let Ok(s) = Signature::<BBSplus<CS>>::sign(Some(&m), sk, pk, None) {
                    if let Ok(p) = PoKSignature::<BBSplus<CS>>::proof_gen(pk, &s.to_bytes(), None, Some(b"ph"), Some(&m), Some(&[0])) {
                        run(&mut || drop(p.proof_verify(pk, Some(&m[..1]), Some(&[0]), None, Some(b"another ph"))));
                    }
                }
            }
            "proof_verify:other-ph"
        }
        10 => {
            if let Ok(kp) = &kp {
                let (sk, pk) = (kp.private_key(), kp.public_key());
                let m = [b"refused".to_vec()];
                if let Ok(s) = Signature::<BBSplus<CS>>::sign(Some(&m), sk, pk, None) {
                    run(&mut || drop(s.update_signature(sk, &m[0], b"new", 7, 1)));
                }
            }
            "update_signature:position-out-of-range"
        }
        11 => {
            run(&mut || drop(zkryptium::utils::util::bbsplus_utils::hash_to_scalar::<CS>(b"data", &[0x42u8; 256])));
            "hash_to_scalar:dst-256-octets"
        }
        12 => {
            run(&mut || drop(Commitment::<BBSplus<CS>>::from_bytes(&[0u8; 111])));
            "commitment:111-octets"
        }
        13 => {
            if let Ok(kp) = &kp {
                let (sk, pk) = (kp.private_key(), kp.public_key());
                let m = [b"refused".to_vec(), b"second".to_vec(), b"third".to_vec()];
                if let Ok(s) = Signature::<BBSplus<CS>>::sign(Some(&m), sk, pk, None) {
                    if let Ok(p) = PoKSignature::<BBSplus<CS>>::proof_gen(pk, &s.to_bytes(), None, None, Some(&m), Some(&[0, 2])) {
                        let dm = [m[0].clone(), m[2].clone()];
                        run(&mut || drop(p.proof_verify(pk, Some(&dm), Some(&[0, 3]), None, None)));
                    }
                }
            }
            "proof_verify:disclosed-index-out-of-range"
        }
        14 => {
            if let Ok(kp) = &kp {
                let (sk, pk) = (kp.private_key(), kp.public_key());
                let m = [b"refused".to_vec(), b"second".to_vec()];
                if let Ok(b) = BlindSignature::<BBSplus<CS>>::blind_sign(sk, pk, None, None, Some(&m)) {
                    if let Ok(p) = PoKSignature::<BBSplus<CS>>::blind_proof_gen(pk, &b.to_bytes(), None, None, Some(&m), None, Some(&[1]), None, None) {
                        run(&mut || drop(p.blind_proof_verify(pk, None, None, Some(2), Some(&m[1..]), None, Some(&[9]), None)));
                        run(&mut || drop(p.blind_proof_verify(pk, None, None, Some(7), Some(&m[1..]), None, Some(&[1]), None)));
                    }
                }
            }
            "blind_proof_verify:index-or-L-out-of-range"
        }
        15 => {
            if let Ok(kp) = &kp {
                let (sk, pk) = (kp.private_key(), kp.public_key());
                let m = [b"refused".to_vec()];
                if let Ok(s) = Signature::<BBSplus<CS>>::sign(Some(&m), sk, pk, None) {
                    run(&mut || drop(s.verify(pk, Some(&[]), None)));
                    run(&mut || drop(PoKSignature::<BBSplus<CS>>::proof_gen(pk, &s.to_bytes(), None, None, Some(&[]), Some(&[0]))));
                }
            }
            "verify-and-proof_gen:message-list-too-short"
        }
        _ => {
            if let Ok(kp) = &kp {
                let (sk, pk) = (kp.private_key(), kp.public_key());
                if let Ok(b) = BlindSignature::<BBSplus<CS>>::blind_sign(sk, pk, None, None, Some(&[b"m".to_vec()])) {
                    run(&mut || drop(b.verify_blind_sign(pk, None, Some(&[b"other".to_vec()]), None, None)));
                }
            }
            "verify_blind_sign:other-message"
        }
    }
}
