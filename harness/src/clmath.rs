//! Independent big-integer helpers for the CL03 oracles (on top of rug's plain arithmetic):
//! Miller-Rabin with fixed bases, Jacobi symbol, safe-prime search for the key fixtures.

use rug::integer::Order;
use rug::{Complete, Integer};

const MR_BASES: [u32; 40] = [
    2, 3, 5, 7, 11, 13, 17, 19, 23, 29, 31, 37, 41, 43, 47, 53, 59, 61, 67, 71, 73, 79, 83, 89, 97, 101, 103, 107, 109, 113, 127, 131, 137, 139, 149, 151, 157, 163, 167, 173,
];

/// Miller-Rabin over pow_mod with 40 fixed bases
pub fn is_prime(n: &Integer) -> bool {
    if *n < 2 {
        return false;
    }
    for &b in MR_BASES.iter() {
        if *n == b {
            return true;
        }
        if n.is_divisible_u(b) {
            return false;
        }
    }
    let nm1 = (n - 1u32).complete();
    let s = nm1.find_one(0).unwrap();
    let d = (&nm1 >> s).complete();
    'outer: for &b in MR_BASES.iter() {
        let mut x = Integer::from(b).pow_mod(&d, n).unwrap();
        if x == 1 || x == nm1 {
            continue;
        }
        for _ in 1..s {
            x = x.square() % n;
            if x == nm1 {
                continue 'outer;
            }
            if x == 1 {
                return false;
            }
        }
        return false;
    }
    true
}

/// Jacobi symbol (a / n) for odd positive n, binary algorithm
pub fn jacobi(a: &Integer, n: &Integer) -> i32 {
    assert!(*n > 0 && n.is_odd());
    let mut a = a.clone() % n;
    if a < 0 {
        a += n;
    }
    let mut n = n.clone();
    let mut result = 1;
    while a != 0 {
        while a.is_even() {
            a >>= 1;
            let r = n.mod_u(8);
            if r == 3 || r == 5 {
                result = -result;
            }
        }
        std::mem::swap(&mut a, &mut n);
        if a.mod_u(4) == 3 && n.mod_u(4) == 3 {
            result = -result;
        }
        a %= &n;
    }
    if n == 1 {
        result
    } else {
        0
    }
}

pub fn gcd(a: &Integer, b: &Integer) -> Integer {
    let (mut x, mut y) = (a.clone().abs(), b.clone().abs());
    while y != 0 {
        let r = x % &y;
        x = y;
        y = r;
    }
    x
}

pub fn int_from_seed(st: &mut u64, bits: u32) -> Integer {
    let nbytes = ((bits + 7) / 8) as usize;
    let mut buf = vec![0u8; nbytes];
    for ch in buf.chunks_mut(8) {
        let v = crate::gen::splitmix(st).to_le_bytes();
        ch.copy_from_slice(&v[..ch.len()]);
    }
    let mut i = Integer::from_digits(&buf, Order::MsfBe);
    i.keep_bits_mut(bits);
    i
}

/// search for a safe prime p = 2p' + 1 with p' of exactly `bits` bits, starting from OS randomness
pub fn find_safe_prime(bits: u32) -> (Integer, Integer) {
    use rand::RngCore;
    let mut rng = rand::thread_rng();
    loop {
        let mut buf = vec![0u8; ((bits + 7) / 8) as usize];
        rng.fill_bytes(&mut buf);
        let mut c = Integer::from_digits(&buf, Order::MsfBe);
        c.keep_bits_mut(bits);
        c.set_bit(bits - 1, true);
        c.set_bit(0, true);
        // walk over odd candidates with cheap sieving on both p' and p
        for _ in 0..4000 {
            c += 2u32;
            if c.significant_bits() != bits {
                break;
            }
            let p = (&c * 2u32).complete() + 1u32;
            let mut ok = true;
            for &b in MR_BASES.iter().skip(1) {
                if c.is_divisible_u(b) || p.is_divisible_u(b) {
                    ok = false;
                    break;
                }
            }
            if !ok {
                continue;
            }
            if c.is_probably_prime(2) == rug::integer::IsPrime::No {
                continue;
            }
            if p.is_probably_prime(2) == rug::integer::IsPrime::No {
                continue;
            }
            if is_prime(&c) && is_prime(&p) {
                return (p, c);
            }
        }
    }
}
