//! Byte-level entry functions shared by the libFuzzer targets (/verif/fuzz), the quick tier and the
//! replay of saved fuzzer inputs.  The fuzzer's bytes are decoded into "honest artefact k, this
//! list of mutations, these index lists / counts, entry point j"; the semantic oracle is inside.
//! A violated expectation panics with a message starting with `C08:` / `C09:`.

use crate::bbs::*;
use crate::gen::SuiteId;
use crate::props::c08::{honest, Honest};
use crate::props::c09::{decode_encode, Codec, CODECS};
use crate::refimpl;
use crate::with_suite;
use std::sync::OnceLock;
use zkryptium::bbsplus::proof::BBSplusZKPoK;

static POOL: OnceLock<[Honest; 2]> = OnceLock::new();

fn pool() -> &'static [Honest; 2] {
    POOL.get_or_init(|| [honest(SuiteId::Sha256), honest(SuiteId::Shake256)])
}

struct Cur<'a> {
    d: &'a [u8],
    p: usize,
}

impl<'a> Cur<'a> {
    fn u8(&mut self) -> u8 {
        let v = self.d.get(self.p).copied().unwrap_or(0);
        self.p += 1;
        v
    }
    fn u16(&mut self) -> u16 {
        u16::from_le_bytes([self.u8(), self.u8()])
    }
    fn u64(&mut self) -> u64 {
        let mut b = [0u8; 8];
        for x in b.iter_mut() {
            *x = self.u8();
        }
        u64::from_le_bytes(b)
    }
    /// an index / count over the whole usize range
    fn index(&mut self) -> usize {
        match self.u8() % 4 {
            0 => (self.u8() % 12) as usize,
            1 => self.u16() as usize,
            2 => self.u64() as usize,
            _ => [usize::MAX, usize::MAX - 1, 1usize << 63, 1usize << 32, (1usize << 32) - 1, usize::MAX - 7, 65536, 255][(self.u8() % 8) as usize],
        }
    }
    fn list(&mut self, max: usize) -> Vec<usize> {
        let n = self.u8() as usize % (max + 1);
        (0..n).map(|_| self.index()).collect()
    }
    fn rest(&self) -> &'a [u8] {
        &self.d[self.p.min(self.d.len())..]
    }
}

fn mutate(base: &[u8], cur: &mut Cur) -> Vec<u8> {
    let mut b = base.to_vec();
    let n = cur.u8() % 5;
    for _ in 0..n {
        let kind = cur.u8() % 9;
        let off = cur.u16() as usize;
        let val = cur.u8();
        let len = b.len().max(1);
        match kind {
            0 => {
                if !b.is_empty() {
                    b[off % len] ^= 1 << (val % 8);
                }
            }
            1 => {
                if !b.is_empty() {
                    b[off % len] = val;
                }
            }
            2 => b.truncate(off % (len + 1)),
            3 => b.extend(std::iter::repeat(val).take(val as usize % 70)),
            4 => {
                let p = (off % (len + 1)) / 32 * 32;
                let p = p.min(b.len());
                b.splice(p..p, [val; 32]);
            }
            5 => {
                let p = (off % len) / 32 * 32;
                if p + 32 <= b.len() {
                    b.drain(p..p + 32);
                }
            }
            6 => {
                // a 48-octet point slot replaced by the compressed identity
                let p = (off % len) / 48 * 48;
                if p + 48 <= b.len() {
                    b[p..p + 48].iter_mut().for_each(|x| *x = 0);
                    b[p] = 0xc0;
                }
            }
            7 => {
                // a 32-octet slot replaced by r, r-1, 0 or 2^256-1
                let p = (off % len) / 16 * 16;
                if p + 32 <= b.len() {
                    let r = hex::decode("73eda753299d7d483339d80809a1d80553bda402fffe5bfeffffffff00000001").unwrap();
                    match val % 4 {
                        0 => b[p..p + 32].copy_from_slice(&r),
                        1 => {
                            b[p..p + 32].copy_from_slice(&r);
                            b[p + 31] = 0
                        }
                        2 => b[p..p + 32].iter_mut().for_each(|x| *x = 0),
                        _ => b[p..p + 32].iter_mut().for_each(|x| *x = 0xff),
                    }
                }
            }
            _ => b.clear(),
        }
    }
    b
}

const N_ENTRIES: u8 = 9;

/// C08 target: no entry point may panic, overflow or exceed its generator budget.
pub fn c08(data: &[u8]) {
    let mut cur = Cur { d: data, p: 0 };
    let entry = cur.u8() % N_ENTRIES;
    let sel = cur.u8();
    let h = &pool()[(sel & 1) as usize];
    let arts: [&Vec<u8>; 8] = [&h.proof, &h.proof_all, &h.bproof, &h.commitment, &h.sig, &h.bsig, &h.pk, &h.bf];
    let base = arts[(sel >> 1) as usize % arts.len()];
    let art = mutate(base, &mut cur);
    let ia = cur.list(6);
    let ib = cur.list(4);
    let na = cur.u8() as usize % 7;
    let nb = cur.u8() as usize % 5;
    let count = cur.index();
    let l_none = cur.u8() & 1 == 1;
    let msgs_pool: Vec<Vec<u8>> = h.msgs.iter().cloned().chain(h.cm.iter().cloned()).chain(std::iter::once(b"other".to_vec())).collect();
    let ma: Vec<Vec<u8>> = (0..na).map(|i| msgs_pool[i % msgs_pool.len()].clone()).collect();
    let mb: Vec<Vec<u8>> = (0..nb).map(|i| msgs_pool[(i + 4) % msgs_pool.len()].clone()).collect();
    let units = art.len() / 32 + ia.len() + ib.len() + na + nb + 16;
    zkryptium::verif_hooks::set_generator_budget(Some(4 * units as u64 + 16));
    with_suite!(h.suite, CS => {
        let pk = BBSplusPublicKey::from_bytes(&h.pk).unwrap();
        let sk = BBSplusSecretKey::from_bytes(&h.sk).unwrap();
        let hdr = Some(&h.header[..]);
        let ph = Some(&h.ph[..]);
        match entry {
            0 => {
                if let Ok(p) = PoKSignature::<BBSplus<CS>>::from_bytes(&art) {
                    let _ = p.proof_verify(&pk, Some(&ma), Some(&ia), hdr, ph);
                    let _ = p.blind_proof_verify(&pk, hdr, ph, if l_none { None } else { Some(count) }, Some(&ma), Some(&mb), Some(&ia), Some(&ib));
                    let _ = p.to_bytes();
                }
            }
            1 => {
                let _ = BlindSignature::<BBSplus<CS>>::blind_sign(&sk, &pk, Some(&art), hdr, Some(&ma));
            }
            2 => {
                let _ = PoKSignature::<BBSplus<CS>>::proof_gen(&pk, &art, hdr, ph, Some(&ma), Some(&ia));
            }
            3 => {
                let _ = PoKSignature::<BBSplus<CS>>::blind_proof_gen(&pk, &art, hdr, ph, Some(&ma), Some(&mb), Some(&ia), Some(&ib), None);
            }
            4 => {
                if let Ok(a) = <[u8; 80]>::try_from(art.as_slice()) {
                    if let Ok(s) = Signature::<BBSplus<CS>>::from_bytes(&a) {
                        let n = if count > 64 { usize::MAX } else { count };
                        zkryptium::verif_hooks::set_generator_budget(Some(4 * (units + if n == usize::MAX { 0 } else { n }) as u64 + 16));
                        let _ = s.update_signature(&sk, &h.msgs[0], b"new", ia.first().copied().unwrap_or(0), n);
                    }
                }
            }
            5 => {
                let _ = BBSplusPublicKey::from_bytes(&art);
                let _ = BBSplusSecretKey::from_bytes(&art);
                let _ = BBSplusZKPoK::from_bytes(&art);
                let _ = Commitment::<BBSplus<CS>>::from_bytes(&art);
                let _ = PoKSignature::<BBSplus<CS>>::from_bytes(&art);
            }
            6 => {
                let g = count % 40 + 1;
                zkryptium::verif_hooks::set_generator_budget(Some(4 * (units + g) as u64 + 16));
                let bg = Generators::create::<CS>(g, Some(&[b"BLIND_", CS::API_ID_BLIND].concat()));
                let _ = Commitment::<BBSplus<CS>>::deserialize_and_validate_commit(Some(&art), &bg, Some(CS::API_ID_BLIND));
            }
            7 => {
                if let Ok(a) = <[u8; 80]>::try_from(art.as_slice()) {
                    if let Ok(s) = Signature::<BBSplus<CS>>::from_bytes(&a) {
                        let _ = s.verify(&pk, Some(&ma), hdr);
                    }
                    if let Ok(s) = BlindSignature::<BBSplus<CS>>::from_bytes(&a) {
                        let _ = s.verify_blind_sign(&pk, hdr, Some(&ma), Some(&mb), None);
                    }
                }
            }
            _ => {
                // JSON: the honest proof / commitment as JSON text with byte-level mutations
                let proof = PoKSignature::<BBSplus<CS>>::from_bytes(&h.proof).unwrap();
                let js = serde_json::to_vec(&proof).unwrap();
                let m = mutate(&js, &mut Cur { d: cur.rest(), p: 0 });
                if let Ok(s) = std::str::from_utf8(&m) {
                    if let Ok(p) = serde_json::from_str::<PoKSignature<BBSplus<CS>>>(s) {
                        if let PoKSignature::BBSplus(_) = &p {
                            let _ = p.proof_verify(&pk, Some(&ma), Some(&ia), hdr, ph);
                        }
                    }
                }
            }
        }
    });
    zkryptium::verif_hooks::set_generator_budget(None);
}

/// independent decision of the reference model for the codecs it implements
fn ref_accepts(codec: Codec, b: &[u8]) -> Option<bool> {
    match codec {
        Codec::Pk => Some(refimpl::octets_to_pubkey(b).is_ok()),
        Codec::Sig | Codec::BlindSig => Some(refimpl::octets_to_sig(b).is_ok()),
        Codec::Proof => Some(refimpl::octets_to_proof(b).is_ok()),
        Codec::Sk | Codec::BlindFactor | Codec::Message => Some(refimpl::octets_to_scalar(b).is_ok()),
        Codec::ZkPok => Some(b.len() >= 64 && b.len() % 32 == 0 && b.chunks(32).all(|c| refimpl::octets_to_scalar(c).is_ok())),
        Codec::Commitment => Some(b.len() >= 112 && (b.len() - 48) % 32 == 0 && refimpl::octets_to_g1(&b[..48]).is_ok() && b[48..].chunks(32).all(|c| refimpl::octets_to_scalar(c).is_ok())),
    }
}

/// C09 target: decode -> encode reproduces the input; the accept/reject decision equals the
/// independently computed one (strict lengths, canonical scalars and points, forbidden values).
pub fn c09(data: &[u8]) {
    let mut cur = Cur { d: data, p: 0 };
    let codec = CODECS[(cur.u8() % CODECS.len() as u8) as usize];
    let sel = cur.u8();
    let h = &pool()[(sel & 1) as usize];
    let base: Vec<u8> = match codec {
        Codec::Pk => h.pk.clone(),
        Codec::Sk => h.sk.clone(),
        Codec::Sig => h.sig.clone(),
        Codec::BlindSig => h.bsig.clone(),
        Codec::Proof => [&h.proof, &h.proof_all, &h.bproof][(sel >> 1) as usize % 3].clone(),
        Codec::ZkPok => h.commitment[48..].to_vec(),
        Codec::Commitment => h.commitment.clone(),
        Codec::BlindFactor | Codec::Message => h.bf.clone(),
    };
    let input = if sel & 0x80 != 0 { cur.rest().to_vec() } else { mutate(&base, &mut cur) };
    let re = with_suite!(h.suite, CS => decode_encode::<CS>(codec, &input));
    if let Some(out) = &re {
        if out != &input {
            panic!("C09: non-canonical:{:?}: accepted {} re-encodes as {}", codec, hex::encode(&input), hex::encode(out));
        }
    }
    if let Some(want) = ref_accepts(codec, &input) {
        if want != re.is_some() {
            panic!("C09: decision-differs:{:?}: library {} reference {} on {}", codec, if re.is_some() { "accepts" } else { "rejects" }, if want { "accepts" } else { "rejects" }, hex::encode(&input));
        }
    }
}

/// seed corpus: one unmutated input per (entry / codec, artefact) and a few mutated ones
pub fn seeds(target: &str) -> Vec<Vec<u8>> {
    let mut out = vec![];
    if target == "c08_robust" {
        for e in 0..N_ENTRIES {
            for sel in 0..16u8 {
                let mut v = vec![e, sel, 0];
                v.extend_from_slice(&[2, 0, 0, 0, 2, 1, 0, 2, 2, 0, 1, 0]); // ia = [0, 2], ib = [.., ..]
                v.extend_from_slice(&[2, 1, 0, 4, 0]);
                out.push(v.clone());
                let mut w = vec![e, sel, 1, (sel % 9), 48, 0, 7];
                w.extend_from_slice(&v[3..]);
                out.push(w);
            }
        }
    } else {
        for c in 0..CODECS.len() as u8 {
            for sel in 0..6u8 {
                out.push(vec![c, sel, 0]);
                out.push(vec![c, sel, 1, 0, 5, 0, 3]);
                out.push(vec![c, sel, 1, 6, 0, 0, 0]);
                out.push(vec![c, sel, 1, 7, 48, 0, 0]);
            }
        }
    }
    out
}
