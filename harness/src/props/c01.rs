//! C01 — BBS signature completeness.

use crate::bbs::*;
use crate::engine::*;
use crate::gen::*;
use crate::with_suite;
use proptest::prelude::*;
use serde::{Deserialize, Serialize};
use serde_json::{json, Value};

#[derive(Clone, Debug, Serialize, Deserialize)]
pub struct Case {
    pub suite: SuiteId,
    pub key: KeySpec,
    pub header: OptBytes,
    pub msgs: MsgVec,
    /// pass `None` instead of `Some(&[])` when there are no messages
    pub msgs_none: bool,
}

const COUNTS_Q: &[usize] = &[0, 1, 2, 3, 5, 9, 10, 11, 16, 17, 21, 31, 32, 33, 63, 64, 127, 128];
const COUNTS_T: &[usize] = &[
    0, 1, 2, 3, 5, 9, 10, 11, 16, 17, 21, 31, 32, 33, 63, 64, 127, 128, 255, 256, 257, 400,
];

fn strat(tier: Tier) -> impl Strategy<Value = Case> {
    let counts = tier.pick(COUNTS_Q, COUNTS_T);
    (
        suite(),
        key_spec(),
        opt_bytes(HDR_LENS),
        msg_vec(counts, MSG_LENS_ALL),
        any::<bool>(),
    )
        .prop_map(|(suite, key, header, msgs, msgs_none)| Case {
            suite,
            key,
            header,
            msgs,
            msgs_none,
        })
}

fn check_one<CS: BbsCiphersuite>(rep: &Report, ck: &str, c: &Case) -> CheckResult {
    let cj = || serde_json::to_value(c).unwrap();
    let kp = match keypair::<CS>(&c.key) {
        Ok(k) => k,
        Err(e) => {
            return rep.fail(ck, "keygen-failed", format!("KeyPair::generate: {:?}", e), cj())
        }
    };
    let (sk, pk) = (kp.private_key(), kp.public_key());
    let msgs = c.msgs.materialize();
    let header = c.header.get();
    let l = msgs.len();
    let m_arg: Option<&[Vec<u8>]> = if l == 0 && c.msgs_none { None } else { Some(&msgs) };

    // a call the library refuses right before signing / right before verifying (a quarter of the cases each)
    if c.key.ikm.seed % 4 == 1 {
        rep.class(&format!("refused-call-before-sign:{}", crate::history::refused_call::<CS>(c.key.ikm.seed as u64 >> 2)));
    }
    let sig = match Signature::<BBSplus<CS>>::sign(m_arg, sk, pk, header.as_deref()) {
        Ok(s) => s,
        Err(e) => return rep.fail(ck, "sign-failed", format!("sign returned {:?}", e), cj()),
    };
    if c.key.ikm.seed % 4 == 3 {
        rep.class(&format!("refused-call-before-verify:{}", crate::history::refused_call::<CS>(c.key.ikm.seed as u64 >> 2)));
    }
    // in every second case the signature is first offered with a wrong statement (another header, one message
    // fewer) - whatever the answer, the verdict on the true statement must not depend on it
    if c.key.ikm.seed % 2 == 0 {
        let _ = sig.verify(pk, m_arg, Some(b"not the header"));
        if l >= 1 {
            let _ = sig.verify(pk, Some(&msgs[..l - 1]), header.as_deref());
        }
        rep.class("verified-after-a-refused-verification-of-the-same-signature");
    }
    rep.eval(ck, 1);
    if let Err(e) = sig.verify(pk, m_arg, header.as_deref()) {
        return rep.fail(
            ck,
            "verify-failed",
            format!("verify of a fresh signature returned {:?}; sig={}", e, hx(&sig.to_bytes())),
            cj(),
        );
    }
    rep.eval(ck, 1);
    // the same verification on a freshly started thread (nothing may depend on per-thread state)
    if c.key.ikm.seed % 4 == 0 {
        let sb0 = sig.to_bytes();
        let ok = std::thread::scope(|s| {
            s.spawn(|| Signature::<BBSplus<CS>>::from_bytes(&sb0).map(|x| x.verify(pk, m_arg, header.as_deref()).is_ok()).unwrap_or(false)).join().unwrap_or(false)
        });
        rep.eval(ck, 1);
        if !ok {
            return rep.fail(ck, "verify-failed-on-fresh-thread", "a signature that verifies on the signing thread does not verify on a freshly started thread".into(), cj());
        }
        rep.class("verified-on-fresh-thread");
    }
    // keys related to this one, imported through the octet form and used right after it on this thread: r - sk
    // (the public key is the negation: the encodings differ in the sign bit only), sk + 1, 2 sk, sk with its octets
    // reversed.  Each must sign and verify like any other key, and the original key must still work afterwards.
    if c.key.ikm.seed % 6 == 0 && l <= 40 {
        use bls12_381_plus::Scalar;
        let skb = sk.to_bytes();
        if let Some(x) = Option::<Scalar>::from(Scalar::from_be_bytes(&skb)) {
            let mut rev = skb;
            rev.reverse();
            let related: Vec<(&str, Scalar)> = vec![("r - sk", -x), ("sk + 1", x + Scalar::ONE), ("2 sk", x.double())]
                .into_iter()
                .chain(Option::<Scalar>::from(Scalar::from_be_bytes(&rev)).map(|y| ("octets reversed", y)))
                .filter(|(_, y)| *y != Scalar::ZERO)
                .collect();
            for (what, y) in related {
                let Ok(sk2) = BBSplusSecretKey::from_bytes(&y.to_be_bytes()) else {
                    return rep.fail(ck, "related-key-import-failed", format!("secret key {} does not decode", what), cj());
                };
                let pk2 = sk2.public_key();
                rep.eval(ck, 2);
                match Signature::<BBSplus<CS>>::sign(m_arg, &sk2, &pk2, header.as_deref()) {
                    Ok(s2) => {
                        if let Err(e) = s2.verify(&pk2, m_arg, header.as_deref()) {
                            return rep.fail(ck, "verify-failed:related-key", format!("key {} used right after the case's key: verify of a fresh signature returned {:?}", what, e), cj());
                        }
                    }
                    Err(e) => return rep.fail(ck, "sign-failed:related-key", format!("key {}: {:?}", what, e), cj()),
                }
                if let Err(e) = sig.verify(pk, m_arg, header.as_deref()) {
                    return rep.fail(ck, "verify-failed:after-related-key", format!("after key {} was used, the original signature no longer verifies under its own key: {:?}", what, e), cj());
                }
            }
            rep.class("related-keys-used-in-sequence");
        }
    }
    // octet round trip
    let bytes = sig.to_bytes();
    if bytes.len() != 80 {
        return rep.fail(ck, "sig-length", format!("to_bytes has {} bytes", bytes.len()), cj());
    }
    match Signature::<BBSplus<CS>>::from_bytes(&bytes) {
        Ok(s2) => {
            if s2 != sig {
                return rep.fail(ck, "sig-roundtrip-neq", "from_bytes(to_bytes(sig)) != sig".into(), cj());
            }
            if let Err(e) = s2.verify(pk, m_arg, header.as_deref()) {
                return rep.fail(ck, "sig-roundtrip-verify", format!("decoded signature: {:?}", e), cj());
            }
        }
        Err(e) => {
            return rep.fail(ck, "sig-roundtrip-decode", format!("from_bytes(to_bytes(sig)): {:?}", e), cj())
        }
    }
    rep.eval(ck, 1);
    // None == empty, both directions
    if matches!(c.header, OptBytes::None | OptBytes::Empty) {
        let alt: Option<&[u8]> = if matches!(c.header, OptBytes::None) { Some(b"") } else { None };
        match Signature::<BBSplus<CS>>::sign(m_arg, sk, pk, alt) {
            Ok(s2) if s2.to_bytes() == bytes => {}
            other => {
                return rep.fail(
                    ck,
                    "header-none-vs-empty-sign",
                    format!("sign with the other spelling of the empty header gives {}", err_s(&other)),
                    cj(),
                )
            }
        }
        if let Err(e) = sig.verify(pk, m_arg, alt) {
            return rep.fail(ck, "header-none-vs-empty-verify", format!("{:?}", e), cj());
        }
        rep.eval(ck, 2);
        rep.class("equiv:header-none-empty");
    }
    if l == 0 {
        let alt: Option<&[Vec<u8>]> = if c.msgs_none { Some(&[]) } else { None };
        match Signature::<BBSplus<CS>>::sign(alt, sk, pk, header.as_deref()) {
            Ok(s2) if s2.to_bytes() == bytes => {}
            other => {
                return rep.fail(
                    ck,
                    "msgs-none-vs-empty-sign",
                    format!("sign with the other spelling of the empty list gives {}", err_s(&other)),
                    cj(),
                )
            }
        }
        if let Err(e) = sig.verify(pk, alt, header.as_deref()) {
            return rep.fail(ck, "msgs-none-vs-empty-verify", format!("{:?}", e), cj());
        }
        rep.eval(ck, 2);
        rep.class("equiv:msgs-none-empty");
    }
    Ok(())
}

fn check(rep: &Report, ck: &str, c: &Case) -> CheckResult {
    // state kept between calls must not matter: half of the cases run after a warm-up history of
    // unrelated legal calls (other suite, blind interface, other api_ids, refused operations)
    let hs = c.msgs.items.iter().fold(c.key.ikm.seed as u64, |a, m| a.wrapping_mul(31).wrapping_add(m.seed as u64 + m.len as u64));
    if hs % 2 == 0 {
        crate::history::warmup(hs, 2 + (hs % 7) as usize);
        rep.class("after-warm-up-history");
    }
    // both suites must behave alike on the same inputs
    for s in [c.suite, c.suite.other()] {
        let mut c2 = c.clone();
        c2.suite = s;
        with_suite!(s, CS => check_one::<CS>(rep, ck, &c2))?;
    }
    let l = c.msgs.len();
    let hl = c.header.get().map(|h| h.len()).unwrap_or(0);
    rep.class(bucket(l));
    rep.class(&format!("header={}", c.header.class()));
    if c.msgs.items.iter().any(|m| m.len == 0) {
        rep.class("has-empty-message");
    }
    if c.msgs.items.iter().any(|m| m.len >= 4096) {
        rep.class("has-long-message");
    }
    if c.msgs.items.iter().enumerate().any(|(i, m)| (m.class == 4 || m.class == 5) && i > 0) {
        rep.class("has-duplicate-message");
    }
    let fixture_envelope = c.key.fixture && (l == 1 || l == 10) && (hl == 0 || hl == 16);
    if !fixture_envelope {
        rep.nontrivial(ck, c);
    }
    rep.sample(ck, json!({"suite": c.suite.name(), "L": l, "header": c.header, "fixture_key": c.key.fixture,
        "msg_lens": c.msgs.items.iter().take(8).map(|m| m.len).collect::<Vec<_>>() }));
    Ok(())
}

fn boundary_cases(tier: Tier) -> Vec<Case> {
    let mut out = vec![];
    let key = KeySpec {
        fixture: false,
        ikm: BSpec { len: 32, class: 0, seed: 7 },
        key_info: OptBytes::None,
        key_dst: OptBytes::None,
    };
    let big_l: &[usize] = tier.pick(&[0, 255, 256, 257, 1000, 2500], &[0, 255, 256, 257, 1000, 2500, 5000, 10000]);
    for (i, &l) in big_l.iter().enumerate() {
        let items = (0..l)
            .map(|j| BSpec { len: [0usize, 1, 32, 48, 5][j % 5], class: 0, seed: (j as u32) ^ 0x55 })
            .collect();
        out.push(Case {
            suite: if i % 2 == 0 { SuiteId::Sha256 } else { SuiteId::Shake256 },
            key: key.clone(),
            header: [OptBytes::None, OptBytes::Empty, OptBytes::Bytes(BSpec { len: 16, class: 0, seed: 1 })][i % 3].clone(),
            msgs: MsgVec { items },
            msgs_none: i % 2 == 1,
        });
    }
    // message sizes
    for (i, &ml) in [0usize, 1 << 20, (1 << 20) + 1, (1 << 22) + 3].iter().enumerate() {
        out.push(Case {
            suite: if i % 2 == 0 { SuiteId::Shake256 } else { SuiteId::Sha256 },
            key: key.clone(),
            header: OptBytes::None,
            msgs: MsgVec {
                items: vec![
                    BSpec { len: ml, class: 0, seed: 3 },
                    BSpec { len: 7, class: 3, seed: 4 },
                    BSpec { len: ml, class: 0, seed: 5 },
                ],
            },
            msgs_none: false,
        });
    }
    // header sizes
    for hl in [65536usize, 1 << 20, (1 << 20) + 1, (1 << 22) + 3] {
        out.push(Case {
            suite: SuiteId::Sha256,
            key: key.clone(),
            header: OptBytes::Bytes(BSpec { len: hl, class: 0, seed: 9 }),
            msgs: MsgVec { items: vec![BSpec { len: 3, class: 3, seed: 1 }] },
            msgs_none: false,
        });
    }
    // key shapes
    for (i, (ikl, kil)) in [(32usize, 0usize), (1000, 65535), (33, 255), (64, 256)].iter().enumerate() {
        out.push(Case {
            suite: if i % 2 == 0 { SuiteId::Sha256 } else { SuiteId::Shake256 },
            key: KeySpec {
                fixture: false,
                ikm: BSpec { len: *ikl, class: 0, seed: 11 },
                key_info: if *kil == 0 { OptBytes::Empty } else { OptBytes::Bytes(BSpec { len: *kil, class: 0, seed: 12 }) },
                key_dst: OptBytes::None,
            },
            header: OptBytes::None,
            msgs: MsgVec { items: vec![BSpec { len: 3, class: 3, seed: 1 }; 2] },
            msgs_none: false,
        });
    }
    out
}

/// first thing in the run (cold process): 16 threads sign and verify vectors of different sizes at once
fn cold_start(ctx: &Ctx, rep: &Report) {
    let ck = "cold-start-contention";
    let sizes = [40usize, 70, 3, 100, 33, 65, 17, 130, 1, 96, 32, 64, 48, 20, 80, 128];
    let r = contend(ck, ctx.workers.max(4), ctx.tier.pick(3, 12), |t, round| {
        let l = sizes[(t + round * 5) % sizes.len()];
        let c = Case {
            suite: if (t + round) % 2 == 0 { SuiteId::Sha256 } else { SuiteId::Shake256 },
            key: KeySpec { fixture: false, ikm: BSpec { len: 32, class: 0, seed: (t * 131 + round) as u32 }, key_info: OptBytes::None, key_dst: OptBytes::None },
            header: OptBytes::None,
            msgs: MsgVec { items: (0..l).map(|j| BSpec { len: 5, class: 0, seed: (t * 1000 + j) as u32 }).collect() },
            msgs_none: false,
        };
        with_suite!(c.suite, CS => check_one::<CS>(rep, ck, &c)).map(|_| {
            rep.nontrivial(ck, &c);
        })
    });
    if let Err(f) = r {
        rep.add_violation(f);
    }
}

pub fn run(ctx: &Ctx, rep: &Report) -> Meta {
    cold_start(ctx, rep);
    let cases = ctx.tier.pick(400, 4000);
    let tier = ctx.tier;
    run_cases(ctx, rep, "sign-verify", cases, 400, || strat(tier), |c| check(rep, "sign-verify", c));
    // every message count in a contiguous range (sizes at which a fast path / buffer / cache may switch)
    let sweep: Vec<Case> = (0..=ctx.tier.pick(130usize, 520usize))
        .map(|l| Case {
            suite: if l % 2 == 0 { SuiteId::Sha256 } else { SuiteId::Shake256 },
            key: KeySpec { fixture: false, ikm: BSpec { len: 32, class: 0, seed: (ctx.seed as u32).wrapping_add(l as u32) }, key_info: OptBytes::None, key_dst: OptBytes::None },
            header: [OptBytes::None, OptBytes::Bytes(BSpec { len: 16, class: 0, seed: 1 }), OptBytes::Empty][l % 3].clone(),
            msgs: MsgVec { items: (0..l).map(|j| BSpec { len: [4usize, 0, 33][j % 3], class: 0, seed: (l * 1000 + j) as u32 }).collect() },
            msgs_none: false,
        })
        .collect();
    par_items(ctx, rep, "size-sweep", &sweep, |c| check(rep, "size-sweep", c));
    if !rep.aborted() {
        rep.exhaustive(format!("every message count L in 0..={}", ctx.tier.pick(130, 520)));
    }
    let b = boundary_cases(ctx.tier);
    par_items(ctx, rep, "boundary", &b, |c| check(rep, "boundary", c));
    // long-lived threads: several hundred sign / verify rounds one after the other on the same thread (a counter
    // that wraps, a buffer that is reused after growing, a cache that evicts are reached only this way)
    let rounds = ctx.tier.pick(320usize, 2000usize);
    let threads: Vec<usize> = (0..4).collect();
    par_items(ctx, rep, "long-lived-thread", &threads, |&t| {
        for k in 0..rounds {
            if rep.aborted() {
                break;
            }
            let l = [1usize, 0, 3, 2, 7, 1, 12, 4][(k + t) % 8];
            let c = Case {
                suite: if (k + t) % 2 == 0 { SuiteId::Sha256 } else { SuiteId::Shake256 },
                key: KeySpec { fixture: false, ikm: BSpec { len: 32, class: 0, seed: (t * 7) as u32 + (crate::gen::splitmix(&mut ((t as u64) << 20 | k as u64)) % 4) as u32 }, key_info: OptBytes::None, key_dst: OptBytes::None },
                header: [OptBytes::Bytes(BSpec { len: 16, class: 0, seed: k as u32 }), OptBytes::None, OptBytes::Empty][k % 3].clone(),
                msgs: MsgVec { items: (0..l).map(|j| BSpec { len: [5usize, 0, 40][j % 3], class: 0, seed: (k * 100 + j) as u32 }).collect() },
                msgs_none: k % 16 == 1,
            };
            check(rep, "long-lived-thread", &c)?;
        }
        Ok(())
    });
    Meta {
        rule: "cases = (suite, key spec, header in {None, Some(b\"\"), bytes}, message vector) from edge-weighted sets, each run under BOTH suites; \
               oracle = sign Ok, verify Ok, 80-byte round trip equal and verifying, None/empty equivalence of header and message list (byte-identical signatures, cross verification); \
               a quarter of the cases run a call the library refuses (17 kinds: key generation with short key material / long tags, garbage octets into the decoders, a commitment of 0xc0 octets into blind_sign, verification / proof generation / update with other headers, positions out of range, lists too short, a tag of 256 octets into hash_to_scalar) right before signing and another quarter right before verifying; a sixth (vectors of up to 40 messages) use keys related to the case's key (r - sk, sk + 1, 2 sk, octets reversed; imported through the octet form) right after it on the same thread; half of the cases are preceded by a warm-up history of unrelated legal calls on the same thread (other suite, blind interface, custom api_ids, refused operations); a cold-start contention phase (all workers signing and verifying vectors of 1..130 messages at once), a size sweep over every L in 0..=130 (quick) / 0..=520 (thorough), in every second case the signature is first offered with a wrong header and a shortened message list; verification repeated on a freshly started thread for a quarter of the cases; four long-lived threads with 320 (quick) / 2000 (thorough) sign / verify rounds each in sequence; non-trivial = outside the fixture envelope (fixture key and L in {1,10} and header length in {0,16}); distinct by SHA-256 fingerprint of the case"
            .into(),
        assumptions: vec![
            "library linked as an ordinary dependency (cfg(not(test)), features bbsplus+bbsplus_blind+cl03)".into(),
            "sizes bounded: L <= 2500 quick / 10000 thorough, messages and header <= 4 MiB + 3 octets (1 MiB, 1 MiB + 1 and 4 MiB + 3 are generated)".into(),
        ],
    }
}

pub fn replay(ctx: &Ctx, rep: &Report, check_name: &str, case: &Value) -> CheckResult {
    // contention checks are replayed as a whole (the schedule is part of the case)
    if check_name == "cold-start-contention" {
        let before = rep.violation_count();
        cold_start(ctx, rep);
        return if rep.violation_count() > before { Err(Fail { check: check_name.into(), site: "reproduced-under-contention".into(), msg: "the contention check fails again".into(), case: case.clone() }) } else { Ok(()) };
    }
    // failure records hold the case itself; panics caught by the engine wrap it as {"case": ...}
    let inner = if case.get("case").map(|c| c.is_object()).unwrap_or(false) { &case["case"] } else { case };
    let c: Case = serde_json::from_value(inner.clone()).map_err(|e| Fail {
        check: check_name.into(),
        site: "replay-parse".into(),
        msg: e.to_string(),
        case: case.clone(),
    })?;
    check(rep, check_name, &c)
}
