//! C15 — CL03 proof of knowledge of a signature: complete and bound to its statement.

use crate::cl::*;
use crate::engine::*;
use crate::gen::{pick, splitmix};
use crate::with_cl;
use proptest::prelude::*;
use rug::ops::Pow;
use rug::{Complete, Integer};
use serde::{Deserialize, Serialize};
use serde_json::{json, Value};

#[derive(Clone, Debug, Serialize, Deserialize)]
pub struct Case {
    pub key: u16,
    pub n: usize,
    pub hidden_mask: u8,
    pub classes: Vec<u8>,
    /// signature obtained through blind issuance instead of direct signing
    pub via_blind: bool,
    pub seed: u32,
    pub leaf_edits: usize,
    /// explicit hidden positions (overrides hidden_mask; for attribute counts above 8)
    #[serde(default)]
    pub hidden_list: Vec<usize>,
    /// all hidden attributes carry the same value (the value of the first hidden one)
    #[serde(default)]
    pub eq_hidden: bool,
}

fn strat(nmax: usize, leaf_edits: usize) -> impl Strategy<Value = Case> {
    (any::<u16>(), 1usize..=nmax, any::<u8>(), prop::collection::vec(0u8..6, 5), prop::bool::weighted(0.25), any::<u32>())
        .prop_map(move |(key, n, hm, classes, via_blind, seed)| Case { key, n, hidden_mask: hm & ((1u8 << n) - 1), classes, via_blind, seed, leaf_edits, hidden_list: vec![], eq_hidden: false })
}

pub struct Honest<CS: CLCiphersuite> {
    pub cpk: CL03CommitmentPublicKey,
    pub bases: Bases,
    pub vals: Vec<Integer>,
    pub msgs: Vec<CL03Message>,
    pub hidden: Vec<usize>,
    pub revealed: Vec<CL03Message>,
    pub sig: Signature<CL03<CS>>,
    pub proof: PoKSignature<CL03<CS>>,
}

/// honest signature + proof for a case (shared with C17 / C19)
pub fn honest<CS: CLCiphersuite>(key: &ClKey, n: usize, hidden: &[usize], vals: Vec<Integer>, via_blind: bool) -> Result<Honest<CS>, String>
where
    CS::HashAlg: digest::Digest,
{
    let pk = &key.pk;
    let bases = Bases::generate(pk, n);
    let msgs: Vec<CL03Message> = vals.iter().cloned().map(CL03Message::new).collect();
    let revealed: Vec<CL03Message> = (0..n).filter(|i| !hidden.contains(i)).map(|i| msgs[i].clone()).collect();
    let sig = if via_blind && !hidden.is_empty() {
        let ridx: Vec<usize> = (0..n).filter(|i| !hidden.contains(i)).collect();
        let com = Commitment::<CL03<CS>>::commit_with_pk(&msgs, pk, &bases, Some(hidden));
        let zk = catch(|| ZKPoK::<CL03<CS>>::generate_proof(&msgs, com.cl03Commitment(), None, pk, &bases, None, hidden)).map_err(|e| format!("generate_proof: {}", e))?;
        let bs = catch(|| BlindSignature::<CL03<CS>>::blind_sign(pk, &key.sk, &bases, &zk, Some(&revealed), com.cl03Commitment(), None, None, hidden, Some(&ridx))).map_err(|e| format!("blind_sign: {}", e))?;
        bs.unblind_sign(&com)
    } else {
        Signature::<CL03<CS>>::sign_multiattr(pk, &key.sk, &bases, &msgs)
    };
    let cpk = CL03CommitmentPublicKey::generate::<CS>(Some(pk.N.clone()), Some(n));
    // a third of the honest generations follow a request that is refused on the same thread (a hidden position
    // beyond the attribute count after the valid ones): what a refusal leaves behind must not reach the next proof
    if vals.first().map(|v| v.mod_u(3) == 0).unwrap_or(false) {
        let mut bad = hidden.to_vec();
        bad.push(n + 4);
        let _ = catch(|| PoKSignature::<CL03<CS>>::proof_gen(sig.cl03Signature(), &cpk, pk, &bases, &msgs, &bad));
    }
    let proof = catch(|| PoKSignature::<CL03<CS>>::proof_gen(sig.cl03Signature(), &cpk, pk, &bases, &msgs, hidden)).map_err(|e| format!("proof_gen: {}", e))?;
    Ok(Honest { cpk, bases, vals, msgs, hidden: hidden.to_vec(), revealed, sig, proof })
}

/// another set of hidden positions of the same size (first differing candidate in a cheap enumeration)
fn other_set_same_size(n: usize, hidden: &[usize]) -> Option<Vec<usize>> {
    if n <= 10 {
        return subsets(n).into_iter().find(|o| o.len() == hidden.len() && o != hidden);
    }
    // large n: move one hidden position to the next free position
    for (k, &h) in hidden.iter().enumerate() {
        for d in 1..n {
            let cand = (h + d) % n;
            if !hidden.contains(&cand) {
                let mut o = hidden.to_vec();
                o[k] = cand;
                o.sort();
                return Some(o);
            }
        }
    }
    None
}

fn check_one<CS: CLCiphersuite>(rep: &Report, ck: &str, c: &Case, keys: &[ClKey]) -> CheckResult
where
    CS::HashAlg: digest::Digest,
{
    let key = &keys[pick(c.key, keys.len())];
    let pk = &key.pk;
    let n = c.n;
    let hidden: Vec<usize> = if c.hidden_list.is_empty() { (0..n.min(8)).filter(|i| c.hidden_mask >> i & 1 == 1).collect() } else { c.hidden_list.clone() };
    let cj = |d: Value| json!({"case": c, "key": key.id, "hidden": hidden, "detail": d});
    let mut st = (c.seed as u64) << 6 | 1;
    let vals: Vec<Integer> = (0..n).map(|i| attr(c.classes[i % c.classes.len()], &mut st)).collect();
    let mut vals = vals;
    if c.eq_hidden && hidden.len() >= 2 {
        let first = vals[hidden[0]].clone();
        for &i in &hidden[1..] {
            vals[i] = first.clone();
        }
        rep.class("equal-hidden-values");
    }
    let h = match honest::<CS>(key, n, &hidden, vals.clone(), c.via_blind) {
        Ok(h) => h,
        Err(e) => return rep.fail(ck, "honest-generation-failed", format!("hidden {:?} of {}: {}", hidden, n, e), cj(json!(null))),
    };
    // a verification that is refused by a panic is followed at once by the honest verification on the same thread:
    // what the aborted call leaves behind (a scratch buffer filled half way, a lock) must not reach the next call
    let stale_after_panic = std::cell::Cell::new(false);
    let panics_followed_up = std::cell::Cell::new(0u32);
    let ver = |p: &PoKSignature<CL03<CS>>, cpk: &CL03CommitmentPublicKey, k: &CL03PublicKey, bs: &Bases, rev: &[CL03Message], hid: &[usize], nn: usize| {
        match catch(|| p.proof_verify(cpk, k, bs, rev, hid, nn)) {
            Ok(b) => b,
            Err(_) => {
                if panics_followed_up.get() < 12 {
                    panics_followed_up.set(panics_followed_up.get() + 1);
                    if !catch(|| h.proof.proof_verify(&h.cpk, pk, &h.bases, &h.revealed, &hidden, n)).unwrap_or(false) {
                        stale_after_panic.set(true);
                    }
                }
                false
            }
        }
    };

    // ---- positive -----------------------------------------------------------------------------
    rep.eval(ck, 1);
    if !ver(&h.proof, &h.cpk, pk, &h.bases, &h.revealed, &hidden, n) {
        return rep.fail(ck, "honest-signature-proof-rejected", format!("proof_verify is false for hidden set {:?} of {} attributes (signature via blind issuance: {})", hidden, n, c.via_blind), cj(json!(null)));
    }
    let pj = serde_json::to_value(&h.proof).unwrap();
    rep.eval(ck, 1);
    match serde_json::from_value::<PoKSignature<CL03<CS>>>(pj.clone()) {
        Ok(p2) if p2 == h.proof => {}
        _ => return rep.fail(ck, "proof-json-roundtrip", "the proof does not survive serde_json".into(), cj(json!(null))),
    }

    // the flow with every object crossing a wire between the steps (every second case): the signature through its
    // octets and through JSON, key, bases and commitment key through JSON, then a proof from the decoded copies,
    // itself through JSON, verified with the decoded key material
    if c.seed % 2 == 1 {
        let wire = || -> Option<bool> {
            let sig_b = Signature::<CL03<CS>>::from_bytes(&h.sig.to_bytes());
            let sig_j: Signature<CL03<CS>> = serde_json::from_str(&serde_json::to_string(&sig_b).ok()?).ok()?;
            let pk_j: CL03PublicKey = serde_json::from_str(&serde_json::to_string(pk).ok()?).ok()?;
            let cpk_j: CL03CommitmentPublicKey = serde_json::from_str(&serde_json::to_string(&h.cpk).ok()?).ok()?;
            let bases_j: Bases = serde_json::from_str(&serde_json::to_string(&h.bases).ok()?).ok()?;
            let msgs_j: Vec<CL03Message> = serde_json::from_str(&serde_json::to_string(&h.msgs).ok()?).ok()?;
            let p = PoKSignature::<CL03<CS>>::proof_gen(sig_j.cl03Signature(), &cpk_j, &pk_j, &bases_j, &msgs_j, &hidden);
            let p_j: PoKSignature<CL03<CS>> = serde_json::from_str(&serde_json::to_string(&p).ok()?).ok()?;
            let revealed_j: Vec<CL03Message> = (0..n).filter(|i| !hidden.contains(i)).map(|i| msgs_j[i].clone()).collect();
            Some(p_j.proof_verify(&cpk_j, &pk_j, &bases_j, &revealed_j, &hidden, n))
        };
        rep.eval(ck, 1);
        match catch(wire) {
            Ok(Some(true)) => rep.class("flow-with-objects-through-json-between-steps"),
            Ok(Some(false)) => return rep.fail(ck, "honest-signature-proof-rejected:objects-through-json", format!("with signature, keys, bases and proof serialised and decoded between the steps the honest proof is refused (hidden {:?} of {})", hidden, n), cj(json!(null))),
            Ok(None) => return rep.fail(ck, "json-roundtrip-mid-flow", "an object of the flow does not survive serde_json".into(), cj(json!(null))),
            Err(e) => return rep.fail(ck, "honest-generation-failed", format!("flow with objects through JSON: {}", e), cj(json!(null))),
        }
    }
    // ---- negative ------------------------------------------------------------------------------
    let reject = |family: &str, acc: bool, detail: String| -> CheckResult {
        rep.eval(ck, 1);
        if stale_after_panic.get() {
            return rep.fail(ck, "honest-signature-proof-rejected-right-after-a-panicking-refusal", format!("the verification under {} ({}) was refused by a panic; the honest proof verified next on the same thread is refused", family, detail), cj(json!({"family": family, "detail": detail})));
        }
        if acc {
            return rep.fail(ck, &format!("accepted:{}", family), format!("proof_verify is true ({}): {}", family, detail), cj(json!({"family": family, "detail": detail})));
        }
        Ok(())
    };
    for k in 0..h.revealed.len() {
        for (tag, nv) in [("+1", (&h.revealed[k].value + 1u32).complete()), ("random", attr_random(&mut st))] {
            let mut r2 = h.revealed.clone();
            r2[k] = CL03Message::new(nv);
            reject("revealed-attribute-changed", ver(&h.proof, &h.cpk, pk, &h.bases, &r2, &hidden, n), format!("revealed #{} {}", k, tag))?;
        }
    }
    if h.revealed.len() >= 2 && h.revealed[0] != h.revealed[1] {
        let mut r2 = h.revealed.clone();
        r2.swap(0, 1);
        reject("revealed-attributes-swapped", ver(&h.proof, &h.cpk, pk, &h.bases, &r2, &hidden, n), "0 <-> 1".into())?;
    }
    let other = &keys[(pick(c.key, keys.len()) + 1) % keys.len()];
    if other.pk.N != pk.N {
        reject("other-signer-key", ver(&h.proof, &h.cpk, &other.pk, &h.bases, &h.revealed, &hidden, n), other.id.clone())?;
    }
    {
        let mut pk2 = pk.clone();
        pk2.b = (&pk.b * &pk.b).complete() % &pk.N;
        reject("other-signer-key:b-changed", ver(&h.proof, &h.cpk, &pk2, &h.bases, &h.revealed, &hidden, n), "b := b^2".into())?;
        let mut pk3 = pk.clone();
        pk3.c = (&pk.c * &pk.b).complete() % &pk.N;
        reject("other-signer-key:c-changed", ver(&h.proof, &h.cpk, &pk3, &h.bases, &h.revealed, &hidden, n), "c := c*b".into())?;
    }
    // bases only enter through attributes; with an all-zero revealed part and nothing hidden they do not matter
    if !hidden.is_empty() || h.vals.iter().any(|x| *x != 0) {
        reject("other-bases", ver(&h.proof, &h.cpk, pk, &Bases::generate(pk, n), &h.revealed, &hidden, n), "fresh bases".into())?;
    }
    reject("other-commitment-key", ver(&h.proof, &CL03CommitmentPublicKey::generate::<CS>(Some(pk.N.clone()), Some(n)), pk, &h.bases, &h.revealed, &hidden, n), "fresh commitment key over the issuer modulus".into())?;
    // single-field edits of the key material the verifier is given: each element that enters the statement, one at
    // a time (the commitment key's modulus, h, g_0 - used for the proof on e - and the g_i of hidden positions; the
    // signer's modulus; every base a_i whose attribute is hidden or non-zero)
    {
        let sq = |x: &Integer, m: &Integer| (x * x).complete() % m;
        let mut k1 = h.cpk.clone();
        k1.N = (&k1.N + 2u32).complete();
        reject("commitment-key-field-changed:N", ver(&h.proof, &k1, pk, &h.bases, &h.revealed, &hidden, n), "N + 2".into())?;
        let mut k1b = h.cpk.clone();
        k1b.N = (&k1b.N - 2u32).complete();
        reject("commitment-key-field-changed:N", ver(&h.proof, &k1b, pk, &h.bases, &h.revealed, &hidden, n), "N - 2".into())?;
        let mut k2 = h.cpk.clone();
        k2.h = sq(&k2.h, &k2.N);
        reject("commitment-key-field-changed:h", ver(&h.proof, &k2, pk, &h.bases, &h.revealed, &hidden, n), "h := h^2".into())?;
        for i in std::iter::once(0usize).chain(hidden.iter().cloned().filter(|&i| i != 0)) {
            let mut k3 = h.cpk.clone();
            k3.g_bases[i] = sq(&k3.g_bases[i], &k3.N);
            reject("commitment-key-field-changed:g_i", ver(&h.proof, &k3, pk, &h.bases, &h.revealed, &hidden, n), format!("g_{} := g_{}^2", i, i))?;
        }
        let mut pk4 = pk.clone();
        pk4.N = (&pk4.N + 2u32).complete();
        reject("other-signer-key:N-changed", ver(&h.proof, &h.cpk, &pk4, &h.bases, &h.revealed, &hidden, n), "N + 2".into())?;
        for i in 0..n {
            if hidden.contains(&i) || h.vals[i] != 0 {
                let mut b5 = h.bases.clone();
                b5.0[i] = sq(&b5.0[i], &pk.N);
                reject("base-changed", ver(&h.proof, &h.cpk, pk, &b5, &h.revealed, &hidden, n), format!("a_{} := a_{}^2", i, i))?;
            }
        }
    }
    if let Some(other_set) = other_set_same_size(n, &hidden) {
        // the same number of revealed values, claimed at other positions
        reject("other-hidden-set", ver(&h.proof, &h.cpk, pk, &h.bases, &h.revealed, &other_set, n), format!("{:?} instead of {:?}", other_set, hidden))?;
    }
    // hidden-position set extended: positions beyond n (appended / prepended), an extra in-range position
    {
        let mut variants: Vec<(String, Vec<usize>)> = vec![];
        for extra in [n, n + 1, n + 7, 1000] {
            let mut u2 = hidden.clone();
            u2.push(extra);
            variants.push((format!("appended out-of-range position {}", extra), u2));
            let mut u3 = vec![extra];
            u3.extend(hidden.iter().cloned());
            variants.push((format!("prepended out-of-range position {}", extra), u3));
        }
        if let Some(&r) = (0..n).filter(|i| !hidden.contains(i)).collect::<Vec<_>>().first() {
            let mut u2 = hidden.clone();
            u2.push(r);
            variants.push((format!("appended revealed position {}", r), u2));
        }
        // (a repeated or re-ordered list denotes the same SET of positions: not demanded to be rejected)
        for (what, u2) in variants {
            reject("hidden-set-list-altered", ver(&h.proof, &h.cpk, pk, &h.bases, &h.revealed, &u2, n), what)?;
        }
    }
    {
        // n + 1 / n - 1 (with key material for the extra position so that only the statement differs)
        let mut b2 = h.bases.clone();
        b2.0.push(Bases::generate(pk, 1).0[0].clone());
        let cpk2 = {
            let mut k2 = h.cpk.clone();
            k2.g_bases.push(CL03CommitmentPublicKey::generate::<CS>(Some(pk.N.clone()), Some(1)).g_bases[0].clone());
            k2
        };
        let mut r2 = h.revealed.clone();
        r2.push(CL03Message::new(attr_random(&mut st)));
        reject("n+1", ver(&h.proof, &cpk2, pk, &b2, &r2, &hidden, n + 1), "one more (revealed) attribute claimed".into())?;
        reject("n+1", ver(&h.proof, &h.cpk, pk, &h.bases, &h.revealed, &hidden, n + 1), "n + 1 with the same lists".into())?;
        // the verifier's key material has spare entries (an issuer that published more bases than this credential
        // uses) and the revealed list is the true one: a count above n must still be refused
        reject("n+1", ver(&h.proof, &cpk2, pk, &b2, &h.revealed, &hidden, n + 1), "n + 1 with spare bases and the true revealed list".into())?;
        {
            let mut b3 = b2.clone();
            b3.0.extend(Bases::generate(pk, 2).0);
            let mut k3 = cpk2.clone();
            k3.g_bases.extend(CL03CommitmentPublicKey::generate::<CS>(Some(pk.N.clone()), Some(2)).g_bases);
            reject("n+1", ver(&h.proof, &k3, pk, &b3, &h.revealed, &hidden, n + 3), "n + 3 with spare bases and the true revealed list".into())?;
            // with spare key material and the true count the proof is still the honest one
            rep.eval(ck, 1);
            if !ver(&h.proof, &k3, pk, &b3, &h.revealed, &hidden, n) {
                rep.class("spare-bases-not-accepted-by-verifier");
            } else {
                rep.class("spare-bases-accepted-by-verifier");
            }
        }
        if n >= 2 {
            let last_hidden = hidden.contains(&(n - 1));
            let r3: Vec<CL03Message> = if last_hidden { h.revealed.clone() } else { h.revealed[..h.revealed.len() - 1].to_vec() };
            let h3: Vec<usize> = hidden.iter().cloned().filter(|&i| i < n - 1).collect();
            // dropping a trailing attribute equal to 0 that is revealed leaves the statement unchanged
            if last_hidden || h.vals[n - 1] != 0 {
                reject("n-1", ver(&h.proof, &h.cpk, pk, &h.bases, &r3, &h3, n - 1), "last attribute dropped from the statement".into())?;
            }
        }
    }
    // range_proof_e replaced by an honest range proof made for another commitment
    {
        let min_e = Integer::from(2).pow(CS::le - 1) + 1u32;
        let max_e = Integer::from(2).pow(CS::le) - 1u32;
        let e2 = (&min_e + 12345u32).complete();
        let com2 = Commitment::<CL03<CS>>::commit_with_commitment_pk(&[CL03Message::new(e2.clone())], &h.cpk, None);
        let rp = Boudot2000RangeProof::prove::<CS::HashAlg>(&e2, com2.cl03Commitment(), &h.cpk.g_bases[0], &h.cpk.h, &h.cpk.N, &min_e, &max_e);
        let mut j = pj.clone();
        j["CL03"]["range_proof_e"] = serde_json::to_value(&rp).unwrap();
        if let Ok(p2) = serde_json::from_value::<PoKSignature<CL03<CS>>>(j) {
            reject("range-proof-e-for-another-commitment", ver(&p2, &h.cpk, pk, &h.bases, &h.revealed, &hidden, n), "honest range proof over a different commitment".into())?;
        }
        // ... and the same range proof transplanted onto the commitment Ce of this proof
        let params = crate::props::c16::Params { n: h.cpk.N.clone(), g: h.cpk.g_bases[0].clone(), h: h.cpk.h.clone(), id: String::new() };
        let ce = int_of(&pj["CL03"]["spok"]["Ce"]["value"]).unwrap();
        for ow in [false, true] {
            let tj = crate::props::c16::transplant(&params, &serde_json::to_value(&rp).unwrap(), &ce, &min_e, &max_e, ow);
            let mut j = pj.clone();
            j["CL03"]["range_proof_e"] = tj;
            if let Ok(p2) = serde_json::from_value::<PoKSignature<CL03<CS>>>(j) {
                reject("range-proof-e-transplanted-onto-Ce", ver(&p2, &h.cpk, pk, &h.bases, &h.revealed, &hidden, n), format!("sub-proofs of a range proof for another value, E := Ce (square E overwritten: {})", ow))?;
            }
        }
    }
    // whole sub-proofs exchanged with those of a second honest proof: same key, bases, commitment key, positions
    // and revealed values, other hidden values (hence another signature).  Every composite node of the serialised
    // proof is one unit; a unit that differs must not fit into the first proof.
    if c.seed % 2 == 0 || c.leaf_edits == 0 {
        let mut vals2 = vals.clone();
        for &i in &hidden {
            vals2[i] = attr_random(&mut st);
        }
        let msgs2: Vec<CL03Message> = vals2.iter().cloned().map(CL03Message::new).collect();
        let sig2 = Signature::<CL03<CS>>::sign_multiattr(pk, &key.sk, &h.bases, &msgs2);
        if let Ok(p2) = catch(|| PoKSignature::<CL03<CS>>::proof_gen(sig2.cl03Signature(), &h.cpk, pk, &h.bases, &msgs2, &hidden)) {
            if ver(&p2, &h.cpk, pk, &h.bases, &h.revealed, &hidden, n) {
                let pj2 = serde_json::to_value(&p2).unwrap();
                for path in composite_nodes(&pj) {
                    let (Some(a), Some(b)) = (pj.pointer(&path), pj2.pointer(&path)) else { continue };
                    if a == b {
                        continue;
                    }
                    let mut j3 = pj.clone();
                    *j3.pointer_mut(&path).unwrap() = b.clone();
                    let Ok(p3) = serde_json::from_value::<PoKSignature<CL03<CS>>>(j3) else { continue };
                    rep.class_n("sub-proofs-exchanged", 1);
                    reject(&format!("sub-proof-of-another-proof:{}", generic_path(&path)), ver(&p3, &h.cpk, pk, &h.bases, &h.revealed, &hidden, n), format!("{} taken from an honest proof for other hidden values", path))?;
                }
            }
        }
    }
    // list shapes: entries dropped from the proof's lists (one list, two lists of the same length, all of them)
    for (tag, j3) in array_drop_edits(&pj) {
        let Ok(p3) = serde_json::from_value::<PoKSignature<CL03<CS>>>(j3) else { continue };
        rep.class_n("list-entries-dropped", 1);
        reject("shortened-lists", ver(&p3, &h.cpk, pk, &h.bases, &h.revealed, &hidden, n), tag)?;
    }
    // after the refused requests above (several refuse by panicking): the honest proof still verifies on this
    // thread, and so does a proof generated now
    rep.eval(ck, 2);
    if !ver(&h.proof, &h.cpk, pk, &h.bases, &h.revealed, &hidden, n) {
        return rep.fail(ck, "honest-signature-proof-rejected-after-a-refusal", format!("after the refused requests of this case the honest proof (hidden {:?} of {}) no longer verifies on the same thread", hidden, n), cj(json!({"after": "negative families"})));
    }
    match catch(|| PoKSignature::<CL03<CS>>::proof_gen(h.sig.cl03Signature(), &h.cpk, pk, &h.bases, &h.msgs, &hidden)) {
        Ok(p9) => {
            // this fresh object is FIRST offered with statements that are refused (another hidden list of another
            // length, another commitment key, another signer key), and only then with its own
            let shorter: Vec<usize> = hidden.iter().cloned().skip(1).collect();
            let longer: Vec<usize> = { let mut l2 = hidden.clone(); if let Some(x) = (0..n).find(|i| !hidden.contains(i)) { l2.push(x); l2.sort(); } l2 };
            let _ = ver(&p9, &h.cpk, pk, &h.bases, &h.revealed, &shorter, n);
            let _ = ver(&p9, &h.cpk, pk, &h.bases, &h.revealed, &longer, n);
            let _ = ver(&p9, &CL03CommitmentPublicKey::generate::<CS>(Some(pk.N.clone()), Some(n)), pk, &h.bases, &h.revealed, &hidden, n);
            if !ver(&p9, &h.cpk, pk, &h.bases, &h.revealed, &hidden, n) {
                return rep.fail(ck, "honest-signature-proof-rejected-after-a-refusal", format!("a proof generated after the refused requests of this case does not verify (hidden {:?} of {})", hidden, n), cj(json!({"after": "negative families", "generated": "after"})));
            }
        }
        Err(e) => return rep.fail(ck, "honest-generation-failed", format!("proof_gen after refused requests: {}", e), cj(json!(null))),
    }
    // every integer leaf
    let leaves = int_leaves(&pj);
    let edits = pick_edits(&leaves, c.leaf_edits, &mut st);
    if c.leaf_edits == 0 || c.leaf_edits >= leaves.len() * EDIT_KINDS as usize {
        rep.exhaustive("every integer leaf of a signature proof x {+1, -1, 0, sibling, high bit flipped, +2^k for k >= 128}".into());
    }
    for (li, e) in edits {
        let (path, val) = &leaves[li];
        let nv = edit_leaf(&leaves, li, e);
        if nv == *val {
            continue;
        }
        let mut j2 = pj.clone();
        set_leaf(&mut j2, path, &nv);
        let Ok(p2) = serde_json::from_value::<PoKSignature<CL03<CS>>>(j2) else { continue };
        rep.class_n("leaf-edits", 1);
        let tag = EDIT_TAGS[e as usize];
        rep.eval(ck, 1);
        if ver(&p2, &h.cpk, pk, &h.bases, &h.revealed, &hidden, n) {
            return rep.fail(
                ck,
                &format!("altered-field-still-verifies:{}", generic_path(path)),
                format!("signature proof with {} {} still verifies (hidden {:?} of {})", path, tag, hidden, n),
                cj(json!({"leaf": path, "edit": tag})),
            );
        }
    }

    if !(n == 3 && hidden == [0]) {
        rep.nontrivial(ck, &json!({"c": c, "key": key.id}));
    }
    rep.class(&format!("n={},|U|={}", n, hidden.len()));
    if c.via_blind && !hidden.is_empty() {
        rep.class("signature-via-blind-issuance");
    }
    rep.sample(ck, json!({"key": key.id, "n": n, "hidden": hidden, "leaves": leaves.len()}));
    Ok(())
}

pub fn run(ctx: &Ctx, rep: &Report) -> Meta {
    let suite = ClSuite::CL1024;
    let keys = key_pool(suite, ctx.tier.pick(2, 4), ctx.tier.pick(4, 8), ctx.seed);
    let nmax = ctx.tier.pick(3usize, 5usize);
    let mut fixed = vec![];
    let mut k = 0u32;
    for n in 1..=nmax {
        for mask in 0u8..(1 << n) {
            k += 1;
            fixed.push(Case { key: (k * 9973) as u16, n, hidden_mask: mask, classes: vec![5, 4, (k % 6) as u8, 5, 5], via_blind: k % 4 == 0, seed: (ctx.seed as u32).wrapping_add(k), leaf_edits: ctx.tier.pick(24, 0), hidden_list: vec![], eq_hidden: mask.count_ones() >= 2 && k % 2 == 1 });
        }
    }
    for n in [6usize, 8] {
        for mask in [1u8, 1 << (n - 1), ((1u16 << n) - 1) as u8, 0b10101010 & (((1u16 << n) - 1) as u8), 0b00100100] {
            k += 1;
            let mut c = fixed[0].clone();
            c.key = (k * 9973) as u16;
            c.n = n;
            c.hidden_mask = mask;
            c.seed = (ctx.seed as u32).wrapping_add(500 + k);
            fixed.push(c);
        }
    }
    par_items(ctx, rep, "every-hidden-set", &fixed, |c| with_cl!(suite, CS => check_one::<CS>(rep, "every-hidden-set", c, &keys)));
    if !rep.aborted() {
        rep.exhaustive(format!("every hidden set (including none and all) for n = 1..={}", nmax));
    }
    let le = ctx.tier.pick(40usize, 120usize);
    // every attribute count 9..=24 (quick) / 9..=48 (thorough) with two or three hidden positions including the last
    let sweep: Vec<Case> = (9..=ctx.tier.pick(24usize, 48usize))
        .map(|n| Case { key: (n * 131) as u16, n, hidden_mask: 0, classes: vec![5, 4, (n % 6) as u8, 5, 5], via_blind: n % 5 == 0, seed: (ctx.seed as u32).wrapping_add(7000 + n as u32), leaf_edits: 8, hidden_list: if n % 2 == 0 { vec![0, n - 1] } else { vec![1, n / 2, n - 1] }, eq_hidden: n % 4 == 1 })
        .collect();
    par_items(ctx, rep, "attribute-count-sweep", &sweep, |c| with_cl!(suite, CS => check_one::<CS>(rep, "attribute-count-sweep", c, &keys)));
    // volume: many honest proofs of the cheapest shapes (one attribute revealed; one of two hidden), each verified.
    // A verifier or prover that mishandles a value occurring once in a few hundred proofs (a challenge or response
    // with a leading zero octet, a carry) refuses an honest proof only then
    {
        let total = ctx.tier.pick(1400usize, 12000usize);
        let per = total / 16;
        let ws: Vec<usize> = (0..16).collect();
        par_items(ctx, rep, "volume", &ws, |&w| {
            with_cl!(suite, CS => {
                let key = &keys[w % keys.len()];
                let pk = &key.pk;
                let mut st = ctx.seed ^ ((w as u64) << 32) | 5;
                for shape in 0..2usize {
                    let (n, hidden): (usize, Vec<usize>) = if shape == 0 { (1, vec![]) } else { (2, vec![1]) };
                    let vals: Vec<Integer> = (0..n).map(|_| attr_random(&mut st)).collect();
                    let h = honest::<CS>(key, n, &hidden, vals, false).map_err(|e| Fail { check: "volume".into(), site: "honest-generation-failed".into(), msg: e, case: json!({"worker": w}) })?;
                    let count = if shape == 0 { per * 4 / 5 } else { per / 5 };
                    for k in 0..count {
                        if rep.aborted() {
                            return Ok(());
                        }
                        let p = match catch(|| PoKSignature::<CL03<CS>>::proof_gen(h.sig.cl03Signature(), &h.cpk, pk, &h.bases, &h.msgs, &hidden)) {
                            Ok(p) => p,
                            Err(e) => return rep.fail("volume", "honest-generation-failed", format!("proof_gen #{}: {}", k, e), json!({"worker": w, "shape": shape})),
                        };
                        rep.eval("volume", 1);
                        if !catch(|| p.proof_verify(&h.cpk, pk, &h.bases, &h.revealed, &hidden, n)).unwrap_or(false) {
                            return rep.fail("volume", "honest-signature-proof-rejected", format!("honest proof #{} of worker {} (n = {}, hidden {:?}) is refused; proof: {}", k, w, n, hidden, truncate(&serde_json::to_string(&p).unwrap_or_default(), 400)), json!({"volume": {"pk": serde_json::to_value(pk).unwrap_or(json!(null)), "cpk": serde_json::to_value(&h.cpk).unwrap_or(json!(null)), "bases": serde_json::to_value(&h.bases).unwrap_or(json!(null)),
                                "revealed": serde_json::to_value(&h.revealed).unwrap_or(json!(null)), "hidden": hidden, "n": n, "proof": serde_json::to_value(&p).unwrap_or(json!(null))}}));
                        }
                    }
                }
                rep.nontrivial("volume", &json!({"worker": w}));
                Ok(())
            })
        });
    }
    run_cases(ctx, rep, "presentations", ctx.tier.pick(32, 300), 30, || strat(nmax.max(4), le), |c| with_cl!(suite, CS => check_one::<CS>(rep, "presentations", c, &keys)));
    if ctx.tier == Tier::Thorough && !rep.aborted() {
        for (s2, nfix) in [(ClSuite::CL2048, 3usize), (ClSuite::CL3072, 2)] {
            let keys2 = key_pool(s2, 0, nfix, ctx.seed);
            if keys2.is_empty() {
                continue;
            }
            let ckn = format!("presentations-{}", s2.name());
            run_cases(ctx, rep, &ckn, 16, 10, || strat(3, 12), |c| with_cl!(s2, CS => check_one::<CS>(rep, &ckn, c, &keys2)));
        }
    }
    Meta {
        rule: "signer key from a pool, n attributes, EVERY hidden set (none ... all) for n = 1..3 (quick) / 1..5 (thorough) plus generated cases, signatures issued directly and through blind issuance, commitment key over the issuer modulus; \
               positive: proof_verify true with the revealed attributes in index order, proof survives JSON, in every second case the whole flow is repeated with signature (octets and JSON), keys, bases, commitment key, attributes and proof serialised and decoded between the steps; negative: every revealed attribute changed, swaps, other signer key (also b or c alone changed), other bases, other commitment key, single-field edits of the key material (commitment key N +- 2, h, g_0 and the g_i of hidden positions squared; signer N + 2; every base a_i that matters squared), \
               list shapes (the last / first entry dropped from every list of the serialised proof, from every two lists of equal length, from all of them), every verification that is refused by a panic followed at once by the honest verification on the same thread (up to 12 per case), another hidden set of the same size, n+1 / n-1 (also n+1 and n+3 against key material with spare bases and the true revealed list), range_proof_e replaced by an honest range proof for another commitment, every composite node of the serialised proof replaced by the node at the same path of a second honest proof for other hidden values (same key, bases, commitment key, positions; every second case), and integer leaves of the serialised proof perturbed by +1, -1, := 0, := sibling, one high bit flipped, +2^k for k in {128, 160, 256, 300} \
               (24-40 sampled perturbations per proof in quick, every leaf in thorough's fixed list); hidden-position list extended by positions >= n (appended, prepended) and by a revealed position, an honest range proof for another value transplanted onto Ce, n = 6 and 8, volume: 1400 (quick) / 12000 (thorough) honest proofs of the cheapest shapes each verified, every attribute count 9..=24 (quick) / 9..=48 (thorough) with two or three hidden positions including the last; after the negative families the honest proof and a freshly generated one verify again on the same thread; a refusal by panic counts as not verifying; non-trivial = (n, U) != (3, {0}); evaluations = verifier decisions"
            .into(),
        assumptions: vec!["CL2048/CL3072 in thorough only (fixture primes)".into()],
    }
}

pub fn replay(ctx: &Ctx, rep: &Report, ck: &str, case: &Value) -> CheckResult {
    if ck == "volume" {
        let v = &case["volume"];
        let perr = |m: &str| Fail { check: ck.into(), site: "replay-parse".into(), msg: m.into(), case: json!(null) };
        let pk: CL03PublicKey = serde_json::from_value(v["pk"].clone()).map_err(|_| perr("pk"))?;
        let cpk: CL03CommitmentPublicKey = serde_json::from_value(v["cpk"].clone()).map_err(|_| perr("cpk"))?;
        let bases: Bases = serde_json::from_value(v["bases"].clone()).map_err(|_| perr("bases"))?;
        let revealed: Vec<CL03Message> = serde_json::from_value(v["revealed"].clone()).map_err(|_| perr("revealed"))?;
        let hidden: Vec<usize> = serde_json::from_value(v["hidden"].clone()).map_err(|_| perr("hidden"))?;
        let n = v["n"].as_u64().ok_or_else(|| perr("n"))? as usize;
        let p: PoKSignature<CL03<CL1024Sha256>> = serde_json::from_value(v["proof"].clone()).map_err(|_| perr("proof"))?;
        return if catch(|| p.proof_verify(&cpk, &pk, &bases, &revealed, &hidden, n)).unwrap_or(false) { Ok(()) } else { Err(Fail { check: ck.into(), site: "honest-signature-proof-rejected".into(), msg: "the recorded honest proof is refused".into(), case: json!({"volume": "see file"}) }) };
    }
    let c: Case = serde_json::from_value(case["case"].clone()).map_err(|e| Fail { check: ck.into(), site: "replay-parse".into(), msg: e.to_string(), case: case.clone() })?;
    let keys = key_pool(ClSuite::CL1024, 0, 3, ctx.seed);
    check_one::<CL1024Sha256>(rep, ck, &c, &keys)
}
