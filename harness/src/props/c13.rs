//! C13 — CL03 signatures: issued ones verify, nothing else does.

use crate::cl::*;
use crate::clmath;
use crate::engine::*;
use crate::gen::{pick, splitmix};
use crate::with_cl;
use proptest::prelude::*;
use rug::{Complete, Integer};
use serde::{Deserialize, Serialize};
use serde_json::{json, Value};

#[derive(Clone, Debug, Serialize, Deserialize)]
pub struct Case {
    pub key: u16,
    pub n: usize,
    pub classes: Vec<u8>,
    pub seed: u32,
}

fn strat() -> impl Strategy<Value = Case> {
    (any::<u16>(), 1usize..=5, prop::collection::vec(0u8..6, 5), any::<u32>()).prop_map(|(key, n, classes, seed)| Case { key, n, classes, seed })
}

fn sig_fields<CS: CLCiphersuite>(sig: &Signature<CL03<CS>>) -> (Integer, Integer, Integer) {
    let v = serde_json::to_value(sig).unwrap();
    (int_of(&v["CL03"]["e"]).unwrap(), int_of(&v["CL03"]["s"]).unwrap(), int_of(&v["CL03"]["v"]).unwrap())
}

fn sig_from<CS: CLCiphersuite>(e: &Integer, s: &Integer, v: &Integer) -> Signature<CL03<CS>> {
    serde_json::from_value(json!({"CL03": {"e": int_val(e), "s": int_val(s), "v": int_val(v)}})).unwrap()
}

fn check_one<CS: CLCiphersuite>(rep: &Report, ck: &str, c: &Case, keys: &[ClKey]) -> CheckResult {
    let key = &keys[pick(c.key, keys.len())];
    let (pk, sk) = (&key.pk, &key.sk);
    let cj = |d: Value| json!({"case": c, "key": key.id, "detail": d});
    let mut st = (c.seed as u64) << 5 | 1;
    let n = c.n;
    let bases = Bases::generate(pk, n);
    let vals: Vec<Integer> = (0..n).map(|i| attr(c.classes[i % c.classes.len()], &mut st)).collect();
    let msgs: Vec<CL03Message> = vals.iter().cloned().map(CL03Message::new).collect();
    let nn = &pk.N;
    let two_lm = Integer::from(1) << CS::lm;

    let sig = Signature::<CL03<CS>>::sign_multiattr(pk, sk, &bases, &msgs);
    let (e, s, v) = sig_fields::<CS>(&sig);
    // every signature of the run, on whatever thread, must have an exponent and an s of its own: two signatures
    // under one key with the same e give (v1^2/v2, 2 s1 - s2) for the never-signed 2 m1 - m2
    if let Some(which) = note_fresh(&e, &s) {
        return rep.fail(ck, &format!("signature-{}-repeats", which), format!("the {} of a fresh signature was already used by another signature of this run (generators shared between threads or calls?)", which), cj(json!({"e": e.to_string()})));
    }

    // ---- positive ----------------------------------------------------------------------------
    rep.eval(ck, 1);
    if !sig.verify_multiattr(pk, &bases, &msgs) {
        return rep.fail(ck, "issued-signature-rejected", format!("verify_multiattr is false for a fresh signature over {} attributes", n), cj(json!({"attributes": vals.iter().map(short).collect::<Vec<_>>()})));
    }
    // the CL03 equation itself, recomputed here: v^e = a_1^m_1 ... a_n^m_n * b^s * c (mod N), 0 < v < N
    // (a signer and a verifier that agree with each other on something else would otherwise go unnoticed)
    {
        rep.eval(ck, 1);
        let lhs = Integer::from(v.pow_mod_ref(&e, nn).unwrap());
        let mut rhs = Integer::from(pk.b.pow_mod_ref(&s, nn).unwrap()) * &pk.c % nn;
        for i in 0..n {
            rhs = rhs * Integer::from(bases.0[i].pow_mod_ref(&vals[i], nn).unwrap()) % nn;
        }
        if lhs != rhs || v <= 0 || v >= *nn {
            return rep.fail(ck, "issued-signature-violates-the-cl-equation", format!("v^e != prod a_i^m_i * b^s * c (mod N) or v outside (0, N) for a fresh signature over {} attributes (verify_multiattr accepts it)", n), cj(json!({"attributes": vals.iter().map(short).collect::<Vec<_>>()})));
        }
    }
    if n == 1 {
        let s1 = Signature::<CL03<CS>>::sign(pk, sk, &bases, &msgs[0]);
        rep.eval(ck, 2);
        if !s1.verify(pk, &bases, &msgs[0]) {
            return rep.fail(ck, "issued-signature-rejected:single", "verify is false for a fresh single-attribute signature".into(), cj(json!(null)));
        }
        if !s1.verify_multiattr(pk, &bases, &msgs) || !sig.verify(pk, &bases, &msgs[0]) {
            return rep.fail(ck, "single-vs-multi-disagree", "sign / sign_multiattr with one attribute are not interchangeable".into(), cj(json!(null)));
        }
    }
    // selective disclosure for all subsets
    let hidden_sets: Vec<Vec<usize>> = if n <= 5 {
        subsets(n)
    } else {
        vec![vec![], (0..n).collect(), vec![0], vec![n - 1], (0..n).step_by(2).collect(), (0..n).filter(|i| i % 3 == 1).collect(), vec![n / 2, n - 1]]
    };
    for u in hidden_sets {
        let (m2, b2) = sig.disclose_selectively(&msgs, bases.clone(), pk, &u);
        rep.eval(ck, 1);
        if !sig.verify_multiattr(pk, &b2, &m2) {
            return rep.fail(ck, "selective-disclosure-rejected", format!("hidden set {:?} of {}", u, n), cj(json!({"hidden": u})));
        }
        if !u.is_empty() {
            // the disclosed view must not verify with the original bases
            rep.eval(ck, 1);
            if vals.iter().enumerate().any(|(i, x)| u.contains(&i) && *x != 1) && sig.verify_multiattr(pk, &bases, &m2) {
                return rep.fail(ck, "accepted:disclosed-view-under-original-bases", format!("hidden set {:?}", u), cj(json!({"hidden": u})));
            }
        }
    }
    // the same subsets spelled as a caller may spell them: not in ascending order, with positions listed twice
    // (next to each other or apart).  The call may refuse such a list; a result it returns must verify.
    if n >= 2 {
        let a = (splitmix(&mut st) as usize) % n;
        let b = (a + 1 + (splitmix(&mut st) as usize) % (n - 1)) % n;
        let mut spellings: Vec<Vec<usize>> = vec![vec![b, a], vec![a, a], vec![a, b, a], vec![b, a, a, b]];
        if n >= 3 {
            let c3 = (0..n).find(|i| *i != a && *i != b).unwrap();
            spellings.push(vec![c3, a, b, c3]);
            spellings.push((0..n).rev().collect());
        }
        for u in spellings {
            rep.eval(ck, 1);
            if let Ok((m2, b2)) = catch(|| sig.disclose_selectively(&msgs, bases.clone(), pk, &u)) {
                if !sig.verify_multiattr(pk, &b2, &m2) {
                    return rep.fail(ck, "selective-disclosure-rejected:list-spelling", format!("hidden list {:?} of {} (same set, listed out of order / with repeats)", u, n), cj(json!({"hidden": u})));
                }
                rep.class("hide-list-with-repeats-or-unsorted");
            } else {
                rep.class("hide-list-with-repeats-refused");
            }
        }
    }
    if n <= 5 {
        rep.exhaustive(format!("disclose_selectively over all 2^n hidden sets, n = {}", n));
    }
    // codecs
    rep.eval(ck, 2);
    let b = sig.to_bytes();
    if Signature::<CL03<CS>>::from_bytes(&b) != sig {
        return rep.fail(ck, "signature-bytes-roundtrip", format!("from_bytes(to_bytes(sig)) != sig ({} octets)", b.len()), cj(json!(null)));
    }
    let js = serde_json::to_string(&sig).unwrap();
    if serde_json::from_str::<Signature<CL03<CS>>>(&js).ok().as_ref() != Some(&sig) {
        return rep.fail(ck, "signature-json-roundtrip", "serde_json round trip changes the signature".into(), cj(json!(null)));
    }
    // byte round trip of signatures with special component values (leading zero bytes, tiny, maximal)
    {
        let nbytes = ((CS::ln + 7) / 8) as usize;
        let mut specials: Vec<(&str, Integer)> = vec![
            ("v = 1", Integer::from(1)),
            ("v = 255", Integer::from(255)),
            ("v with one leading zero byte", (Integer::from(1) << (8 * (nbytes as u32 - 1))) - 1u32),
            ("v with two leading zero bytes", (Integer::from(1) << (8 * (nbytes as u32 - 2))) - 5u32),
            ("v = N - 1", (nn - 1u32).complete()),
        ];
        let mut rv = clmath::int_from_seed(&mut st, CS::ln - 12);
        rv.set_bit(CS::ln - 13, true);
        specials.push(("random v with a zero top byte", rv));
        for (what, v2) in specials {
            for (e2, s2) in [(e.clone(), s.clone()), (Integer::from(3), Integer::from(0)), ((Integer::from(1) << CS::le) - 1u32, (Integer::from(1) << CS::ls) - 1u32)] {
                let sg = sig_from::<CS>(&e2, &s2, &v2);
                rep.eval(ck, 1);
                let ok = catch(|| Signature::<CL03<CS>>::from_bytes(&sg.to_bytes()) == sg);
                match ok {
                    Ok(true) => {}
                    Ok(false) => return rep.fail(ck, "signature-bytes-roundtrip:special-values", format!("from_bytes(to_bytes(sig)) != sig for {}", what), cj(json!({"what": what}))),
                    Err(p) => return rep.fail(ck, "signature-bytes-roundtrip:special-values:panic", format!("byte round trip panics for {}: {}", what, p), cj(json!({"what": what}))),
                }
            }
        }
    }
    // e: prime of exactly le bits, coprime to the group order; s of exactly ls bits
    let phi = ((&sk.p - 1u32).complete()) * ((&sk.q - 1u32).complete());
    rep.eval(ck, 4);
    if !clmath::is_prime(&e) || e.is_probably_prime(30) == rug::integer::IsPrime::No {
        return rep.fail(ck, "e-not-prime", format!("e = {} is composite", e), cj(json!(null)));
    }
    if e.significant_bits() != CS::le {
        return rep.fail(ck, "e-wrong-length", format!("e has {} bits, configured {}", e.significant_bits(), CS::le), cj(json!(null)));
    }
    if clmath::gcd(&e, &phi) != 1 {
        return rep.fail(ck, "e-not-coprime-to-group-order", "gcd(e, (p-1)(q-1)) != 1".into(), cj(json!(null)));
    }
    if s.significant_bits() != CS::ls {
        return rep.fail(ck, "s-wrong-length", format!("s has {} bits, configured {}", s.significant_bits(), CS::ls), cj(json!(null)));
    }

    // ---- negative ----------------------------------------------------------------------------
    let mut families = 0;
    let mut reject = |family: &str, sg: &Signature<CL03<CS>>, ms: &[CL03Message], bs: &Bases, k: &CL03PublicKey, detail: String| -> CheckResult {
        rep.eval(ck, 1);
        families += 1;
        let acc = catch(|| sg.verify_multiattr(k, bs, ms)).unwrap_or(false);
        if acc {
            return rep.fail(ck, &format!("accepted:{}", family), format!("verify_multiattr accepts ({}): {}", family, detail), cj(json!({"family": family, "detail": detail})));
        }
        Ok(())
    };
    for i in 0..n {
        for (tag, nv) in [
            ("+1", (&vals[i] + 1u32).complete()),
            ("-1", (&vals[i] - 1u32).complete()),
            ("bit-flip", {
                let mut x = vals[i].clone();
                x.toggle_bit((splitmix(&mut st) % 256) as u32);
                x
            }),
            ("random", attr_random(&mut st)),
        ] {
            if nv == vals[i] {
                continue;
            }
            let mut m2 = msgs.clone();
            m2[i] = CL03Message::new(nv.clone());
            reject("attribute-changed", &sig, &m2, &bases, pk, format!("m[{}] {} -> {}", i, tag, short(&nv)))?;
        }
        // shift by multiples of e: (m_i + k e, v * a_i^k) -- derivable without the secret key
        for k in [1i32, 2, -1, -2] {
            let nm: Integer = &vals[i] + (&e * k).complete();
            let ak = if k >= 0 { Integer::from(bases.0[i].pow_mod_ref(&Integer::from(k), nn).unwrap()) } else { Integer::from(bases.0[i].pow_mod_ref(&Integer::from(k), nn).unwrap()) };
            let v2: Integer = (&v * ak) % nn;
            let forged = sig_from::<CS>(&e, &s, &v2);
            let mut m2 = msgs.clone();
            m2[i] = CL03Message::new(nm.clone());
            let class = if nm.cmp0() == std::cmp::Ordering::Less { "negative" } else if &nm >= &two_lm { "oversized" } else { "in-range" };
            reject(&format!("shift-by-e:{}", class), &forged, &m2, &bases, pk, format!("m[{}] + {}*e = {} with v * a_{}^{}", i, k, short(&nm), i, k))?;
            if n == 1 {
                rep.eval(ck, 1);
                if catch(|| forged.verify(pk, &bases, &m2[0])).unwrap_or(false) {
                    return rep.fail(ck, &format!("accepted:shift-by-e:{}:single", class), format!("verify accepts m + {}*e", k), cj(json!({"k": k})));
                }
            }
        }
    }
    for i in 0..n {
        for j in i + 1..n {
            if vals[i] != vals[j] {
                let mut m2 = msgs.clone();
                m2.swap(i, j);
                reject("attributes-swapped", &sig, &m2, &bases, pk, format!("{} <-> {}", i, j))?;
            }
        }
    }
    // a trailing attribute equal to 0 contributes a_n^0 = 1: the shorter vector is then the same
    // statement (inherent to the scheme, not demanded by the property); with a non-zero value the
    // shorter vector is "last attribute changed to 0" and must fail
    if n >= 2 && vals[n - 1] != 0 {
        reject("attribute-dropped", &sig, &msgs[..n - 1], &bases, pk, "last (non-zero) attribute dropped".into())?;
    }
    // single-field edits of (e, s, v)
    for (name, val) in [("e", &e), ("s", &s), ("v", &v)] {
        for (tag, nv) in [
            ("+1", (val + 1u32).complete()),
            ("-1", (val - 1u32).complete()),
            ("bit-flip", {
                let mut x = val.clone();
                x.toggle_bit((splitmix(&mut st) % val.significant_bits() as u64) as u32);
                x
            }),
            ("zero", Integer::from(0)),
            ("one", Integer::from(1)),
        ] {
            let forged = match name {
                "e" => sig_from::<CS>(&nv, &s, &v),
                "s" => sig_from::<CS>(&e, &nv, &v),
                _ => sig_from::<CS>(&e, &s, &nv),
            };
            reject(&format!("field-edit:{}", name), &forged, &msgs, &bases, pk, format!("{} {} ", name, tag))?;
        }
    }
    reject("fields-swapped", &sig_from::<CS>(&s, &e, &v), &msgs, &bases, pk, "e <-> s".into())?;
    reject("fields-swapped", &sig_from::<CS>(&e, &v, &s), &msgs, &bases, pk, "s <-> v".into())?;
    // trivial-exponent forgery: e = 1, v = prod a_i^m_i * b^s * c
    for s_f in [Integer::from(0), clmath::int_from_seed(&mut st, 300)] {
        let mut vf = Integer::from(1);
        for i in 0..n {
            vf = vf * Integer::from(bases.0[i].pow_mod_ref(&vals[i], nn).unwrap()) % nn;
        }
        vf = vf * Integer::from(pk.b.pow_mod_ref(&s_f, nn).unwrap()) % nn * &pk.c % nn;
        reject("trivial-exponent-forgery(e=1)", &sig_from::<CS>(&Integer::from(1), &s_f, &vf), &msgs, &bases, pk, "e = 1, v = prod a_i^m_i b^s c".into())?;
        // e = 2 with v a square root is not computable; e = 1 is the whole family without the key
    }
    // other bases / other key
    // bases only matter through a_i^m_i: all-zero vectors do not depend on them, and a vector of equal
    // values is invariant under a permutation of the bases
    let other_bases = Bases::generate(pk, n);
    if vals.iter().any(|x| *x != 0) {
        reject("other-bases", &sig, &msgs, &other_bases, pk, "freshly generated bases".into())?;
    }
    if n >= 2 && vals.iter().any(|x| *x != vals[0]) {
        let mut rot = bases.clone();
        rot.0.rotate_left(1);
        reject("bases-rotated", &sig, &msgs, &rot, pk, "bases rotated by one".into())?;
    }
    let other = &keys[(pick(c.key, keys.len()) + 1) % keys.len()];
    if other.pk.N != pk.N {
        reject("other-key", &sig, &msgs, &bases, &other.pk, other.id.clone())?;
    }
    let mut pk2 = pk.clone();
    pk2.c = (&pk.c * &pk.c).complete() % nn;
    reject("other-key:c-changed", &sig, &msgs, &bases, &pk2, "c := c^2".into())?;

    // the same signature object after all the refused statements: still valid for its own
    rep.eval(ck, 1);
    if !sig.verify_multiattr(pk, &bases, &msgs) {
        return rep.fail(ck, "issued-signature-rejected-after-refusals", "the same signature object no longer verifies for its own attributes after other statements were refused on it".into(), cj(json!(null)));
    }
    if n >= 2 || families > 0 {
        rep.nontrivial(ck, &json!({"c": c, "key": key.id}));
    }
    rep.class(&format!("n={}", n));
    rep.class(&format!("key:{}", key.origin));
    for i in 0..n {
        rep.class(&format!("attr-class:{}", c.classes[i % c.classes.len()] % 6));
    }
    rep.sample(ck, json!({"key": key.id, "n": n, "attributes": vals.iter().map(short).collect::<Vec<_>>(), "e_bits": e.significant_bits()}));
    Ok(())
}

/// run-wide record of the random components of every issued signature; returns which one repeats
fn note_fresh(e: &Integer, s: &Integer) -> Option<&'static str> {
    static SEEN: std::sync::Mutex<Option<(std::collections::HashSet<Integer>, std::collections::HashSet<Integer>)>> = std::sync::Mutex::new(None);
    let mut g = SEEN.lock().unwrap();
    let (es, ss) = g.get_or_insert_with(Default::default);
    if !es.insert(e.clone()) {
        return Some("exponent e");
    }
    if !ss.insert(s.clone()) {
        return Some("component s");
    }
    None
}

pub fn run_suite(ctx: &Ctx, rep: &Report, suite: ClSuite, n_gen: usize, n_fix: usize, cases: u32) {
    let keys = key_pool(suite, n_gen, n_fix, ctx.seed);
    if keys.is_empty() {
        rep.note(format!("{}: no key material available", suite.name()));
        return;
    }
    rep.note(format!("{}: {} keys ({} from generate(), {} from fixture primes)", suite.name(), keys.len(), n_gen, keys.len() - n_gen));
    let ck = format!("signatures-{}", suite.name());
    run_cases(ctx, rep, &ck, cases, 60, strat, |c| with_cl!(suite, CS => check_one::<CS>(rep, &ck, c, &keys)));
    // volume: a few thousand signatures over one or two attributes, each verified, taken through the byte codec
    // and verified again (a component with a leading zero octet, a rare carry, occurs once in a few hundred)
    if suite == ClSuite::CL1024 {
        let total = ctx.tier.pick(3200usize, 40000usize);
        let ws: Vec<usize> = (0..16).collect();
        let ck3 = format!("volume-{}", suite.name());
        par_items(ctx, rep, &ck3, &ws, |&w| {
            with_cl!(suite, CS => {
                let key = &keys[w % keys.len()];
                let (pk, sk) = (&key.pk, &key.sk);
                let bases = Bases::generate(pk, 2);
                let mut st = ctx.seed ^ ((w as u64) << 32) | 9;
                for k in 0..total / 16 {
                    if rep.aborted() {
                        break;
                    }
                    let n = 1 + k % 2;
                    let msgs: Vec<CL03Message> = (0..n).map(|i| CL03Message::new(attr((k + i) as u8 % 6 + if k % 3 == 0 { 0 } else { 4 }, &mut st))).collect();
                    let sig = Signature::<CL03<CS>>::sign_multiattr(pk, sk, &bases, &msgs);
                    {
                        let (e, s, _) = sig_fields::<CS>(&sig);
                        if let Some(which) = note_fresh(&e, &s) {
                            return rep.fail(&ck3, &format!("signature-{}-repeats", which), format!("signature #{} of worker {}: its {} was already used by another signature of this run", k, w, which), json!({"volume": {"key": key.id, "e": e.to_string()}}));
                        }
                    }
                    rep.eval(&ck3, 2);
                    let back = catch(|| Signature::<CL03<CS>>::from_bytes(&sig.to_bytes()));
                    let ok1 = sig.verify_multiattr(pk, &bases, &msgs);
                    let ok2 = back.as_ref().map(|b| *b == sig && b.verify_multiattr(pk, &bases, &msgs)).unwrap_or(false);
                    if !ok1 || !ok2 {
                        return rep.fail(&ck3, if !ok1 { "issued-signature-rejected" } else { "signature-bytes-roundtrip" }, format!("signature #{} of worker {} over {} attribute(s): verifies = {}, verifies after from_bytes(to_bytes()) = {}; signature: {}", k, w, n, ok1, ok2, truncate(&serde_json::to_string(&sig).unwrap_or_default(), 300)),
                            json!({"volume": {"key": key.id, "pk": serde_json::to_value(pk).unwrap_or(json!(null)), "bases": serde_json::to_value(&bases).unwrap_or(json!(null)), "signature": serde_json::to_value(&sig).unwrap_or(json!(null)), "messages": serde_json::to_value(&msgs).unwrap_or(json!(null))}}));
                    }
                }
                rep.nontrivial(&ck3, &json!({"worker": w}));
                Ok(())
            })
        });
    }
    // every attribute count in a contiguous range
    let sweep: Vec<Case> = (6..=ctx.tier.pick(24usize, 70usize)).map(|n| Case { key: (n * 7919) as u16, n, classes: vec![5, (n % 6) as u8, 4, 5, 2], seed: (ctx.seed as u32).wrapping_add(n as u32) }).collect();
    let ck2 = format!("attribute-count-sweep-{}", suite.name());
    par_items(ctx, rep, &ck2, &sweep, |c| with_cl!(suite, CS => check_one::<CS>(rep, &ck2, c, &keys)));
}

pub fn run(ctx: &Ctx, rep: &Report) -> Meta {
    run_suite(ctx, rep, ClSuite::CL1024, ctx.tier.pick(4, 8), ctx.tier.pick(4, 12), ctx.tier.pick(320, 3000));
    if ctx.tier == Tier::Thorough {
        run_suite(ctx, rep, ClSuite::CL2048, 0, 4, 200);
        run_suite(ctx, rep, ClSuite::CL3072, 0, 3, 100);
    }
    Meta {
        rule: "key from a pool (KeyPair::generate() keys and keys built from pre-computed safe primes through the public constructors), n = 1..5 attributes from {0, 1, 2^255, 2^256-1, SHA-256 of bytes, random 256-bit}, fresh bases; \
               positive: sign / sign_multiattr verify and satisfy the CL03 equation recomputed by the harness (v^e = prod a_i^m_i * b^s * c, 0 < v < N), disclose_selectively for ALL 2^n hidden sets verifies (and, for the same sets listed out of order or with repeated positions, whatever the call returns verifies; it may refuse), byte and JSON round trips, e prime (own Miller-Rabin + GMP) of exactly le bits coprime to (p-1)(q-1), s of exactly ls bits, e and s never repeated across the signatures of the whole run (all threads); \
               negative (attacker programs need no secret key): every attribute +-1 / bit flip / random, swaps, dropped attribute, shift by k*e with v*a_i^k for k in {1, 2, -1, -2} (oversized and negative attributes), \
               single-field edits of e, s, v (+-1, bit flip, 0, 1), field swaps, trivial-exponent forgery e = 1, other bases, rotated bases, other key; oracle: verify is false; \
               attribute-count sweep n = 6..=24 (quick) / 6..=70 (thorough); volume: 3200 (quick) / 40000 (thorough) signatures over one or two attributes, each verified before and after the byte codec; byte round trip of constructed signatures with tiny / maximal / leading-zero components; non-trivial = n >= 2 or a negative family executed; evaluations = verifications"
            .into(),
        assumptions: vec![
            "correlated re-randomisations (s + k*e, v*b^k) are not 'another attribute vector' and are not generated".into(),
            "CL2048 / CL3072 only in the thorough tier, with keys from pre-computed safe primes".into(),
        ],
    }
}

pub fn replay(ctx: &Ctx, rep: &Report, ck: &str, case: &Value) -> CheckResult {
    if ck.starts_with("volume") {
        let v = &case["volume"];
        let perr = |m: &str| Fail { check: ck.into(), site: "replay-parse".into(), msg: m.into(), case: json!(null) };
        let pk: CL03PublicKey = serde_json::from_value(v["pk"].clone()).map_err(|_| perr("pk"))?;
        let bases: Bases = serde_json::from_value(v["bases"].clone()).map_err(|_| perr("bases"))?;
        let msgs: Vec<CL03Message> = serde_json::from_value(v["messages"].clone()).map_err(|_| perr("messages"))?;
        let sig: Signature<CL03<CL1024Sha256>> = serde_json::from_value(v["signature"].clone()).map_err(|_| perr("signature"))?;
        let ok1 = sig.verify_multiattr(&pk, &bases, &msgs);
        let ok2 = catch(|| Signature::<CL03<CL1024Sha256>>::from_bytes(&sig.to_bytes())).map(|b| b == sig && b.verify_multiattr(&pk, &bases, &msgs)).unwrap_or(false);
        return if ok1 && ok2 { Ok(()) } else { Err(Fail { check: ck.into(), site: if !ok1 { "issued-signature-rejected".into() } else { "signature-bytes-roundtrip".into() }, msg: "the recorded signature fails again".into(), case: json!({"volume": "see file"}) }) };
    }
    let c: Case = serde_json::from_value(case["case"].clone()).map_err(|e| Fail { check: ck.into(), site: "replay-parse".into(), msg: e.to_string(), case: case.clone() })?;
    let suite = if ck.ends_with("CL2048") { ClSuite::CL2048 } else if ck.ends_with("CL3072") { ClSuite::CL3072 } else { ClSuite::CL1024 };
    // keys are regenerated: the failing relation does not depend on the particular key
    let keys = key_pool(suite, if suite == ClSuite::CL1024 { 1 } else { 0 }, 2, ctx.seed);
    with_cl!(suite, CS => check_one::<CS>(rep, ck, &c, &keys))
}
