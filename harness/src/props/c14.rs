//! C14 — CL03 blind issuance works for every hidden-attribute set and is gated.

use crate::cl::*;
use crate::engine::*;
use crate::gen::{pick, splitmix};
use crate::with_cl;
use proptest::prelude::*;
use rug::{Complete, Integer};
use serde::{Deserialize, Serialize};
use serde_json::{json, Value};

#[derive(Clone, Debug, Serialize, Deserialize)]
pub struct Case {
    pub key: u16,
    pub n: usize,
    /// non-empty hidden set as a bit mask over 0..n
    pub hidden_mask: u8,
    pub trusted: bool,
    pub classes: Vec<u8>,
    pub seed: u32,
    /// number of (leaf, edit) perturbations of the ZKPoK to try; 0 = all
    pub leaf_edits: usize,
    /// the issuer has published this many more bases than the credential has attributes
    #[serde(default)]
    pub spare: u8,
    /// explicit hidden positions (overrides hidden_mask; for attribute counts above 8)
    #[serde(default)]
    pub hidden_list: Vec<usize>,
    /// all hidden attributes carry the same value (the value of the first hidden one)
    #[serde(default)]
    pub eq_hidden: bool,
}

fn strat(nmax: usize, leaf_edits: usize) -> impl Strategy<Value = Case> {
    (any::<u16>(), 1usize..=nmax, 1u8..=31, prop::bool::weighted(0.3), prop::collection::vec(0u8..6, 5), any::<u32>(), prop::sample::select(vec![0u8, 0, 0, 1, 2, 3]))
        .prop_map(move |(key, n, hm, trusted, classes, seed, spare)| {
            let mask = (hm as usize % ((1 << n) - 1)) as u8 + 1; // 1 ..= 2^n - 1
            Case { key, n, hidden_mask: mask, trusted, classes, seed, leaf_edits, spare, hidden_list: vec![], eq_hidden: false }
        })
}

pub struct Ctxt {
    pub keys: Vec<ClKey>,
    /// trusted-party commitment key over its own modulus (5 bases)
    pub tp: Option<CL03CommitmentPublicKey>,
}

/// issuer-side outcome of blind_sign: Some(signature) or None (refused by panic, by design)
fn try_blind_sign<CS: CLCiphersuite>(
    key: &ClKey,
    bases: &Bases,
    zk: &ZKPoK<CL03<CS>>,
    revealed: &[CL03Message],
    c: &CL03Commitment,
    ct: Option<&CL03Commitment>,
    cpk: Option<&CL03CommitmentPublicKey>,
    hidden: &[usize],
    revealed_idx: &[usize],
) -> Option<BlindSignature<CL03<CS>>>
where
    CS::HashAlg: digest::Digest,
{
    catch(|| BlindSignature::<CL03<CS>>::blind_sign(&key.pk, &key.sk, bases, zk, Some(revealed), c, ct, cpk, hidden, Some(revealed_idx))).ok()
}

/// another set of hidden positions of the same size (first differing candidate in a cheap enumeration)
fn other_set_same_size(n: usize, hidden: &[usize]) -> Option<Vec<usize>> {
    if n <= 10 {
        return subsets(n).into_iter().find(|o| o.len() == hidden.len() && o != hidden);
    }
    // large n: move one hidden position to the next free position
    for (k, &h) in hidden.iter().enumerate() {
        for d in 1..n {
            let cand = (h + d) % n;
            if !hidden.contains(&cand) {
                let mut o = hidden.to_vec();
                o[k] = cand;
                o.sort();
                return Some(o);
            }
        }
    }
    None
}

fn check_one<CS: CLCiphersuite>(rep: &Report, ck: &str, c: &Case, cx: &Ctxt) -> CheckResult
where
    CS::HashAlg: digest::Digest,
{
    let key = &cx.keys[pick(c.key, cx.keys.len())];
    let pk = &key.pk;
    let n = c.n;
    let hidden: Vec<usize> = if c.hidden_list.is_empty() { (0..n.min(8)).filter(|i| c.hidden_mask >> i & 1 == 1).collect() } else { c.hidden_list.clone() };
    let revealed_idx: Vec<usize> = (0..n).filter(|i| !hidden.contains(i)).collect();
    let cj = |d: Value| json!({"case": c, "key": key.id, "hidden": hidden, "detail": d});
    let mut st = (c.seed as u64) << 6 | 1;
    let bases = Bases::generate(pk, n + c.spare as usize);
    let vals: Vec<Integer> = (0..n).map(|i| attr(c.classes[i % c.classes.len()], &mut st)).collect();
    let mut vals = vals;
    if c.eq_hidden && hidden.len() >= 2 {
        let first = vals[hidden[0]].clone();
        for &i in &hidden[1..] {
            vals[i] = first.clone();
        }
        rep.class("equal-hidden-values");
    }
    let msgs: Vec<CL03Message> = vals.iter().cloned().map(CL03Message::new).collect();
    let revealed: Vec<CL03Message> = revealed_idx.iter().map(|&i| msgs[i].clone()).collect();
    let use_tp = c.trusted && cx.tp.is_some();
    let tp = cx.tp.as_ref();

    // every second case: each step of the flow is preceded by a call the CL03 code refuses (on CL1024 objects of
    // its own), so that whatever an error path leaves behind on the thread meets the next honest step
    let interject = |step: u64| {
        if c.seed % 2 == 0 {
            rep.class(&format!("refused-call-before-step:{}", cl_refused_call((c.seed as u64 >> 1) + 3 * step)));
        }
    };
    interject(0);
    let commitment = Commitment::<CL03<CS>>::commit_with_pk(&msgs, pk, &bases, Some(&hidden));
    let cc = commitment.cl03Commitment().clone();
    interject(1);
    let trusted_c = if use_tp { Some(Commitment::<CL03<CS>>::commit_with_commitment_pk(&msgs, tp.unwrap(), Some(&hidden)).cl03Commitment().clone()) } else { None };
    let cpk = if use_tp { tp } else { None };

    let zk = match catch(|| ZKPoK::<CL03<CS>>::generate_proof(&msgs, &cc, trusted_c.as_ref(), pk, &bases, cpk, &hidden)) {
        Ok(z) => z,
        Err(p) => return rep.fail(ck, "generate-proof-panicked", format!("generate_proof for hidden set {:?} of {}: {}", hidden, n, p), cj(json!(null))),
    };
    // what the issuer receives: the commitment value only
    let c_issuer = CL03Commitment { value: cc.value.clone(), randomness: Integer::new() };
    let t_issuer = trusted_c.as_ref().map(|t| CL03Commitment { value: t.value.clone(), randomness: Integer::new() });

    // ---- positive ------------------------------------------------------------------------------
    interject(2);
    rep.eval(ck, 1);
    match catch(|| zk.verify_proof(&c_issuer, t_issuer.as_ref(), pk, &bases, cpk, &hidden)) {
        Ok(true) => {}
        Ok(false) => return rep.fail(ck, "honest-issuance-proof-rejected", format!("verify_proof is false for hidden set {:?} of {} attributes (trusted commitment: {})", hidden, n, use_tp), cj(json!(null))),
        Err(p) => return rep.fail(ck, "honest-issuance-proof-panicked", format!("verify_proof panicked for hidden set {:?} of {}: {}", hidden, n, p), cj(json!(null))),
    }
    // JSON round trip of what is sent
    rep.eval(ck, 1);
    let zk_json = serde_json::to_value(&zk).unwrap();
    match serde_json::from_value::<ZKPoK<CL03<CS>>>(zk_json.clone()) {
        Ok(z2) if z2 == zk => {}
        _ => return rep.fail(ck, "zkpok-json-roundtrip", "the proof does not survive serde_json".into(), cj(json!(null))),
    }
    // every object of the flow crosses a wire in practice: in every second case the proof, the issuer's key and bases,
    // the blind signature and the holder's commitment go through serde_json (and the signature through its octets)
    // between the steps, and the flow continues with the decoded copies
    let wire = c.seed % 2 == 1;
    macro_rules! through_json {
        ($ty:ty, $v:expr, $what:expr) => {
            if wire {
                match serde_json::to_string($v).ok().and_then(|t| serde_json::from_str::<$ty>(&t).ok()) {
                    Some(x) => Some(x),
                    None => return rep.fail(ck, &format!("json-roundtrip-mid-flow:{}", $what), format!("{} does not survive serde_json in the middle of the flow", $what), cj(json!(null))),
                }
            } else {
                None
            }
        };
    }
    let zk_w = through_json!(ZKPoK<CL03<CS>>, &zk, "issuance proof");
    let bases_w = through_json!(Bases, &bases, "bases");
    let pk_w = through_json!(CL03PublicKey, &key.pk, "issuer public key");
    let sk_w = through_json!(CL03SecretKey, &key.sk, "issuer secret key");
    let key_w = ClKey { suite: key.suite, pk: pk_w.unwrap_or_else(|| key.pk.clone()), sk: sk_w.unwrap_or_else(|| key.sk.clone()), id: key.id.clone(), origin: key.origin };
    interject(3);
    let bsig0 = match try_blind_sign::<CS>(&key_w, bases_w.as_ref().unwrap_or(&bases), zk_w.as_ref().unwrap_or(&zk), &revealed, &c_issuer, t_issuer.as_ref(), cpk, &hidden, &revealed_idx) {
        Some(s) => s,
        None => return rep.fail(ck, "blind-sign-refused-honest-proof", format!("blind_sign refused an honest proof for hidden set {:?} of {} (objects through JSON between the steps: {})", hidden, n, wire), cj(json!(null))),
    };
    let bsig_w = through_json!(BlindSignature<CL03<CS>>, &bsig0, "blind signature");
    let bsig = bsig_w.unwrap_or(bsig0);
    let commitment_w = through_json!(Commitment<CL03<CS>>, &commitment, "holder's commitment");
    let sig = bsig.unblind_sign(commitment_w.as_ref().unwrap_or(&commitment));
    let sig = if wire {
        match catch(|| Signature::<CL03<CS>>::from_bytes(&sig.to_bytes())) {
            Ok(s2) => s2,
            Err(e) => return rep.fail(ck, "signature-bytes-roundtrip-mid-flow", format!("from_bytes(to_bytes(sig)) panics: {}", e), cj(json!(null))),
        }
    } else {
        sig
    };
    interject(4);
    rep.eval(ck, 1);
    if !sig.verify_multiattr(pk, &bases, &msgs) {
        return rep.fail(ck, "unblinded-signature-rejected", format!("hidden set {:?} of {} (objects through JSON / octets between the steps: {})", hidden, n, wire), cj(json!(null)));
    }
    if wire {
        rep.class("flow-with-objects-through-json-between-steps");
    }
    // re-issuing after changing a revealed attribute
    if let Some(&ri) = revealed_idx.first() {
        let mut new_vals = vals.clone();
        new_vals[ri] = attr_random(&mut st);
        let new_msgs: Vec<CL03Message> = new_vals.iter().cloned().map(CL03Message::new).collect();
        let new_revealed: Vec<CL03Message> = revealed_idx.iter().map(|&i| new_msgs[i].clone()).collect();
        let upd = bsig.update_signature(Some(&new_revealed), &c_issuer, &key.sk, pk, &bases, Some(&revealed_idx));
        let usig = upd.unblind_sign(&commitment);
        rep.eval(ck, 2);
        if !usig.verify_multiattr(pk, &bases, &new_msgs) {
            return rep.fail(ck, "updated-signature-rejected", format!("re-issued signature does not verify on the updated vector (revealed attribute {})", ri), cj(json!(null)));
        }
        if usig.verify_multiattr(pk, &bases, &msgs) {
            return rep.fail(ck, "accepted:updated-signature-on-old-vector", "re-issued signature still verifies on the old vector".into(), cj(json!(null)));
        }
        rep.class("update-checked");
    }

    // ---- negative ------------------------------------------------------------------------------
    let gate = |family: &str, z: &ZKPoK<CL03<CS>>, com: &CL03Commitment, tc: Option<&CL03Commitment>, k: &ClKey, bs: &Bases, ck2: Option<&CL03CommitmentPublicKey>, hid: &[usize], detail: String| -> CheckResult {
        rep.eval(ck, 2);
        let ver = catch(|| z.verify_proof(com, tc, &k.pk, bs, ck2, hid)).unwrap_or(false);
        if ver {
            return rep.fail(ck, &format!("accepted:{}", family), format!("verify_proof is true ({}): {}", family, detail), cj(json!({"family": family, "detail": detail})));
        }
        let ridx: Vec<usize> = (0..n).filter(|i| !hid.contains(i)).collect();
        let rev: Vec<CL03Message> = ridx.iter().map(|&i| msgs[i].clone()).collect();
        if try_blind_sign::<CS>(k, bs, z, &rev, com, tc, ck2, hid, &ridx).is_some() {
            return rep.fail(ck, &format!("signed:{}", family), format!("blind_sign returned a signature ({}): {}", family, detail), cj(json!({"family": family, "detail": detail})));
        }
        Ok(())
    };
    // commitment to other attributes
    {
        let mut v2 = vals.clone();
        let h0 = hidden[0];
        v2[h0] = (&v2[h0] + 1u32).complete();
        let m2: Vec<CL03Message> = v2.into_iter().map(CL03Message::new).collect();
        let wrong = Commitment::<CL03<CS>>::commit_with_pk(&m2, pk, &bases, Some(&hidden)).cl03Commitment().clone();
        gate("commitment-to-other-attributes", &zk, &wrong, t_issuer.as_ref(), key, &bases, cpk, &hidden, format!("hidden attribute {} + 1", h0))?;
        let mut shifted = c_issuer.clone();
        shifted.value = (&shifted.value * &pk.b).complete() % &pk.N;
        gate("commitment-times-b", &zk, &shifted, t_issuer.as_ref(), key, &bases, cpk, &hidden, "C * b".into())?;
    }
    // another hidden set of the same size
    if let Some(other) = other_set_same_size(n, &hidden) {
        gate("other-hidden-set", &zk, &c_issuer, t_issuer.as_ref(), key, &bases, cpk, &other, format!("{:?} instead of {:?}", other, hidden))?;
    }
    // hidden-position lists that reach beyond the attribute count (after a valid position, before it, alone): the
    // request must be refused, and a refusal must leave nothing behind - the honest proof is verified again on
    // this thread right after each refusal
    for (tag, hl) in [("valid-then-out-of-range", [hidden.clone(), vec![n + 4]].concat()), ("out-of-range-then-valid", [vec![n], hidden.clone()].concat()), ("out-of-range-only", vec![n + 1])] {
        gate("hidden-position-out-of-range", &zk, &c_issuer, t_issuer.as_ref(), key, &bases, cpk, &hl, format!("{}: {:?}", tag, hl))?;
        // also at generation (a holder library that is asked for a proof over such a list)
        let _ = catch(|| ZKPoK::<CL03<CS>>::generate_proof(&msgs, &cc, trusted_c.as_ref(), pk, &bases, cpk, &hl));
        rep.eval(ck, 1);
        if !catch(|| zk.verify_proof(&c_issuer, t_issuer.as_ref(), pk, &bases, cpk, &hidden)).unwrap_or(false) {
            return rep.fail(ck, "honest-issuance-proof-rejected-after-a-refusal", format!("after a refused request ({}: {:?}) the honest proof for hidden set {:?} of {} no longer verifies on the same thread", tag, hl, hidden, n), cj(json!({"after": tag})));
        }
    }
    // single-field edits of the key material the issuer checks against: the issuer modulus, b, the base of every
    // hidden position; with a trusted commitment also the trusted party's modulus, h and the g_i of hidden positions
    {
        let sq = |x: &Integer, m: &Integer| (x * x).complete() % m;
        let mut k1 = key.clone();
        k1.pk.N = (&k1.pk.N + 2u32).complete();
        gate("issuer-key-field-changed:N", &zk, &c_issuer, t_issuer.as_ref(), &k1, &bases, cpk, &hidden, "N + 2".into())?;
        let mut k2 = key.clone();
        k2.pk.b = sq(&k2.pk.b, &k2.pk.N);
        gate("issuer-key-field-changed:b", &zk, &c_issuer, t_issuer.as_ref(), &k2, &bases, cpk, &hidden, "b := b^2".into())?;
        for &i in &hidden {
            let mut b3 = bases.clone();
            b3.0[i] = sq(&b3.0[i], &pk.N);
            gate("base-changed", &zk, &c_issuer, t_issuer.as_ref(), key, &b3, cpk, &hidden, format!("a_{} := a_{}^2", i, i))?;
        }
        if let (true, Some(t)) = (use_tp, tp) {
            let mut t1 = t.clone();
            t1.N = (&t1.N + 2u32).complete();
            gate("trusted-commitment-key-field-changed:N", &zk, &c_issuer, t_issuer.as_ref(), key, &bases, Some(&t1), &hidden, "N + 2".into())?;
            let mut t2 = t.clone();
            t2.h = sq(&t2.h, &t2.N);
            gate("trusted-commitment-key-field-changed:h", &zk, &c_issuer, t_issuer.as_ref(), key, &bases, Some(&t2), &hidden, "h := h^2".into())?;
            for &i in &hidden {
                let mut t3 = t.clone();
                t3.g_bases[i] = sq(&t3.g_bases[i], &t3.N);
                gate("trusted-commitment-key-field-changed:g_i", &zk, &c_issuer, t_issuer.as_ref(), key, &bases, Some(&t3), &hidden, format!("g_{} := g_{}^2", i, i))?;
            }
        }
    }
    // other bases / other issuer key
    {
        let ob = Bases::generate(pk, n);
        gate("other-bases", &zk, &c_issuer, t_issuer.as_ref(), key, &ob, cpk, &hidden, "fresh bases".into())?;
        let other = &cx.keys[(pick(c.key, cx.keys.len()) + 1) % cx.keys.len()];
        if other.pk.N != pk.N {
            gate("other-issuer-key", &zk, &c_issuer, t_issuer.as_ref(), other, &bases, cpk, &hidden, other.id.clone())?;
        }
    }
    // wrong trusted commitment
    if use_tp {
        let mut v2 = vals.clone();
        v2[hidden[0]] = attr_random(&mut st);
        let m2: Vec<CL03Message> = v2.into_iter().map(CL03Message::new).collect();
        let wt = Commitment::<CL03<CS>>::commit_with_commitment_pk(&m2, tp.unwrap(), Some(&hidden)).cl03Commitment().clone();
        gate("wrong-trusted-commitment", &zk, &c_issuer, Some(&wt), key, &bases, cpk, &hidden, "trusted party committed to another value".into())?;
        rep.class("trusted-commitment");
    }
    // mode mismatch: a proof made without the trusted-party sub-proof presented to an issuer that requires one
    if let Some(t) = tp.filter(|t| hidden.iter().all(|&i| i < t.g_bases.len())) {
        let (z_plain, tc) = if use_tp {
            (catch(|| ZKPoK::<CL03<CS>>::generate_proof(&msgs, &cc, None, pk, &bases, None, &hidden)).ok(), t_issuer.clone())
        } else {
            (serde_json::from_value::<ZKPoK<CL03<CS>>>(zk_json.clone()).ok(), Some(CL03Commitment { value: Commitment::<CL03<CS>>::commit_with_commitment_pk(&msgs, t, Some(&hidden)).cl03Commitment().value.clone(), randomness: Integer::new() }))
        };
        if let (Some(zp), Some(tc)) = (z_plain, tc) {
            gate("trusted-commitment-required-but-sub-proof-missing", &zp, &c_issuer, Some(&tc), key, &bases, Some(t), &hidden, "proof generated with C_trusted = None".into())?;
        }
        if use_tp {
            // the sub-proof is there but checked against the commitment key / commitment of nobody
            gate("trusted-sub-proof-against-other-commitment-key", &zk, &c_issuer, t_issuer.as_ref(), key, &bases, Some(&CL03CommitmentPublicKey::generate::<CS>(Some(pk.N.clone()), Some(n))), &hidden, "commitment key over the issuer modulus instead of the trusted party's".into())?;
        }
    }
    // whole sub-proofs exchanged with those of a second honest issuance proof: same key, bases, positions and
    // revealed values, other hidden values (hence another commitment); verified against the first commitment
    if c.seed % 2 == 0 || c.leaf_edits == 0 {
        let mut vals2 = vals.clone();
        for &i in &hidden {
            vals2[i] = attr_random(&mut st);
        }
        let msgs2: Vec<CL03Message> = vals2.iter().cloned().map(CL03Message::new).collect();
        let com2 = Commitment::<CL03<CS>>::commit_with_pk(&msgs2, pk, &bases, Some(&hidden));
        let cc2 = com2.cl03Commitment().clone();
        let tc2 = if use_tp { Some(Commitment::<CL03<CS>>::commit_with_commitment_pk(&msgs2, tp.unwrap(), Some(&hidden)).cl03Commitment().clone()) } else { None };
        if let Ok(zk2) = catch(|| ZKPoK::<CL03<CS>>::generate_proof(&msgs2, &cc2, tc2.as_ref(), pk, &bases, cpk, &hidden)) {
            let j2 = serde_json::to_value(&zk2).unwrap();
            for path in composite_nodes(&zk_json) {
                let (Some(a), Some(b)) = (zk_json.pointer(&path), j2.pointer(&path)) else { continue };
                if a == b {
                    continue;
                }
                let mut j3 = zk_json.clone();
                *j3.pointer_mut(&path).unwrap() = b.clone();
                let Ok(z3) = serde_json::from_value::<ZKPoK<CL03<CS>>>(j3) else { continue };
                rep.eval(ck, 1);
                rep.class_n("sub-proofs-exchanged", 1);
                if catch(|| z3.verify_proof(&c_issuer, t_issuer.as_ref(), pk, &bases, cpk, &hidden)).unwrap_or(false) {
                    return rep.fail(
                        ck,
                        &format!("sub-proof-of-another-proof-still-verifies:{}", generic_path(&path)),
                        format!("issuance proof with {} taken from an honest proof for other hidden values still verifies (hidden {:?} of {})", path, hidden, n),
                        cj(json!({"node": path})),
                    );
                }
            }
        }
    }
    // list shapes: entries dropped from the proof's lists (one list, two lists of the same length, all of them)
    for (tag, j3) in array_drop_edits(&zk_json) {
        let Ok(z3) = serde_json::from_value::<ZKPoK<CL03<CS>>>(j3) else { continue };
        rep.eval(ck, 1);
        rep.class_n("list-entries-dropped", 1);
        if catch(|| z3.verify_proof(&c_issuer, t_issuer.as_ref(), pk, &bases, cpk, &hidden)).unwrap_or(false) {
            return rep.fail(ck, "shortened-lists-still-verify", format!("issuance proof with {} still verifies (hidden {:?} of {})", tag, hidden, n), cj(json!({"lists": tag})));
        }
    }
    // after all the refusals above: the honest proof still verifies and a freshly generated one does too
    rep.eval(ck, 2);
    if !catch(|| zk.verify_proof(&c_issuer, t_issuer.as_ref(), pk, &bases, cpk, &hidden)).unwrap_or(false) {
        return rep.fail(ck, "honest-issuance-proof-rejected-after-a-refusal", format!("after the refused requests of this case the honest proof for hidden set {:?} of {} no longer verifies on the same thread", hidden, n), cj(json!({"after": "all negative families"})));
    }
    match catch(|| ZKPoK::<CL03<CS>>::generate_proof(&msgs, &cc, trusted_c.as_ref(), pk, &bases, cpk, &hidden)) {
        Ok(z9) => {
            if !catch(|| z9.verify_proof(&c_issuer, t_issuer.as_ref(), pk, &bases, cpk, &hidden)).unwrap_or(false) {
                return rep.fail(ck, "honest-issuance-proof-rejected-after-a-refusal", format!("a proof generated after the refused requests of this case does not verify (hidden set {:?} of {})", hidden, n), cj(json!({"after": "all negative families", "generated": "after"})));
            }
        }
        Err(p) => return rep.fail(ck, "generate-proof-panicked", format!("generate_proof after refused requests: {}", p), cj(json!(null))),
    }
    // field-wise edits of every integer leaf of the proof
    let leaves = int_leaves(&zk_json);
    let edits = pick_edits(&leaves, c.leaf_edits, &mut st);
    if c.leaf_edits == 0 || c.leaf_edits >= leaves.len() * EDIT_KINDS as usize {
        rep.exhaustive("every integer leaf of an issuance proof x {+1, -1, 0, sibling swap, high bit flipped, +2^k for k >= 128}".into());
    }
    for (li, e) in edits {
        let (path, val) = &leaves[li];
        let nv = edit_leaf(&leaves, li, e);
        if nv == *val {
            continue;
        }
        let mut j2 = zk_json.clone();
        set_leaf(&mut j2, path, &nv);
        let Ok(z2) = serde_json::from_value::<ZKPoK<CL03<CS>>>(j2) else { continue };
        rep.eval(ck, 1);
        rep.class_n("leaf-edits", 1);
        if catch(|| z2.verify_proof(&c_issuer, t_issuer.as_ref(), pk, &bases, cpk, &hidden)).unwrap_or(false) {
            let tag = EDIT_TAGS[e as usize];
            return rep.fail(
                ck,
                &format!("altered-field-still-verifies:{}", generic_path(path)),
                format!("issuance proof with {} {} still verifies (hidden {:?} of {})", path, tag, hidden, n),
                cj(json!({"leaf": path, "edit": tag})),
            );
        }
    }

    if hidden != [0] {
        rep.nontrivial(ck, &json!({"c": c, "key": key.id}));
    }
    rep.class(&format!("n={},|U|={}", n, hidden.len()));
    rep.class(&format!("hidden={:?}", hidden));
    rep.sample(ck, json!({"key": key.id, "n": n, "hidden": hidden, "trusted_commitment": use_tp, "leaves": leaves.len()}));
    Ok(())
}

pub fn run(ctx: &Ctx, rep: &Report) -> Meta {
    let suite = ClSuite::CL1024;
    let (keys, tp) = std::thread::scope(|s| {
        let h = s.spawn(|| CL03CommitmentPublicKey::generate::<CL1024Sha256>(None, Some(8)));
        let keys = key_pool(suite, ctx.tier.pick(2, 4), ctx.tier.pick(4, 8), ctx.seed);
        (keys, h.join().ok())
    });
    rep.note(format!("{} issuer keys, trusted-party commitment key over its own modulus: {}", keys.len(), tp.is_some()));
    let cx = Ctxt { keys, tp };
    // every non-empty hidden set for n = 1..3 (quick) / 1..5 (thorough), once each
    let nmax = ctx.tier.pick(3usize, 5usize);
    let mut fixed = vec![];
    let mut k = 0u32;
    for n in 1..=nmax {
        for mask in 1u8..(1 << n) {
            k += 1;
            fixed.push(Case { key: (k * 9973) as u16, n, hidden_mask: mask, trusted: k % 3 == 0, classes: vec![5, 4, 5, (k % 6) as u8, 5], seed: (ctx.seed as u32).wrapping_add(k), leaf_edits: ctx.tier.pick(16, 0), spare: if k % 4 == 1 { 1 + (k % 3) as u8 } else { 0 }, hidden_list: vec![], eq_hidden: mask.count_ones() >= 2 && k % 2 == 0 });
        }
    }
    for n in [6usize, 8] {
        for mask in [1u8, 1 << (n - 1), ((1u16 << n) - 1) as u8, 0b10101010 & (((1u16 << n) - 1) as u8), 0b00100100] {
            k += 1;
            let mut c = fixed[0].clone();
            c.key = (k * 9973) as u16;
            c.n = n;
            c.hidden_mask = mask;
            c.seed = (ctx.seed as u32).wrapping_add(500 + k);
            fixed.push(c);
        }
    }
    par_items(ctx, rep, "every-hidden-set", &fixed, |c| with_cl!(suite, CS => check_one::<CS>(rep, "every-hidden-set", c, &cx)));
    if !rep.aborted() {
        rep.exhaustive(format!("every non-empty hidden set for n = 1..={}", nmax));
    }
    // every attribute count 9..=24 (quick) / 9..=48 (thorough) with two or three hidden positions including the last
    let sweep: Vec<Case> = (9..=ctx.tier.pick(24usize, 48usize))
        .map(|n| Case { key: (n * 131) as u16, n, hidden_mask: 0, trusted: false, classes: vec![5, 4, 5, (n % 6) as u8, 5], seed: (ctx.seed as u32).wrapping_add(7000 + n as u32), leaf_edits: 8, spare: (n % 3) as u8, hidden_list: if n % 2 == 0 { vec![0, n - 1] } else { vec![1, n / 2, n - 1] }, eq_hidden: n % 4 == 1 })
        .collect();
    par_items(ctx, rep, "attribute-count-sweep", &sweep, |c| with_cl!(suite, CS => check_one::<CS>(rep, "attribute-count-sweep", c, &cx)));
    // volume: many honest issuance proofs of the cheapest shape (one attribute, hidden), each verified
    {
        let total = ctx.tier.pick(1400usize, 10000usize);
        let ws: Vec<usize> = (0..16).collect();
        par_items(ctx, rep, "volume", &ws, |&w| {
            with_cl!(suite, CS => {
                let key = &cx.keys[w % cx.keys.len()];
                let pk = &key.pk;
                let bases = Bases::generate(pk, 1);
                let hidden = [0usize];
                // odd workers: with a trusted-party commitment (its sub-proof has a challenge of its own)
                let tpk = if w % 2 == 1 { cx.tp.as_ref() } else { None };
                let mut st = ctx.seed ^ ((w as u64) << 32) | 3;
                for k in 0..total / 16 {
                    if rep.aborted() {
                        break;
                    }
                    let msgs = vec![CL03Message::new(if k % 5 == 0 { attr(k as u8, &mut st) } else { attr_random(&mut st) })];
                    let com = Commitment::<CL03<CS>>::commit_with_pk(&msgs, pk, &bases, Some(&hidden));
                    if let Some(t) = tpk {
                        let tcom = Commitment::<CL03<CS>>::commit_with_commitment_pk(&msgs, t, Some(&hidden)).cl03Commitment().clone();
                        let zk = match catch(|| ZKPoK::<CL03<CS>>::generate_proof(&msgs, com.cl03Commitment(), Some(&tcom), pk, &bases, Some(t), &hidden)) {
                            Ok(z) => z,
                            Err(e) => return rep.fail("volume", "generate-proof-panicked", format!("#{} of worker {} (trusted commitment): {}", k, w, e), json!({"worker": w})),
                        };
                        let c_issuer = CL03Commitment { value: com.cl03Commitment().value.clone(), randomness: Integer::new() };
                        let t_issuer = CL03Commitment { value: tcom.value.clone(), randomness: Integer::new() };
                        rep.eval("volume", 1);
                        if !catch(|| zk.verify_proof(&c_issuer, Some(&t_issuer), pk, &bases, Some(t), &hidden)).unwrap_or(false) {
                            return rep.fail("volume", "honest-issuance-proof-rejected", format!("honest issuance proof #{} of worker {} (one hidden attribute, trusted commitment) is refused", k, w),
                                json!({"volume-trusted": {"proof": serde_json::to_value(&zk).unwrap_or(json!(null)), "commitment": c_issuer.value.to_string(), "trusted_commitment": t_issuer.value.to_string()}}));
                        }
                        continue;
                    }
                    let zk = match catch(|| ZKPoK::<CL03<CS>>::generate_proof(&msgs, com.cl03Commitment(), None, pk, &bases, None, &hidden)) {
                        Ok(z) => z,
                        Err(e) => return rep.fail("volume", "generate-proof-panicked", format!("#{} of worker {}: {}", k, w, e), json!({"worker": w})),
                    };
                    let c_issuer = CL03Commitment { value: com.cl03Commitment().value.clone(), randomness: Integer::new() };
                    rep.eval("volume", 1);
                    if !catch(|| zk.verify_proof(&c_issuer, None, pk, &bases, None, &hidden)).unwrap_or(false) {
                        return rep.fail("volume", "honest-issuance-proof-rejected", format!("honest issuance proof #{} of worker {} (one hidden attribute) is refused", k, w),
                            json!({"volume": {"pk": serde_json::to_value(pk).unwrap_or(json!(null)), "bases": serde_json::to_value(&bases).unwrap_or(json!(null)), "commitment": c_issuer.value.to_string(), "proof": serde_json::to_value(&zk).unwrap_or(json!(null))}}));
                    }
                }
                rep.nontrivial("volume", &json!({"worker": w}));
                Ok(())
            })
        });
    }
    let le = ctx.tier.pick(24usize, 80usize);
    run_cases(ctx, rep, "issuance", ctx.tier.pick(40, 300), 30, || strat(nmax.max(4), le), |c| with_cl!(suite, CS => check_one::<CS>(rep, "issuance", c, &cx)));
    if ctx.tier == Tier::Thorough && !rep.aborted() {
        for (s2, nfix) in [(ClSuite::CL2048, 3usize), (ClSuite::CL3072, 2)] {
            let keys = key_pool(s2, 0, nfix, ctx.seed);
            if keys.is_empty() {
                continue;
            }
            let cx2 = Ctxt { keys, tp: None };
            let ckn = format!("issuance-{}", s2.name());
            run_cases(ctx, rep, &ckn, 16, 10, || strat(3, 8), |c| with_cl!(s2, CS => check_one::<CS>(rep, &ckn, c, &cx2)));
        }
    }
    Meta {
        rule: "issuer key from a pool, n attributes, EVERY non-empty hidden set for n = 1..3 (quick) / 1..5 (thorough) plus generated (n <= 4/5, hidden set, attribute classes), with and without a trusted-party commitment (commitment key over its own modulus); \
               in every second case each step of the flow is preceded by a call the CL03 code refuses (ten kinds on CL1024 objects of their own: changed attribute, fewer bases than attributes, other / out-of-range hidden positions, a commitment key without a base or with h = 0, a range proof under other bounds or h = 0, a value outside the interval, blind_sign for another commitment); positive: verify_proof true (the issuer is given the commitment value only), proof survives JSON, in every second case every object of the flow (proof, issuer key, bases, blind signature, holder's commitment; the signature through its octets) is serialised and decoded between the steps, blind_sign returns, the unblinded signature verifies on the full vector, re-issuing with a changed revealed attribute verifies on the new vector and not on the old; \
               negative: commitment to other attributes / C*b, single-field edits of the key material (issuer N + 2, b squared, the base of every hidden position squared; with a trusted commitment its N + 2, h and the g_i of hidden positions squared), another hidden set of the same size, hidden-position lists reaching beyond the attribute count (each refusal followed by a re-verification of the honest proof on the same thread), other bases, other issuer key, wrong trusted commitment: verify_proof false AND blind_sign refuses; \
               every integer leaf of the serialised proof perturbed by +1, -1, := 0, := sibling, one high bit flipped, +2^k for k in {128, 160, 256, 300} (16-24 sampled perturbations per proof in quick, all in thorough's fixed list): verify_proof false; list shapes: the last / first entry dropped from every list of the serialised proof, the last entry dropped from every two lists of equal length and from all of them: verify_proof false; every composite node of the serialised proof (sub-proof, array, array element) replaced by the node at the same path of a second honest proof for other hidden values (same key, bases, positions), for every second case: verify_proof false; \
               n = 6 and 8 with first / last / all / alternating hidden sets; every attribute count 9..=24 (quick) / 9..=48 (thorough) with two or three hidden positions including the last; volume: 1400 (quick) / 10000 (thorough) honest one-attribute issuance proofs each verified, half of them with a trusted-party commitment; issuers with 0..3 more bases than attributes; every second case with two or more hidden attributes gives them all the same value; a proof without the trusted-party sub-proof presented to an issuer that requires one, a sub-proof checked against another commitment key; non-trivial = hidden set != {0} (the crate's only tested configuration); evaluations = verifier / issuer decisions"
            .into(),
        assumptions: vec!["blind_sign refuses by panicking (by design): observed under catch_unwind".into(), "CL2048/CL3072 in thorough only (fixture primes)".into()],
    }
}

pub fn replay(ctx: &Ctx, rep: &Report, ck: &str, case: &Value) -> CheckResult {
    if ck == "volume" {
        let v = &case["volume"];
        let perr = |m: &str| Fail { check: ck.into(), site: "replay-parse".into(), msg: m.into(), case: json!(null) };
        let pk: CL03PublicKey = serde_json::from_value(v["pk"].clone()).map_err(|_| perr("pk"))?;
        let bases: Bases = serde_json::from_value(v["bases"].clone()).map_err(|_| perr("bases"))?;
        let cv: Integer = v["commitment"].as_str().and_then(|x| x.parse().ok()).ok_or_else(|| perr("commitment"))?;
        let zk: ZKPoK<CL03<CL1024Sha256>> = serde_json::from_value(v["proof"].clone()).map_err(|_| perr("proof"))?;
        let c_issuer = CL03Commitment { value: cv, randomness: Integer::new() };
        return if catch(|| zk.verify_proof(&c_issuer, None, &pk, &bases, None, &[0usize])).unwrap_or(false) { Ok(()) } else { Err(Fail { check: ck.into(), site: "honest-issuance-proof-rejected".into(), msg: "the recorded honest proof is refused".into(), case: json!({"volume": "see file"}) }) };
    }
    let c: Case = serde_json::from_value(case["case"].clone()).map_err(|e| Fail { check: ck.into(), site: "replay-parse".into(), msg: e.to_string(), case: case.clone() })?;
    let keys = key_pool(ClSuite::CL1024, 0, 3, ctx.seed);
    let tp = if c.trusted { Some(CL03CommitmentPublicKey::generate::<CL1024Sha256>(None, Some(8))) } else { None };
    let cx = Ctxt { keys, tp };
    check_one::<CL1024Sha256>(rep, ck, &c, &cx)
}
