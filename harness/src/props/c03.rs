//! C03 — BBS proof completeness for every disclosure choice.

use crate::bbs::*;
use crate::engine::*;
use crate::gen::*;
use crate::with_suite;
use proptest::prelude::*;
use serde::{Deserialize, Serialize};
use serde_json::{json, Value};

#[derive(Clone, Debug, Serialize, Deserialize)]
pub struct Case {
    pub suite: SuiteId,
    pub key: KeySpec,
    pub header: OptBytes,
    pub ph: OptBytes,
    pub msgs: MsgVec,
    /// true: enumerate all 2^L masks (small L); false: class-sampled masks
    pub all_masks: bool,
    pub mask_seed: u32,
}

fn one_mask<CS: BbsCiphersuite>(
    rep: &Report,
    ck: &str,
    c: &Case,
    pk: &BBSplusPublicKey,
    sig: &[u8; 80],
    msgs: &[Vec<u8>],
    header: Option<&[u8]>,
    ph: Option<&[u8]>,
    label: &str,
    idx: &[usize],
) -> CheckResult {
    let l = msgs.len();
    let cj = || json!({"case": c, "mask": label, "disclosed": idx});
    // `None` for an empty index list is the other documented spelling
    let idx_arg: Option<&[usize]> = if idx.is_empty() && c.mask_seed % 2 == 0 { None } else { Some(idx) };
    // a call the library refuses right before generation / right before verification, for half of the masks
    // (what an error path leaves behind on the thread must not reach the next honest call)
    let interject = (c.mask_seed as usize + idx.len()) % 4;
    if interject == 0 {
        rep.class(&format!("refused-call-before-proof-gen:{}", crate::history::refused_call::<CS>(c.mask_seed as u64 + idx.len() as u64 * 3)));
    }
    let proof = match PoKSignature::<BBSplus<CS>>::proof_gen(pk, sig, header, ph, Some(msgs), idx_arg) {
        Ok(p) => p,
        Err(e) => return rep.fail(ck, "proof-gen-failed", format!("proof_gen: {:?}", e), cj()),
    };
    let disclosed: Vec<Vec<u8>> = idx.iter().map(|&i| msgs[i].clone()).collect();
    let dm_arg: Option<&[Vec<u8>]> = if disclosed.is_empty() && c.mask_seed % 3 == 0 { None } else { Some(&disclosed) };
    rep.eval(ck, 1);
    if interject == 1 {
        rep.class(&format!("refused-call-before-proof-verify:{}", crate::history::refused_call::<CS>(c.mask_seed as u64 + idx.len() as u64 * 5)));
        // ... and this proof itself, with a position beyond the vector and with one message too few
        let mut far = idx.to_vec();
        far.push(l + 2);
        let mut more = disclosed.clone();
        more.push(b"x".to_vec());
        let _ = proof.proof_verify(pk, Some(&more), Some(&far), header, ph);
        if !idx.is_empty() {
            let _ = proof.proof_verify(pk, Some(&disclosed[1..]), Some(idx), header, ph);
        }
    }
    if let Err(e) = proof.proof_verify(pk, dm_arg, idx_arg, header, ph) {
        return rep.fail(ck, "proof-verify-failed", format!("proof_verify of a fresh proof: {:?}", e), cj());
    }
    // the same proof object used for several calls: a refused verification (another key, another header) before
    // and between honest ones must not change the verdict on the honest statement
    if label == "all" || label == "none" || label == "random-half" || l <= 3 {
        let other_pk = BBSplusPublicKey(pk.0 + bls12_381_plus::G2Projective::GENERATOR);
        let _ = proof.proof_verify(&other_pk, dm_arg, idx_arg, header, ph);
        let _ = proof.proof_verify(pk, dm_arg, idx_arg, Some(b"another header"), ph);
        rep.eval(ck, 1);
        if let Err(e) = proof.proof_verify(pk, dm_arg, idx_arg, header, ph) {
            return rep.fail(ck, "proof-verify-failed:object-reused", format!("the proof object verifies, is then offered under another key and another header (refused), and no longer verifies for its own statement: {:?}", e), cj());
        }
        rep.class("object-reused-after-refusals");
    }
    // an absent header / presentation header is the empty octet string (the API documents the default): the
    // verifier may spell it the other way
    if header.map(|h| h.is_empty()).unwrap_or(true) || ph.map(|p| p.is_empty()).unwrap_or(true) {
        fn other<'a>(cur: Option<&'a [u8]>) -> Option<&'a [u8]> {
            match cur {
                None => Some(&[][..]),
                Some(x) if x.is_empty() => None,
                x => x,
            }
        }
        let (h2, p2) = (other(header), other(ph));
        rep.eval(ck, 1);
        if let Err(e) = proof.proof_verify(pk, dm_arg, idx_arg, h2, p2) {
            return rep.fail(ck, "proof-verify-failed:none-vs-empty", format!("the verifier spells the empty header / presentation header the other way (None <-> Some(b\"\")): {:?}", e), cj());
        }
        rep.class("verified-with-the-other-spelling-of-empty");
    }
    // a verifier on a freshly started thread must agree (per-thread state must not matter)
    if label == "all" || label == "none" || label.ends_with("0b0") || label == "random-half" {
        let pb0 = proof.to_bytes();
        let ok = std::thread::scope(|s| {
            s.spawn(|| PoKSignature::<BBSplus<CS>>::from_bytes(&pb0).map(|x| x.proof_verify(pk, dm_arg, idx_arg, header, ph).is_ok()).unwrap_or(false)).join().unwrap_or(false)
        });
        rep.eval(ck, 1);
        if !ok {
            return rep.fail(ck, "proof-verify-failed-on-fresh-thread", "a proof that verifies on the proving thread is rejected on a freshly started thread".into(), cj());
        }
        rep.class("verified-on-fresh-thread");
    }
    let b = proof.to_bytes();
    let u = l - idx.len();
    if b.len() != 272 + 32 * u {
        return rep.fail(ck, "proof-length", format!("proof has {} octets, expected 272 + 32*{}", b.len(), u), cj());
    }
    match PoKSignature::<BBSplus<CS>>::from_bytes(&b) {
        Ok(p2) => {
            if p2 != proof {
                return rep.fail(ck, "proof-roundtrip-neq", "from_bytes(to_bytes(proof)) != proof".into(), cj());
            }
            if let Err(e) = p2.proof_verify(pk, dm_arg, idx_arg, header, ph) {
                return rep.fail(ck, "proof-roundtrip-verify", format!("{:?}", e), cj());
            }
        }
        Err(e) => return rep.fail(ck, "proof-roundtrip-decode", format!("{:?}", e), cj()),
    }
    rep.eval(ck, 2);
    // the serde encoding of the proof object (the crate derives Serialize / Deserialize for it) is the other
    // encode/decode round trip a holder can use
    if l <= 40 {
        let js = match serde_json::to_string(&proof) {
            Ok(j) => j,
            Err(e) => return rep.fail(ck, "proof-json-encode", format!("{}", e), cj()),
        };
        match serde_json::from_str::<PoKSignature<BBSplus<CS>>>(&js) {
            Ok(p3) => {
                if p3 != proof {
                    return rep.fail(ck, "proof-json-roundtrip-neq", "from_str(to_string(proof)) != proof".into(), cj());
                }
                if let Err(e) = p3.proof_verify(pk, dm_arg, idx_arg, header, ph) {
                    return rep.fail(ck, "proof-json-roundtrip-verify", format!("{:?}", e), cj());
                }
            }
            Err(e) => return rep.fail(ck, "proof-json-roundtrip-decode", format!("serde_json cannot read back the proof it wrote: {}", e), cj()),
        }
        rep.eval(ck, 2);
        rep.class("json-roundtrip");
    }
    let fixture_mask = (l == 1 && idx == [0]) || (l == 10 && (idx.len() == 10 || idx == [0, 2, 4, 6]));
    if !fixture_mask {
        rep.nontrivial(ck, &json!({"c": c, "idx": idx}));
    }
    if u == 0 {
        rep.class("U=0");
    }
    if idx.is_empty() {
        rep.class("R=0");
    }
    if idx.iter().any(|&i| i >= 21) {
        rep.class("discloses-position>=21");
    }
    if (21..l).any(|i| !idx.contains(&i)) {
        rep.class("hides-position>=21");
    }
    Ok(())
}

fn check_one<CS: BbsCiphersuite>(rep: &Report, ck: &str, c: &Case) -> CheckResult {
    let cj = || json!({"case": c});
    // half of the cases run after a warm-up history of unrelated legal calls on this thread
    {
        let hs: u64 = c.mask_seed as u64 ^ c.key.ikm.seed as u64;
        if hs % 2 == 1 {
            crate::history::warmup(hs, 1 + (hs % 5) as usize);
            rep.class("after-warm-up-history");
        }
    }
    let kp = keypair::<CS>(&c.key).map_err(|e| Fail { check: ck.into(), site: "keygen".into(), msg: format!("{:?}", e), case: cj() })?;
    let (sk, pk) = (kp.private_key(), kp.public_key());
    let msgs = c.msgs.materialize();
    let header = c.header.get();
    let ph = c.ph.get();
    let l = msgs.len();
    let sig = match Signature::<BBSplus<CS>>::sign(Some(&msgs), sk, pk, header.as_deref()) {
        Ok(s) => s.to_bytes(),
        Err(e) => return rep.fail(ck, "sign-failed", format!("{:?}", e), cj()),
    };
    if c.all_masks && l <= 12 {
        for mask in 0u32..(1u32 << l) {
            let idx = mask_to_indexes(mask, l);
            one_mask::<CS>(rep, ck, c, pk, &sig, &msgs, header.as_deref(), ph.as_deref(), &format!("mask={:#b}", mask), &idx)?;
        }
        rep.exhaustive(format!("all 2^L disclosure masks for L={}", l));
        rep.class(&format!("all-masks:L={}", l));
    } else {
        for (label, idx) in mask_classes(l, c.mask_seed as u64) {
            one_mask::<CS>(rep, ck, c, pk, &sig, &msgs, header.as_deref(), ph.as_deref(), &label, &idx)?;
        }
        rep.class(&format!("class-masks:{}", bucket(l)));
    }
    // a key related to the case's key (r - sk: the public key is the negation; sk + 1), imported through the octet
    // form and used for the same statement right after it on this thread; then the case's own key once more
    if c.mask_seed % 4 == 0 && l <= 40 {
        use bls12_381_plus::Scalar;
        if let Some(x) = Option::<Scalar>::from(Scalar::from_be_bytes(&sk.to_bytes())) {
            for (what, y) in [("r - sk", -x), ("sk + 1", x + Scalar::ONE)] {
                let Ok(sk2) = BBSplusSecretKey::from_bytes(&y.to_be_bytes()) else { continue };
                let pk2 = sk2.public_key();
                let sig2 = match Signature::<BBSplus<CS>>::sign(Some(&msgs), &sk2, &pk2, header.as_deref()) {
                    Ok(s) => s.to_bytes(),
                    Err(e) => return rep.fail(ck, "sign-failed:related-key", format!("key {}: {:?}", what, e), cj()),
                };
                let (label, idx) = mask_classes(l, c.mask_seed as u64 ^ 0x5EED).into_iter().last().unwrap_or(("none".into(), vec![]));
                one_mask::<CS>(rep, ck, c, &pk2, &sig2, &msgs, header.as_deref(), ph.as_deref(), &format!("related-key({}):{}", what, label), &idx)?;
                one_mask::<CS>(rep, ck, c, pk, &sig, &msgs, header.as_deref(), ph.as_deref(), &format!("after-related-key({}):{}", what, label), &idx)?;
            }
            rep.class("related-keys-used-in-sequence");
        }
    }
    rep.class(&format!("header={},ph={}", c.header.class(), c.ph.class()));
    rep.sample(ck, json!({"suite": c.suite.name(), "L": l, "header": c.header.class(), "ph": c.ph.class(), "all_masks": c.all_masks}));
    Ok(())
}

fn check(rep: &Report, ck: &str, c: &Case) -> CheckResult {
    with_suite!(c.suite, CS => check_one::<CS>(rep, ck, c))
}

fn all_mask_cases(seed: u64, lmax: usize) -> Vec<Case> {
    let mut st = seed ^ 0xC03;
    let mut out = vec![];
    let hp = [
        (OptBytes::None, OptBytes::None),
        (OptBytes::Empty, OptBytes::Bytes(BSpec { len: 32, class: 0, seed: 1 })),
        (OptBytes::Bytes(BSpec { len: 16, class: 0, seed: 2 }), OptBytes::Empty),
    ];
    for l in 0..=lmax {
        for suite in [SuiteId::Sha256, SuiteId::Shake256] {
            for (k, (h, p)) in hp.iter().enumerate() {
                if l > 8 && k != l % 3 {
                    continue; // the large enumerations once per suite
                }
                let items = (0..l)
                    .map(|j| BSpec { len: [5usize, 0, 32, 100, 1][j % 5], class: if j % 4 == 3 { 4 } else { 0 }, seed: splitmix(&mut st) as u32 })
                    .collect();
                out.push(Case {
                    suite,
                    key: KeySpec { fixture: (l + k) % 5 == 0, ikm: BSpec { len: 32, class: 0, seed: splitmix(&mut st) as u32 }, key_info: OptBytes::None, key_dst: OptBytes::None },
                    header: h.clone(),
                    ph: p.clone(),
                    msgs: MsgVec { items },
                    all_masks: true,
                    mask_seed: splitmix(&mut st) as u32,
                });
            }
        }
    }
    out
}

const BIG_Q: &[usize] = &[7, 9, 10, 16, 17, 24, 33, 64, 128, 257];
const BIG_T: &[usize] = &[7, 9, 10, 16, 17, 24, 33, 64, 128, 257, 1000];

fn strat(tier: Tier) -> impl Strategy<Value = Case> {
    (
        suite(),
        key_spec_simple(),
        opt_bytes(HDR_LENS_SMALL),
        opt_bytes(HDR_LENS_SMALL),
        msg_vec(tier.pick(BIG_Q, BIG_T), MSG_LENS_SMALL),
        any::<u32>(),
    )
        .prop_map(|(suite, key, header, ph, msgs, mask_seed)| Case { suite, key, header, ph, msgs, all_masks: false, mask_seed })
}

pub fn run(ctx: &Ctx, rep: &Report) -> Meta {
    // the same checks with all workers released from one barrier in a cold process (shared state under contention)
    {
        let cases = all_mask_cases(ctx.seed ^ 0xC0, 4).into_iter().chain(all_mask_cases(ctx.seed ^ 0xC1, 5).into_iter().rev().take(6)).collect::<Vec<_>>();
        let r = contend("contention", ctx.workers.max(4), ctx.tier.pick(2, 6), |t, round| {
            let c = &cases[(t * 7 + round * 3) % cases.len()];
            check(rep, "contention", c)
        });
        if let Err(f) = r {
            rep.add_violation(f);
        }
    }
    let am = all_mask_cases(ctx.seed, ctx.tier.pick(6, 10));
    par_items(ctx, rep, "all-masks", &am, |c| check(rep, "all-masks", c));
    let sweep: Vec<Case> = (7..=ctx.tier.pick(72usize, 200usize))
        .map(|l| Case {
            suite: if l % 2 == 0 { SuiteId::Sha256 } else { SuiteId::Shake256 },
            key: KeySpec { fixture: false, ikm: BSpec { len: 32, class: 0, seed: (ctx.seed as u32).wrapping_add(l as u32) }, key_info: OptBytes::None, key_dst: OptBytes::None },
            header: [OptBytes::None, OptBytes::Bytes(BSpec { len: 16, class: 0, seed: 1 })][l % 2].clone(),
            ph: [OptBytes::Bytes(BSpec { len: 8, class: 0, seed: 2 }), OptBytes::None, OptBytes::Empty][l % 3].clone(),
            msgs: MsgVec { items: (0..l).map(|j| BSpec { len: [4usize, 0, 33][j % 3], class: 0, seed: (l * 1000 + j) as u32 }).collect() },
            all_masks: false,
            mask_seed: (ctx.seed as u32).wrapping_mul(977).wrapping_add(l as u32),
        })
        .collect();
    par_items(ctx, rep, "size-sweep", &sweep, |c| check(rep, "size-sweep", c));
    // long-lived threads: a few hundred proof generations and verifications in sequence on the same thread
    {
        let rounds = ctx.tier.pick(40usize, 300usize);
        let threads: Vec<usize> = (0..4).collect();
        par_items(ctx, rep, "long-lived-thread", &threads, |&t| {
            for k in 0..rounds {
                if rep.aborted() {
                    break;
                }
                let l = [2usize, 1, 4, 3, 6, 0, 5, 9][(k + t) % 8];
                let c = Case {
                    suite: if (k + t) % 2 == 0 { SuiteId::Sha256 } else { SuiteId::Shake256 },
                    key: KeySpec { fixture: false, ikm: BSpec { len: 32, class: 0, seed: (t * 7) as u32 + (crate::gen::splitmix(&mut ((t as u64) << 20 | k as u64)) % 4) as u32 }, key_info: OptBytes::None, key_dst: OptBytes::None },
                    header: [OptBytes::Bytes(BSpec { len: 16, class: 0, seed: k as u32 }), OptBytes::None][k % 2].clone(),
                    ph: [OptBytes::None, OptBytes::Bytes(BSpec { len: 9, class: 0, seed: k as u32 }), OptBytes::Empty][k % 3].clone(),
                    msgs: MsgVec { items: (0..l).map(|j| BSpec { len: [5usize, 0, 40][j % 3], class: 0, seed: (k * 100 + j) as u32 }).collect() },
                    all_masks: false,
                    mask_seed: (k * 31 + t) as u32,
                };
                check(rep, "long-lived-thread", &c)?;
            }
            Ok(())
        });
    }
    if !rep.aborted() {
        rep.exhaustive(format!("every message count L in 7..={} with the class masks", ctx.tier.pick(72, 200)));
    }
    let tier = ctx.tier;
    run_cases(ctx, rep, "sampled-masks", ctx.tier.pick(48, 400), 100, || strat(tier), |c| check(rep, "sampled-masks", c));
    Meta {
        rule: "honest signature x header x ph x disclosure mask: ALL 2^L masks for L = 0..=6 (quick) / 0..=10 (thorough) under both suites and three header/ph classes, \
               plus class-sampled masks (none, all, first, last, all-but-last, evens, only-22, all-but-22, random half/sparse/dense) for L in {7..257, 1000}; \
               every L in 7..=72 (quick) / 7..=200 (thorough) with the class masks, the fixed cases under contention, the same proof object verified again after being refused under another key and header, verification repeated on a freshly started thread, for half of the masks a call the library refuses (17 kinds: key generation with short key material / long tags, garbage octets into the decoders, a commitment of 0xc0 octets into blind_sign, verification / proof generation / update with other headers, positions out of range, lists too short, a tag of 256 octets into hash_to_scalar) right before proof_gen or right before proof_verify (then also this proof with a position beyond the vector and with a message too few), a quarter of the cases (up to 40 messages) repeat one mask under the keys r - sk and sk + 1 imported through the octet form and then under the case's key again, half of the cases after a warm-up history, four long-lived threads with 40 (quick) / 300 (thorough) cases each in sequence (each with its class-sampled masks); oracle: proof_gen Ok, proof_verify Ok with exactly msgs|D (also when the verifier spells an empty header / presentation header the other way, None <-> Some(empty)), equal object and Ok after from_bytes(to_bytes()) and (L <= 40) after serde_json, length = 272 + 32*U; production randomness path; \
               non-trivial = (L, mask) outside the three fixture disclosure sets; evaluations = proof verifications + decode checks"
            .into(),
        assumptions: vec!["index lists handed to the library are ascending and duplicate-free (documented precondition)".into()],
    }
}

pub fn replay(_ctx: &Ctx, rep: &Report, ck: &str, case: &Value) -> CheckResult {
    let c: Case = serde_json::from_value(case["case"].clone()).map_err(|e| Fail {
        check: ck.into(),
        site: "replay-parse".into(),
        msg: e.to_string(),
        case: case.clone(),
    })?;
    check(rep, ck, &c)
}
