//! C16 — Boudot range proof: in-range values prove, nothing else is accepted.

use crate::cl::*;
use crate::clmath;
use crate::engine::*;
use crate::gen::{pick, splitmix};
use proptest::prelude::*;
use rug::ops::Pow;
use rug::{Complete, Integer};
use serde::{Deserialize, Serialize};
use serde_json::{json, Value};
use sha2::Sha256;
use zkryptium::utils::util::cl03_utils::divm;

#[derive(Clone, Debug, Serialize, Deserialize)]
pub struct Case {
    pub modulus: u16,
    /// 0: a = 0, 1: a = 1, 2: a = 2^257 + 1, 3: random 200-bit, 4: random 300-bit
    pub a_class: u8,
    /// width b - a: 0..=2 -> 1, 2, 3; 3 -> 2^k (k from `k`), 4 -> 2^256 - 1, 5 -> random (k bits)
    pub w_class: u8,
    pub k: u16,
    /// position of x: 0 a, 1 a+1, 2 mid, 3 b-1, 4 b, 5 random in range
    pub x_class: u8,
    pub seed: u32,
    pub leaf_edits: usize,
}

fn strat(leaf_edits: usize) -> impl Strategy<Value = Case> {
    (any::<u16>(), 0u8..5, 0u8..10, 1u16..=256, 0u8..6, any::<u32>()).prop_map(move |(modulus, a_class, w_class, k, x_class, seed)| Case { modulus, a_class, w_class, k, x_class, seed, leaf_edits })
}

#[derive(Clone)]
pub struct Params {
    pub n: Integer,
    pub g: Integer,
    pub h: Integer,
    pub id: String,
}

fn interval(c: &Case, st: &mut u64) -> (Integer, Integer) {
    let a = match c.a_class % 5 {
        0 => Integer::from(0),
        1 => Integer::from(1),
        2 => (Integer::from(1) << 257) + 1u32,
        3 => clmath::int_from_seed(st, 200),
        _ => clmath::int_from_seed(st, 300),
    };
    let w = match c.w_class % 10 {
        0 => Integer::from(1),
        1 => Integer::from(2),
        2 => Integer::from(3),
        3 => Integer::from(1) << (c.k as u32),
        4 => (Integer::from(1) << 256) - 1u32,
        5 => clmath::int_from_seed(st, c.k as u32) + 1u32,
        6 => ((Integer::from(1) << (c.k as u32)) - 1u32).max(Integer::from(1)),
        7 => (Integer::from(1) << (c.k as u32)) + 1u32,
        // next to a perfect square s^2 (s of about k/2 bits): s^2 - 1, s^2, s^2 + 1
        w89 => {
            let mut s_ = clmath::int_from_seed(st, (c.k as u32 + 1) / 2 + 1);
            s_.set_bit((c.k as u32 + 1) / 2, true);
            let sq = s_.square();
            if w89 == 8 { sq - 1u32 } else if c.seed % 2 == 0 { sq } else { sq + 1u32 }
        }
    };
    let b = (&a + &w).complete();
    (a, b)
}

fn x_in(c: &Case, a: &Integer, b: &Integer, st: &mut u64) -> Integer {
    let w = (b - a).complete();
    match c.x_class % 6 {
        0 => a.clone(),
        1 => (a + 1u32).complete(),
        2 => a + (w >> 1),
        3 => (b - 1u32).complete(),
        4 => b.clone(),
        _ => {
            let r = clmath::int_from_seed(st, w.significant_bits() + 8) % (w + 1u32);
            a + r
        }
    }
}

fn commit(p: &Params, x: &Integer, st: &mut u64) -> CL03Commitment {
    let mut r = clmath::int_from_seed(st, 1024);
    r.set_bit(1023, true);
    let e = Integer::from(p.g.pow_mod_ref(x, &p.n).unwrap()) * Integer::from(p.h.pow_mod_ref(&r, &p.n).unwrap()) % &p.n;
    CL03Commitment { value: e, randomness: r }
}

/// The randomness of the commitment that is proved about. The scheme's own domain is [-2^s n + 1, 2^s n - 1]
/// (s = 40); the CL03 flows use far shorter values. Classes: about |n| bits (half of the cases), tiny, negative,
/// a fraction of 2^s n of either sign (the prover has to split r' = 2^T r into two shares that both stay inside
/// the domain, and re-draws when one does not), and the two ends of the domain.
fn commit_class(p: &Params, x: &Integer, class: u32, st: &mut u64) -> (CL03Commitment, &'static str) {
    let top = (Integer::from(1) << L_SEC) * &p.n - 1u32;
    let (r, tag): (Integer, &'static str) = match class % 16 {
        8 => (Integer::from(splitmix(st) % 3), "tiny"),
        9 => (-clmath::int_from_seed(st, 1000), "negative"),
        10 | 11 => (Integer::from((top.clone() * Integer::from(1 + splitmix(st) % 15)) >> 4), "fraction-of-2^s*n"),
        12 | 13 => (-Integer::from((top.clone() * Integer::from(1 + splitmix(st) % 15)) >> 4), "negative-fraction-of-2^s*n"),
        14 => (top.clone(), "2^s*n-1"),
        15 => (-top.clone(), "-(2^s*n-1)"),
        _ => return (commit(p, x, st), "about-|n|-bits"),
    };
    let e = Integer::from(p.g.pow_mod_ref(x, &p.n).unwrap()) * Integer::from(p.h.pow_mod_ref(&r, &p.n).unwrap()) % &p.n;
    (CL03Commitment { value: e, randomness: r }, tag)
}

const T_SEC: u32 = 128;
const L_SEC: u32 = 40;

/// public values of the tolerance proof for commitment `e` and interval [a, b]: (E_prime, E_a, E_b)
pub fn public_parts(p: &Params, e: &Integer, a: &Integer, b: &Integer) -> (Integer, Integer, Integer) {
    let w = (b - a).complete();
    let t_big = 2 * (T_SEC + L_SEC + 1) + w.significant_bits();
    let e_prime = Integer::from(e.pow_mod_ref(&Integer::from(2).pow(t_big), &p.n).unwrap());
    let off = Integer::from(2).pow(L_SEC + T_SEC + t_big / 2 + 1) * w.sqrt();
    let aa = Integer::from(2).pow(t_big) * a - &off;
    let bb = Integer::from(2).pow(t_big) * b + &off;
    let e_a = divm(&e_prime, &Integer::from(p.g.pow_mod_ref(&aa, &p.n).unwrap()), &p.n);
    let e_b = divm(&Integer::from(p.g.pow_mod_ref(&bb, &p.n).unwrap()), &e_prime, &p.n);
    (e_prime, e_a, e_b)
}

/// transplant the sub-proofs of the honest range proof `pj` (JSON) onto the commitment value `e2`
pub fn transplant(p: &Params, pj: &Value, e2: &Integer, a: &Integer, b: &Integer, overwrite_square_e: bool) -> Value {
    let (e_prime2, e_a, e_b) = public_parts(p, e2, a, b);
    let ea2 = int_of(&pj["proof_of_tolerance"]["E_a_2"]).unwrap();
    let eb2 = int_of(&pj["proof_of_tolerance"]["E_b_2"]).unwrap();
    let ea1 = divm(&e_a, &ea2, &p.n);
    let eb1 = divm(&e_b, &eb2, &p.n);
    let mut j = pj.clone();
    set_leaf(&mut j, "/E", e2);
    set_leaf(&mut j, "/E_prime", &e_prime2);
    set_leaf(&mut j, "/proof_of_tolerance/E_a_1", &ea1);
    set_leaf(&mut j, "/proof_of_tolerance/E_b_1", &eb1);
    if overwrite_square_e {
        set_leaf(&mut j, "/proof_of_tolerance/proof_of_square_a/E", &ea1);
        set_leaf(&mut j, "/proof_of_tolerance/proof_of_square_b/E", &eb1);
    }
    j
}

fn check_one(rep: &Report, ck: &str, c: &Case, params: &[Params]) -> CheckResult {
    let p = &params[pick(c.modulus, params.len())];
    let mut st = (c.seed as u64) << 7 | 1;
    let (a, b) = interval(c, &mut st);
    let x = x_in(c, &a, &b, &mut st);
    let cj = |d: Value| json!({"case": c, "params": p.id, "a": a.to_string(), "b": b.to_string(), "x": x.to_string(), "detail": d});
    let (com, r_tag) = commit_class(p, &x, c.seed >> 3, &mut st);
    rep.class(&format!("commitment-randomness:{}", r_tag));
    let ver = |pr: &Boudot2000RangeProof, g: &Integer, h: &Integer, n: &Integer, lo: &Integer, hi: &Integer| catch(|| pr.verify::<Sha256>(g, h, n, lo, hi)).unwrap_or(false);

    // ---- positive ---------------------------------------------------------------------------
    // a third of the cases: a call the CL03 code refuses right before proving, another third right before verifying
    if c.seed % 3 == 1 {
        rep.class(&format!("refused-call-before-prove:{}", cl_refused_call(c.seed as u64 >> 2)));
    }
    let proof = match catch(|| Boudot2000RangeProof::prove::<Sha256>(&x, &com, &p.g, &p.h, &p.n, &a, &b)) {
        Ok(pr) => pr,
        Err(e) => return rep.fail(ck, "prover-failed-in-range", format!("prove panicked for an in-range value: {}", e), cj(json!(null))),
    };
    if c.seed % 3 == 2 {
        rep.class(&format!("refused-call-before-verify:{}", cl_refused_call(c.seed as u64 >> 2)));
    }
    rep.eval(ck, 1);
    if !ver(&proof, &p.g, &p.h, &p.n, &a, &b) {
        return rep.fail(ck, "honest-range-proof-rejected", format!("x class {} in an interval of width class {} ({} bits), commitment randomness {}", c.x_class % 6, c.w_class % 10, (&b - &a).complete().significant_bits(), r_tag), cj(json!(null)));
    }
    let pj = serde_json::to_value(&proof).unwrap();
    rep.eval(ck, 1);
    match serde_json::from_value::<Boudot2000RangeProof>(pj.clone()) {
        Ok(p2) if p2 == proof => {}
        _ => return rep.fail(ck, "range-proof-json-roundtrip", "the proof does not survive serde_json".into(), cj(json!(null))),
    }

    // ---- negative (i): honest prover on out-of-range values ---------------------------------
    let width = (&b - &a).complete();
    for (tag, xo) in [
        ("a-1", (&a - 1u32).complete()),
        ("b+1", (&b + 1u32).complete()),
        ("a-2^k", &a - (Integer::from(1) << (c.k as u32 % 200))),
        ("b+2^k", &b + (Integer::from(1) << (c.k as u32 % 200))),
        ("b+width", (&b + &width).complete()),
    ] {
        if xo < 0 {
            continue; // commitments to negative values are outside the prover's domain
        }
        let co = commit(p, &xo, &mut st);
        rep.eval(ck, 1);
        if let Ok(pr) = catch(|| Boudot2000RangeProof::prove::<Sha256>(&xo, &co, &p.g, &p.h, &p.n, &a, &b)) {
            if ver(&pr, &p.g, &p.h, &p.n, &a, &b) {
                return rep.fail(ck, &format!("accepted:out-of-range:{}", tag), format!("the honest prover produced an accepted proof for x = {} outside [a, b]", tag), cj(json!({"x_out": xo.to_string()})));
            }
            rep.class("out-of-range:proof-made-but-rejected");
        } else {
            rep.class("out-of-range:prover-refused");
        }
    }

    // ---- negative (ii): other bounds, bases, modulus --------------------------------------------
    let reject = |family: &str, acc: bool, detail: String| -> CheckResult {
        rep.eval(ck, 1);
        if acc {
            return rep.fail(ck, &format!("accepted:{}", family), format!("verify is true ({}): {}", family, detail), cj(json!({"family": family, "detail": detail})));
        }
        Ok(())
    };
    reject("other-bounds", ver(&proof, &p.g, &p.h, &p.n, &(&a + 1u32).complete(), &b), "a+1".into())?;
    reject("other-bounds", ver(&proof, &p.g, &p.h, &p.n, &a, &(&b + 1u32).complete()), "b+1".into())?;
    if b > (&a + 1u32).complete() {
        reject("other-bounds", ver(&proof, &p.g, &p.h, &p.n, &a, &(&b - 1u32).complete()), "b-1".into())?;
    }
    if a > 0 {
        reject("other-bounds", ver(&proof, &p.g, &p.h, &p.n, &(&a - 1u32).complete(), &b), "a-1".into())?;
    }
    reject("other-bounds", ver(&proof, &p.g, &p.h, &p.n, &a, &(&b + &width).complete()), "double width".into())?;
    reject("other-bases", ver(&proof, &p.h, &p.g, &p.n, &a, &b), "g and h exchanged".into())?;
    reject("other-bases", ver(&proof, &((&p.g * &p.g).complete() % &p.n), &p.h, &p.n, &a, &b), "g^2".into())?;
    let other = &params[(pick(c.modulus, params.len()) + 1) % params.len()];
    if other.n != p.n {
        reject("other-modulus", ver(&proof, &other.g, &other.h, &other.n, &a, &b), other.id.clone())?;
        reject("other-modulus", ver(&proof, &p.g, &p.h, &other.n, &a, &b), "same bases, other modulus".into())?;
    }

    // ---- negative (iv): transplant onto other commitments ------------------------------------------
    // self-check of the transplant arithmetic first: transplanting onto the honest commitment itself must
    // reproduce the honest proof (so that "rejected" is not an artefact of wrong public parts).  If the tree
    // under test derives T / aa / bb differently (a consistent change of prover and verifier), the family
    // cannot be assembled for this case: it is skipped and counted, and a run without any transplant is
    // reported as inconclusive by run().
    let reproducible = {
        let (e_prime2, e_a, e_b) = public_parts(p, &com.value, &a, &b);
        let ea2 = int_of(&pj["proof_of_tolerance"]["E_a_2"]).unwrap();
        let eb2 = int_of(&pj["proof_of_tolerance"]["E_b_2"]).unwrap();
        Some(e_prime2) == int_of(&pj["E_prime"]) && Some(divm(&e_a, &ea2, &p.n)) == int_of(&pj["proof_of_tolerance"]["E_a_1"]) && Some(divm(&e_b, &eb2, &p.n)) == int_of(&pj["proof_of_tolerance"]["E_b_1"])
    };
    if reproducible {
        let targets: Vec<(&str, Integer)> = vec![
            ("commitment to b+1", commit(p, &(&b + 1u32).complete(), &mut st).value),
            ("commitment to a far value", commit(p, &(&b + (Integer::from(1) << 300u32)), &mut st).value),
            ("random group element", Integer::from(p.h.pow_mod_ref(&clmath::int_from_seed(&mut st, 900), &p.n).unwrap()) * &p.g % &p.n),
            ("commitment to x with other randomness", commit(p, &x, &mut st).value),
        ];
        for (tn, e2) in targets {
            for overwrite_square_e in [false, true] {
                let j = transplant(p, &pj, &e2, &a, &b, overwrite_square_e);
                let Ok(tp) = serde_json::from_value::<Boudot2000RangeProof>(j) else { continue };
                reject(
                    if overwrite_square_e { "transplant+square-E-overwritten" } else { "transplant" },
                    ver(&tp, &p.g, &p.h, &p.n, &a, &b),
                    format!("sub-proofs of an honest proof transplanted onto a {}", tn),
                )?;
            }
        }
        rep.class("transplant-executed");
    } else {
        rep.class("transplant-skipped(public parts not reproducible)");
    }

    // ---- negative (v): degenerate square proofs -----------------------------------------------------------
    // F := 0 (or n) has no inverse modulo n.  A verifier that maps the missing inverse to 0 recomputes both hashed
    // commitments as 0 and accepts challenge = H("00"); one that maps it to 1 recomputes (g^d h^d1, 0) and accepts
    // challenge = H(g^d h^d1 || "0"): both computable without any secret, for any commitment
    for which in ["proof_of_square_a", "proof_of_square_b"] {
        for (zn, zero) in [("0", Integer::new()), ("n", p.n.clone())] {
            for variant in 0..2 {
                let base = format!("/proof_of_tolerance/{}", which);
                let (Some(d), Some(d1)) = (int_of(&pj.pointer(&format!("{}/proof_ss/d", base)).cloned().unwrap_or(Value::Null)), int_of(&pj.pointer(&format!("{}/proof_ss/d_1", base)).cloned().unwrap_or(Value::Null))) else { continue };
                let text = if variant == 0 {
                    "00".to_string()
                } else {
                    let lhs = Integer::from(p.g.pow_mod_ref(&d, &p.n).unwrap()) * Integer::from(p.h.pow_mod_ref(&d1, &p.n).unwrap()) % &p.n;
                    lhs.to_string() + "0"
                };
                let ch = Integer::from_digits(<Sha256 as digest::Digest>::digest(text.as_bytes()).as_slice(), rug::integer::Order::MsfBe);
                let mut j = pj.clone();
                if !set_leaf(&mut j, &format!("{}/F", base), &zero) || !set_leaf(&mut j, &format!("{}/proof_ss/challenge", base), &ch) {
                    continue;
                }
                let Ok(fp) = serde_json::from_value::<Boudot2000RangeProof>(j) else { continue };
                reject("degenerate-square-proof", ver(&fp, &p.g, &p.h, &p.n, &a, &b), format!("{}: F := {}, challenge := H({})", which, zn, if variant == 0 { "\"00\"" } else { "g^d h^d1 || \"0\"" }))?;
            }
        }
    }

    // a second, fresh proof object whose FIRST verifications are refused ones (exchanged base, foreign base,
    // other bounds), then its own statement (every second case)
    if c.seed % 2 == 0 {
        if let Ok(p2) = catch(|| Boudot2000RangeProof::prove::<Sha256>(&x, &com, &p.g, &p.h, &p.n, &a, &b)) {
            let h2 = (&p.h * &p.h).complete() % &p.n;
            let g2 = (&p.g * &p.h).complete() % &p.n;
            let _ = ver(&p2, &p.g, &h2, &p.n, &a, &b);
            let _ = ver(&p2, &g2, &p.h, &p.n, &a, &b);
            let _ = ver(&p2, &p.g, &p.h, &p.n, &a, &(&b + 1u32).complete());
            rep.eval(ck, 1);
            if !ver(&p2, &p.g, &p.h, &p.n, &a, &b) {
                return rep.fail(ck, "honest-range-proof-rejected-after-refusals", "a fresh range proof object first offered under other bases / bounds (refused) is then refused for its own statement too".into(), cj(json!(null)));
            }
        }
    }
    // the same proof object after the refused verifications above: still accepted for its own statement
    rep.eval(ck, 1);
    if !ver(&proof, &p.g, &p.h, &p.n, &a, &b) {
        return rep.fail(ck, "honest-range-proof-rejected-after-refusals", "the same range proof object no longer verifies for its own bounds after it was refused under other bounds / bases".into(), cj(json!(null)));
    }
    // ---- negative (iii): every integer leaf ----------------------------------------------------------
    let leaves = int_leaves(&pj);
    let edits = pick_edits(&leaves, c.leaf_edits, &mut st);
    if c.leaf_edits == 0 || c.leaf_edits >= leaves.len() * EDIT_KINDS as usize {
        rep.exhaustive(format!("every integer leaf ({}) of a range proof x {{+1, -1, 0, sibling, high bit flipped, +2^k for k >= 128}}", leaves.len()));
    }
    for (li, e) in edits {
        let (path, val) = &leaves[li];
        let nv = edit_leaf(&leaves, li, e);
        if nv == *val {
            continue;
        }
        let mut j2 = pj.clone();
        set_leaf(&mut j2, path, &nv);
        let Ok(p2) = serde_json::from_value::<Boudot2000RangeProof>(j2) else { continue };
        rep.class_n("leaf-edits", 1);
        let tag = EDIT_TAGS[e as usize];
        reject(&format!("altered-field:{}", generic_path(path)), ver(&p2, &p.g, &p.h, &p.n, &a, &b), format!("{} {}", path, tag))?;
    }

    // the three (interval, x) settings the crate itself exercises are the trivial ones
    let crate_interval = (c.a_class % 5 == 0 && c.w_class % 10 == 4) || (c.a_class % 5 == 2 && c.w_class % 10 == 3 && c.k == 257);
    if !(crate_interval && c.x_class % 6 == 5) {
        rep.nontrivial(ck, &json!({"c": c, "params": p.id}));
    }
    rep.class(&format!("width-class={}", ["1", "2", "3", "2^k", "2^256-1", "random", "2^k-1", "2^k+1", "s^2-1", "s^2 / s^2+1"][(c.w_class % 10) as usize]));
    rep.class(&format!("x={}", ["a", "a+1", "mid", "b-1", "b", "random"][(c.x_class % 6) as usize]));
    rep.class(&format!("a-class={}", c.a_class % 5));
    rep.sample(ck, json!({"params": p.id, "a": short(&a), "b": short(&b), "x": short(&x), "leaves": leaves.len()}));
    Ok(())
}

pub fn make_params(keys: &[ClKey], own: Option<&CL03CommitmentPublicKey>) -> Vec<Params> {
    let mut out = vec![];
    for k in keys {
        let cpk = CL03CommitmentPublicKey::generate::<CL1024Sha256>(Some(k.pk.N.clone()), Some(2));
        out.push(Params { n: cpk.N.clone(), g: cpk.g_bases[0].clone(), h: cpk.h.clone(), id: format!("commitment key over the modulus of {}", k.id) });
        // the issuance proof uses the issuer's own (a_i, b) pair
        let bases = Bases::generate(&k.pk, 1);
        out.push(Params { n: k.pk.N.clone(), g: bases.0[0].clone(), h: k.pk.b.clone(), id: format!("(a_0, b) of {}", k.id) });
    }
    if let Some(o) = own {
        out.push(Params { n: o.N.clone(), g: o.g_bases[0].clone(), h: o.h.clone(), id: "commitment key over its own modulus".into() });
    }
    out
}

pub fn run(ctx: &Ctx, rep: &Report) -> Meta {
    let (keys, own) = std::thread::scope(|s| {
        let h = s.spawn(|| CL03CommitmentPublicKey::generate::<CL1024Sha256>(None, Some(1)));
        (key_pool(ClSuite::CL1024, 1, ctx.tier.pick(3, 6), ctx.seed), h.join().ok())
    });
    let params = make_params(&keys, own.as_ref());
    rep.note(format!("{} (modulus, g, h) triples", params.len()));
    // the grid of boundary positions: every x class x every width class, a = 0 and a = 2^257 + 1
    let mut grid = vec![];
    let mut k = 0u32;
    for w in 0..10u8 {
        for xc in 0..6u8 {
            for ac in [0u8, 2, 3] {
                k += 1;
                if ctx.tier == Tier::Quick && ac == 3 && (w + xc) % 2 == 1 {
                    continue;
                }
                grid.push(Case { modulus: (k * 7919) as u16, a_class: ac, w_class: w, k: [1u16, 2, 7, 64, 255, 256, 59, 60, 63, 128][(k % 10) as usize], x_class: xc, seed: (ctx.seed as u32).wrapping_add(k), leaf_edits: ctx.tier.pick(6, 40) });
            }
        }
    }
    par_items(ctx, rep, "boundary-grid", &grid, |c| check_one(rep, "boundary-grid", c, &params));
    if !rep.aborted() {
        rep.exhaustive("x position {a, a+1, mid, b-1, b, random} x width class {1, 2, 3, 2^k, 2^256-1, random, 2^k-1, 2^k+1, s^2-1, s^2 / s^2+1} x a in {0, 2^257+1, random}".into());
    }
    // every width size: 2^k - 1, 2^k + 1 and the neighbours of a perfect square of k bits, for every k (an integer
    // square root or a bit length computed in machine words goes wrong at one particular size); honest proofs at
    // both ends of the interval must verify
    let ks: Vec<u32> = (2..=ctx.tier.pick(130u32, 300u32)).collect();
    par_items(ctx, rep, "width-sweep", &ks, |&kk| {
        let p = &params[(kk as usize) % params.len()];
        let mut st = ctx.seed ^ ((kk as u64) << 20) | 1;
        let mut s_ = clmath::int_from_seed(&mut st, kk / 2 + 1);
        s_.set_bit(kk / 2, true);
        let sq = s_.clone().square();
        // the largest and the smallest root whose square has kk or kk + 1 bits
        let top: Integer = (Integer::from(1) << ((kk + 1) / 2)) - 1u32;
        for (wn, w) in [("2^k-1", (Integer::from(1) << kk) - 1u32), ("2^k+1", (Integer::from(1) << kk) + 1u32), ("s^2-1", (&sq - 1u32).complete()), ("s^2", sq.clone()), ("(2^ceil(k/2)-1)^2-1", top.clone().square() - 1u32), ("(2^ceil(k/2))^2-1", (top + 1u32).square() - 1u32)] {
            if w < 1 {
                continue;
            }
            let a = if kk % 3 == 0 { Integer::from(0) } else { clmath::int_from_seed(&mut st, 1 + kk % 200) };
            let b = (&a + &w).complete();
            for (xn, x) in [("a", a.clone()), ("b", b.clone())] {
                let com = commit(p, &x, &mut st);
                rep.eval("width-sweep", 1);
                let ok = catch(|| Boudot2000RangeProof::prove::<Sha256>(&x, &com, &p.g, &p.h, &p.n, &a, &b).verify::<Sha256>(&p.g, &p.h, &p.n, &a, &b)).unwrap_or(false);
                if !ok {
                    return rep.fail("width-sweep", "honest-range-proof-rejected", format!("x = {} of an interval of width {} with k = {} ({} bits) is refused", xn, wn, kk, w.significant_bits()), json!({"k": kk, "width": w.to_string(), "a": a.to_string(), "x": xn, "params": p.id}));
                }
            }
        }
        rep.nontrivial("width-sweep", &json!({"k": kk}));
        Ok(())
    });
    if !rep.aborted() && rep.class_count("transplant-executed") == 0 {
        out("INCONCLUSIVE property=C16 the harness' recomputation of E_prime / E_a / E_b never reproduced an honest proof: the transplant family could not be assembled");
        std::process::exit(2);
    }
    let le = ctx.tier.pick(10usize, 0usize);
    run_cases(ctx, rep, "generated", ctx.tier.pick(200, 1500), 40, || strat(le), |c| check_one(rep, "generated", c, &params));
    Meta {
        rule: "modulus and bases from commitment keys over issuer moduli, issuer (a_0, b) pairs and a commitment key over its own modulus; intervals [a, b] with a in {0, 1, 2^257+1, random} and b - a in {1, 2, 3, 2^k (k = 1..256), 2^256-1, random, 2^k-1, 2^k+1, s^2-1, s^2, s^2+1}; width-sweep: honest proofs at both ends of intervals of width 2^k-1, 2^k+1, s^2-1, s^2 and the squares of 2^ceil(k/2)-1 and 2^ceil(k/2) minus one for EVERY k in 2..=130 (quick) / 300 (thorough); \
               x in {a, a+1, mid, b-1, b, random}; commitment randomness of about |n| bits (half of the cases), tiny, negative, a fraction k/16 of 2^40*n of either sign, +-(2^40*n - 1); in a third of the cases a call the CL03 code refuses (ten kinds on CL1024 objects of their own: changed attribute, fewer bases than attributes, other / out-of-range hidden positions, a commitment key without a base or with h = 0, a range proof under other bounds or h = 0, a value outside the interval, blind_sign for another commitment) right before proving, in another third right before verifying; positive: verify(prove(x)) true and the proof survives JSON; negative: (i) the honest prover on a-1, b+1, a-2^k, b+2^k, b+width yields no accepted proof (a panic counts as no proof), \
               (ii) other bounds / exchanged or squared bases / other modulus, (iii) integer leaves perturbed by +1, -1, := 0, := sibling, one high bit flipped, +2^k for k in {128, 160, 256, 300} (sampled in quick, all leaves in thorough), \
               (iv) transplant of the sub-proofs onto commitments to b+1, a far value, a random group element, the same value with other randomness, with and without overwriting the square proofs' E; \
               (v) degenerate square proofs: F := 0 or n with challenge := H(\"00\") or H(g^d h^d1 || \"0\") (what a verifier that maps a missing inverse to 0 or 1 recomputes; no secret needed); self-check: the harness' public recomputation reproduces the honest proof; non-trivial = outside the (interval, mid-range x) settings the crate uses itself; evaluations = verifier decisions"
            .into(),
        assumptions: vec!["0 <= a < b (the domain every caller in the crate uses)".into(), "CL1024-size moduli".into()],
    }
}

pub fn replay(ctx: &Ctx, rep: &Report, ck: &str, case: &Value) -> CheckResult {
    if ck == "width-sweep" {
        let perr = || Fail { check: ck.into(), site: "replay-parse".into(), msg: "width-sweep case".into(), case: case.clone() };
        let w: Integer = case["width"].as_str().and_then(|x| x.parse().ok()).ok_or_else(perr)?;
        let a: Integer = case["a"].as_str().and_then(|x| x.parse().ok()).ok_or_else(perr)?;
        let b = (&a + &w).complete();
        let x = if case["x"] == "a" { a.clone() } else { b.clone() };
        let keys = key_pool(ClSuite::CL1024, 0, 2, ctx.seed);
        let params = make_params(&keys, None);
        let mut st = 77u64;
        for p in &params {
            let com = commit(p, &x, &mut st);
            if !catch(|| Boudot2000RangeProof::prove::<Sha256>(&x, &com, &p.g, &p.h, &p.n, &a, &b).verify::<Sha256>(&p.g, &p.h, &p.n, &a, &b)).unwrap_or(false) {
                return Err(Fail { check: ck.into(), site: "honest-range-proof-rejected".into(), msg: format!("width {} bits", w.significant_bits()), case: case.clone() });
            }
        }
        return Ok(());
    }
    let c: Case = serde_json::from_value(case["case"].clone()).map_err(|e| Fail { check: ck.into(), site: "replay-parse".into(), msg: e.to_string(), case: case.clone() })?;
    let keys = key_pool(ClSuite::CL1024, 0, 2, ctx.seed);
    let params = make_params(&keys, None);
    check_one(rep, ck, &c, &params)
}

// ---------------------------------------------------------------------------------------------
// A prover that deviates from the honest algorithm (outside the quantifier of C16, which speaks of the
// honest prover, transplants and field edits): used only by `zkverif range-forgery-probe`, see DESIGN §11.6.

fn h_int(s: String) -> Integer {
    use sha2::Digest;
    Integer::from_digits(Sha256::digest(s).as_slice(), rug::integer::Order::MsfBe)
}

fn powm(b: &Integer, e: &Integer, n: &Integer) -> Integer {
    Integer::from(b.pow_mod_ref(e, n).unwrap())
}

/// Build a range proof for an arbitrary committed x (opening known) choosing x_1 = 0 when x - bound is
/// negative, i.e. letting the "small remainder" carry the whole (negative) distance to the bound.
pub fn deviating_prover(p: &Params, x: &Integer, r: &Integer, a: &Integer, b: &Integer, st: &mut u64) -> Value {
    let n = &p.n;
    let (g, h) = (&p.g, &p.h);
    let w = (b - a).complete();
    let t_big = 2 * (T_SEC + L_SEC + 1) + w.significant_bits();
    let two_t = Integer::from(2).pow(t_big);
    let off = Integer::from(2).pow(L_SEC + T_SEC + t_big / 2 + 1) * w.clone().sqrt();
    let aa = (&two_t * a).complete() - &off;
    let bb = (&two_t * b).complete() + &off;
    let e = powm(g, x, n) * powm(h, r, n) % n;
    let e_prime = powm(&e, &two_t, n);
    let xp = (&two_t * x).complete();
    let rp = (&two_t * r).complete();
    let side = |xs: Integer, rs: Integer, st: &mut u64| -> (Integer, Integer, Value, Value) {
        // xs = x_1^2 + x_2 with x_1 = floor(sqrt(xs)) if xs >= 0, else x_1 = 0 and x_2 = xs < 0
        let x1 = if xs >= 0 { xs.clone().sqrt() } else { Integer::new() };
        let x2: Integer = &xs - x1.clone().square();
        let r1 = clmath::int_from_seed(st, 1500);
        let r2 = (&rs - &r1).complete();
        let e1 = powm(g, &x1.clone().square(), n) * powm(h, &r1, n) % n;
        let e2 = powm(g, &x2, n) * powm(h, &r2, n) % n;
        // proof of square
        let q2 = clmath::int_from_seed(st, 1060);
        let f = powm(g, &x1, n) * powm(h, &q2, n) % n;
        let q3 = (&r1 - (&q2 * &x1).complete());
        let (om, mu1, mu2) = (clmath::int_from_seed(st, 1000), clmath::int_from_seed(st, 1400), clmath::int_from_seed(st, 2400));
        let w1 = powm(g, &om, n) * powm(h, &mu1, n) % n;
        let w2 = powm(&f, &om, n) * powm(h, &mu2, n) % n;
        let c = h_int(w1.to_string() + &w2.to_string());
        let sq = json!({"E": int_val(&e1), "F": int_val(&f), "proof_ss": {"challenge": int_val(&c), "d": int_val(&(&om + (&c * &x1).complete())), "d_1": int_val(&(&mu1 + (&c * &q2).complete())), "d_2": int_val(&(&mu2 + (&c * &q3).complete()))}});
        // large-interval proof with w chosen by the prover in the upper half of its range
        let top = (Integer::from(2).pow(t_big) * Integer::from(2).pow(T_SEC + L_SEC)) * b;
        let mut tries = 0;
        let li = loop {
            tries += 1;
            if tries > 300 {
                break json!({"C": int_val(&Integer::from(1)), "D_1": int_val(&Integer::from(1)), "D_2": int_val(&Integer::from(1))});
            }
            let wv = (&top >> 1u32).complete() + clmath::int_from_seed(st, top.significant_bits() - 3);
            let nu = clmath::int_from_seed(st, 2600);
            let omega = powm(g, &wv, n) * powm(h, &nu, n) % n;
            let cc = h_int(omega.to_string());
            let c = cc.clone().keep_bits(T_SEC);
            let d1 = (&wv + (&x2 * &c).complete());
            let d2 = (&nu + (&r2 * &c).complete());
            if (&c * b).complete() <= d1 && d1 <= (Integer::from(2).pow(t_big) * (Integer::from(2).pow(T_SEC + L_SEC) * b - 1u32)) {
                break json!({"C": int_val(&cc), "D_1": int_val(&d1), "D_2": int_val(&d2)});
            }
        };
        (e1, e2, sq, li)
    };
    let (ea1, ea2, sqa, lia) = side((&xp - &aa).complete(), rp.clone(), st);
    let (eb1, eb2, sqb, lib) = side((&bb - &xp).complete(), (-&rp).complete(), st);
    json!({
        "proof_of_tolerance": {"E_a_1": int_val(&ea1), "E_a_2": int_val(&ea2), "E_b_1": int_val(&eb1), "E_b_2": int_val(&eb2),
            "proof_of_square_a": sqa, "proof_of_square_b": sqb, "proof_large_i_a": lia, "proof_large_i_b": lib},
        "E_prime": int_val(&e_prime),
        "E": int_val(&e),
    })
}

/// `zkverif range-forgery-probe`: does the verifier accept the deviating prover for out-of-range values?
pub fn probe() {
    let keys = key_pool(ClSuite::CL1024, 0, 1, 1);
    let params = make_params(&keys, None);
    let p = &params[0];
    let mut st = 12345u64;
    let a = Integer::from(0);
    let b = (Integer::from(1) << 256) - 1u32;
    for (what, x) in [
        ("in range (control)", Integer::from(1) << 200u32),
        ("b + 1", Integer::from(&b + 1u32)),
        ("b + 2^100", Integer::from(&b + &(Integer::from(1) << 100u32))),
        ("b + 2^290", Integer::from(&b + &(Integer::from(1) << 290u32))),
        ("2^400", Integer::from(1) << 400u32),
        ("-1", Integer::from(-1)),
        ("-2^200", Integer::from(-1) << 200u32),
    ] {
        let r = clmath::int_from_seed(&mut st, 1024);
        let j = deviating_prover(p, &x, &r, &a, &b, &mut st);
        let ok = serde_json::from_value::<Boudot2000RangeProof>(j).map(|pr| catch(|| pr.verify::<Sha256>(&p.g, &p.h, &p.n, &a, &b)).unwrap_or(false));
        println!("x = {:<20} verifier says {:?}", what, ok);
        use std::io::Write;
        let _ = std::io::stdout().flush();
    }
}
