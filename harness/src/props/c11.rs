//! C11 — Domain separation between ciphersuites, interfaces and sizes.

use crate::bbs::*;
use crate::engine::*;
use crate::gen::*;
use crate::props::c10::ApiSel;
use crate::with_suite;
use bls12_381_plus::group::{Curve, Group};
use bls12_381_plus::G1Projective;
use proptest::prelude::*;
use serde::{Deserialize, Serialize};
use serde_json::{json, Value};
use std::collections::HashSet;

#[derive(Clone, Debug, Serialize, Deserialize)]
pub struct Case {
    pub suite: SuiteId,
    pub key: KeySpec,
    pub header: OptBytes,
    pub ph: OptBytes,
    pub msgs: MsgVec,
    pub committed: MsgVec,
    pub mask: u32,
    pub cmask: u32,
}

fn strat() -> impl Strategy<Value = Case> {
    (suite(), key_spec_simple(), opt_bytes(HDR_LENS_SMALL), opt_bytes(HDR_LENS_SMALL), msg_vec_range(0, 6, MSG_LENS_SMALL), msg_vec_range(0, 4, MSG_LENS_SMALL), any::<u32>(), any::<u32>())
        .prop_map(|(suite, key, header, ph, msgs, committed, mask, cmask)| Case { suite, key, header, ph, msgs, committed, mask, cmask })
}

fn cross<CS: BbsCiphersuite, CS2: BbsCiphersuite>(rep: &Report, ck: &str, c: &Case) -> CheckResult {
    let cj = || json!({"case": c});
    let herr = |w: &str, e: String| Fail { check: ck.into(), site: format!("honest-{}", w), msg: e, case: cj() };
    let reject = |pair: &str, accepted: bool, how: &str| -> CheckResult {
        rep.eval(ck, 1);
        rep.class(&format!("pair:{}", pair));
        if accepted {
            return rep.fail(ck, &format!("foreign-artefact-accepted:{}", pair), format!("{} ({})", pair, how), json!({"case": c, "pair": pair, "how": how}));
        }
        Ok(())
    };
    let kp = keypair::<CS>(&c.key).map_err(|e| herr("keygen", format!("{:?}", e)))?;
    let (sk, pk) = (kp.private_key(), kp.public_key());
    // the "same key" under the other suite: same octets, and the key derived from the same material
    let kp2 = keypair::<CS2>(&c.key).map_err(|e| herr("keygen2", format!("{:?}", e)))?;
    let pks2: Vec<BBSplusPublicKey> = vec![pk.clone(), kp2.public_key().clone()];
    let msgs = c.msgs.materialize();
    let cm = c.committed.materialize();
    let (l, m) = (msgs.len(), cm.len());
    let (header, ph) = (c.header.get(), c.ph.get());
    let (hdr, phd) = (header.as_deref(), ph.as_deref());
    let di = mask_to_indexes(c.mask & ((1u32 << l) - 1), l);
    let dci = mask_to_indexes(c.cmask & ((1u32 << m) - 1), m);
    let dm: Vec<Vec<u8>> = di.iter().map(|&i| msgs[i].clone()).collect();
    let dcm: Vec<Vec<u8>> = dci.iter().map(|&j| cm[j].clone()).collect();

    // honest artefacts under (CS, plain) and (CS, blind)
    let sig = Signature::<BBSplus<CS>>::sign(Some(&msgs), sk, pk, hdr).map_err(|e| herr("sign", format!("{:?}", e)))?;
    let proof = PoKSignature::<BBSplus<CS>>::proof_gen(pk, &sig.to_bytes(), hdr, phd, Some(&msgs), Some(&di)).map_err(|e| herr("proof_gen", format!("{:?}", e)))?;
    let (com, bf) = Commitment::<BBSplus<CS>>::commit(Some(&cm)).map_err(|e| herr("commit", format!("{:?}", e)))?;
    let bsig = BlindSignature::<BBSplus<CS>>::blind_sign(sk, pk, Some(&com.to_bytes()), hdr, Some(&msgs)).map_err(|e| herr("blind_sign", format!("{:?}", e)))?;
    let bproof = PoKSignature::<BBSplus<CS>>::blind_proof_gen(pk, &bsig.to_bytes(), hdr, phd, Some(&msgs), Some(&cm), Some(&di), Some(&dci), Some(&bf)).map_err(|e| herr("blind_proof_gen", format!("{:?}", e)))?;
    // positive controls
    sig.verify(pk, Some(&msgs), hdr).map_err(|e| herr("verify", format!("{:?}", e)))?;
    proof.proof_verify(pk, Some(&dm), Some(&di), hdr, phd).map_err(|e| herr("proof_verify", format!("{:?}", e)))?;
    bsig.verify_blind_sign(pk, hdr, Some(&msgs), Some(&cm), Some(&bf)).map_err(|e| herr("verify_blind_sign", format!("{:?}", e)))?;
    bproof.blind_proof_verify(pk, hdr, phd, Some(l), Some(&dm), Some(&dcm), Some(&di), Some(&dci)).map_err(|e| herr("blind_proof_verify", format!("{:?}", e)))?;

    let s = CS::ID;
    let s2 = CS2::ID;
    let nm = |a: &[u8]| String::from_utf8_lossy(a).replace("BBS_BLS12381G1_", "").replace("_SSWU_RO_", "");
    let (sn, sn2) = (nm(s), nm(s2));

    // ---- other suite, same interface -----------------------------------------------------------
    for k in &pks2 {
        if let Ok(x) = Signature::<BBSplus<CS2>>::from_bytes(&sig.to_bytes()) {
            reject(&format!("sig({},plain)->verify({},plain)", sn, sn2), x.verify(k, Some(&msgs), hdr).is_ok(), "signature octets under the other suite")?;
        }
        if let Ok(x) = PoKSignature::<BBSplus<CS2>>::from_bytes(&proof.to_bytes()) {
            reject(&format!("proof({},plain)->proof_verify({},plain)", sn, sn2), x.proof_verify(k, Some(&dm), Some(&di), hdr, phd).is_ok(), "")?;
            reject(&format!("proof({},plain)->blind_proof_verify({},blind)", sn, sn2), catch(|| x.blind_proof_verify(k, hdr, phd, Some(l), Some(&dm), None, Some(&di), None).is_ok()).unwrap_or(false), "")?;
        }
        if let Ok(x) = BlindSignature::<BBSplus<CS2>>::from_bytes(&bsig.to_bytes()) {
            reject(&format!("blindsig({},blind)->verify_blind_sign({},blind)", sn, sn2), x.verify_blind_sign(k, hdr, Some(&msgs), Some(&cm), Some(&bf)).is_ok(), "")?;
        }
        if let Ok(x) = PoKSignature::<BBSplus<CS2>>::from_bytes(&bproof.to_bytes()) {
            reject(&format!("blindproof({},blind)->blind_proof_verify({},blind)", sn, sn2), x.blind_proof_verify(k, hdr, phd, Some(l), Some(&dm), Some(&dcm), Some(&di), Some(&dci)).is_ok(), "")?;
        }
    }
    reject(
        &format!("commitment({})->blind_sign({})", sn, sn2),
        BlindSignature::<BBSplus<CS2>>::blind_sign(kp2.private_key(), kp2.public_key(), Some(&com.to_bytes()), hdr, Some(&msgs)).is_ok(),
        "commitment octets of one suite handed to the signer of the other",
    )?;

    // ---- the commitment validated under any other interface identifier (public helper) ----------------
    {
        let cb = com.to_bytes();
        let bg = |id: &[u8]| Generators::create::<CS>(m + 1, Some(&[b"BLIND_", id].concat()));
        // positive control: the right identifier validates
        if Commitment::<BBSplus<CS>>::deserialize_and_validate_commit(Some(&cb), &bg(CS::API_ID_BLIND), Some(CS::API_ID_BLIND)).is_err() {
            return Err(herr("validate-commit", "honest commitment rejected under its own api_id".into()));
        }
        let long = |n: usize| -> Vec<u8> { let mut v = CS::API_ID_BLIND.to_vec(); v.resize(n, b'x'); v };
        let ids: Vec<(String, Vec<u8>)> = vec![
            ("plain api_id".into(), CS::API_ID.to_vec()),
            ("other suite's blind api_id".into(), CS2::API_ID_BLIND.to_vec()),
            ("empty".into(), vec![]),
            ("custom".into(), b"MY_APP_".to_vec()),
            ("blind api_id padded to 200 octets".into(), long(200)),
            ("blind api_id padded to 251 octets".into(), long(251)),
            ("blind api_id padded to 252 octets".into(), long(252)),
            ("blind api_id padded to 255 octets".into(), long(255)),
            ("blind api_id padded to 300 octets".into(), long(300)),
        ];
        for (what, id) in ids {
            for gens_id in [&id[..], CS::API_ID_BLIND] {
                let acc = catch(|| Commitment::<BBSplus<CS>>::deserialize_and_validate_commit(Some(&cb), &bg(gens_id), Some(&id)).is_ok()).unwrap_or(false);
                reject(&format!("commitment({},blind)->validate_commit(other api_id)", sn), acc, &what)?;
            }
        }
    }

    // ---- same suite, other interface ---------------------------------------------------------
    let all: Vec<Vec<u8>> = msgs.iter().cloned().chain(cm.iter().cloned()).collect();
    if let Ok(x) = BlindSignature::<BBSplus<CS>>::from_bytes(&sig.to_bytes()) {
        let p = format!("sig({0},plain)->verify_blind_sign({0},blind)", sn);
        reject(&p, x.verify_blind_sign(pk, hdr, Some(&msgs), None, None).is_ok(), "all messages as signer messages")?;
        reject(&p, x.verify_blind_sign(pk, hdr, None, Some(&msgs), None).is_ok(), "all messages as committed messages")?;
        for k in 1..=l.min(3) {
            let (a, b) = msgs.split_at(l - k);
            reject(&p, x.verify_blind_sign(pk, hdr, Some(a), Some(b), None).is_ok(), "trailing messages as committed")?;
            reject(&p, x.verify_blind_sign(pk, hdr, Some(a), Some(&b[1..]), None).is_ok(), "one message in the blinding slot")?;
        }
    }
    {
        let p = format!("proof({0},plain)->blind_proof_verify({0},blind)", sn);
        reject(&p, catch(|| proof.blind_proof_verify(pk, hdr, phd, Some(l), Some(&dm), None, Some(&di), None).is_ok()).unwrap_or(false), "L = all")?;
        reject(&p, catch(|| proof.blind_proof_verify(pk, hdr, phd, Some(0), None, Some(&dm), None, Some(&di)).is_ok()).unwrap_or(false), "L = 0, disclosed as committed")?;
        reject(&p, catch(|| proof.blind_proof_verify(pk, hdr, phd, None, Some(&dm), None, Some(&di), None).is_ok()).unwrap_or(false), "L = None")?;
        if l >= 1 {
            reject(&p, catch(|| proof.blind_proof_verify(pk, hdr, phd, Some(l - 1), Some(&dm), None, Some(&di), None).is_ok()).unwrap_or(false), "L - 1")?;
        }
    }
    if let Ok(x) = Signature::<BBSplus<CS>>::from_bytes(&bsig.to_bytes()) {
        let p = format!("blindsig({0},blind)->verify({0},plain)", sn);
        reject(&p, x.verify(pk, Some(&msgs), hdr).is_ok(), "signer messages")?;
        reject(&p, x.verify(pk, Some(&all), hdr).is_ok(), "signer + committed messages")?;
        let mut with_slot = msgs.clone();
        with_slot.push(bf.to_bytes().to_vec());
        with_slot.extend(cm.iter().cloned());
        reject(&p, x.verify(pk, Some(&with_slot), hdr).is_ok(), "signer + blind factor octets + committed")?;
    }
    // the degenerate blind artefacts: issued without a commitment (and presented without a prover blind) they cover
    // the signer messages plus an empty blinding slot; the plain verifiers must refuse them all the same
    if let Ok(b0) = BlindSignature::<BBSplus<CS>>::blind_sign(sk, pk, None, hdr, Some(&msgs)) {
        if let Ok(x) = Signature::<BBSplus<CS>>::from_bytes(&b0.to_bytes()) {
            let p = format!("blindsig-without-commitment({0},blind)->verify({0},plain)", sn);
            reject(&p, x.verify(pk, Some(&msgs), hdr).is_ok(), "signer messages")?;
            let mut with_slot = msgs.clone();
            with_slot.push(vec![0u8; 32]);
            reject(&p, x.verify(pk, Some(&with_slot), hdr).is_ok(), "signer messages + 32 zero octets")?;
            // ... also right after the blind verifier has accepted it, and on a second attempt
            let _ = b0.verify_blind_sign(pk, hdr, Some(&msgs), None, None);
            reject(&p, x.verify(pk, Some(&msgs), hdr).is_ok(), "signer messages, after verify_blind_sign accepted the same octets")?;
        }
        if let Ok(bp0) = PoKSignature::<BBSplus<CS>>::blind_proof_gen(pk, &b0.to_bytes(), hdr, phd, Some(&msgs), None, Some(&di), None, None) {
            let p = format!("blindproof-without-commitment({0},blind)->proof_verify({0},plain)", sn);
            reject(&p, bp0.proof_verify(pk, Some(&dm), Some(&di), hdr, phd).is_ok(), "signer part")?;
        }
    }
    // and the other way round: a plain signature offered as a blind signature issued without commitment
    if let Ok(x) = BlindSignature::<BBSplus<CS>>::from_bytes(&sig.to_bytes()) {
        let p = format!("sig({0},plain)->verify_blind_sign({0},blind)", sn);
        reject(&p, x.verify_blind_sign(pk, hdr, Some(&msgs), Some(&[]), None).is_ok(), "no committed messages (empty list), no blind")?;
    }
    {
        let p = format!("blindproof({0},blind)->proof_verify({0},plain)", sn);
        let ci: Vec<usize> = di.iter().cloned().chain(dci.iter().map(|j| j + l + 1)).collect();
        let cmsg: Vec<Vec<u8>> = dm.iter().cloned().chain(dcm.iter().cloned()).collect();
        reject(&p, bproof.proof_verify(pk, Some(&cmsg), Some(&ci), hdr, phd).is_ok(), "combined lists")?;
        reject(&p, bproof.proof_verify(pk, Some(&dm), Some(&di), hdr, phd).is_ok(), "signer part only")?;
    }
    rep.nontrivial(ck, c);
    rep.sample(ck, json!({"suite": c.suite.name(), "L": l, "M": m, "disclosed": di, "disclosed_committed": dci}));
    Ok(())
}

fn check(rep: &Report, ck: &str, c: &Case) -> CheckResult {
    match c.suite {
        SuiteId::Sha256 => cross::<Bls12381Sha256, Bls12381Shake256>(rep, ck, c),
        SuiteId::Shake256 => cross::<Bls12381Shake256, Bls12381Sha256>(rep, ck, c),
    }
}

// ----------------------------------------------------------------------------- generator sets

#[derive(Clone, Debug, Serialize, Deserialize)]
pub struct GenCase {
    pub n: usize,
    pub a: ApiSel,
    pub b: ApiSel,
    pub ks: Vec<u16>,
}

fn api_sel() -> impl Strategy<Value = ApiSel> {
    prop_oneof![
        Just(ApiSel::None),
        Just(ApiSel::Empty),
        Just(ApiSel::Plain),
        Just(ApiSel::Blind),
        Just(ApiSel::BlindPrefixed),
        bspec_from(&[1, 7, 20], &[3]).prop_map(ApiSel::Ascii),
    ]
}

fn gen_strat(maxn: usize) -> impl Strategy<Value = GenCase> {
    (2usize..=maxn, api_sel(), api_sel(), prop::collection::vec(any::<u16>(), 0..6)).prop_map(|(n, a, b, ks)| GenCase { n, a, b, ks })
}

fn api_bytes(a: &ApiSel, s: SuiteId) -> Option<Vec<u8>> {
    with_suite!(s, CS => match a {
        ApiSel::None => None,
        ApiSel::Empty => Some(vec![]),
        ApiSel::Plain => Some(CS::API_ID.to_vec()),
        ApiSel::Blind => Some(CS::API_ID_BLIND.to_vec()),
        ApiSel::BlindPrefixed => Some([b"BLIND_", CS::API_ID_BLIND].concat()),
        ApiSel::Ascii(b) => Some(b.bytes()),
    })
}

fn gens_of(s: SuiteId, n: usize, a: &Option<Vec<u8>>) -> Vec<[u8; 48]> {
    with_suite!(s, CS => Generators::create::<CS>(n, a.as_deref()).values.iter().map(|p| p.to_affine().to_compressed()).collect())
}

fn gen_check(rep: &Report, ck: &str, c: &GenCase, exhaustive_k: bool) -> CheckResult {
    let cj = || json!({"gen": c});
    let forbidden: Vec<(String, [u8; 48])> = vec![
        ("identity".into(), G1Projective::IDENTITY.to_affine().to_compressed()),
        ("G1 base point".into(), G1Projective::GENERATOR.to_affine().to_compressed()),
        ("P1 (sha256)".into(), hex::decode(crate::refimpl::P1_SHA256).unwrap().try_into().unwrap()),
        ("P1 (shake256)".into(), hex::decode(crate::refimpl::P1_SHAKE256).unwrap().try_into().unwrap()),
    ];
    let mut sets: Vec<(String, Vec<[u8; 48]>)> = vec![];
    for s in [SuiteId::Sha256, SuiteId::Shake256] {
        for (tag, sel) in [("a", &c.a), ("b", &c.b)] {
            let ab = api_bytes(sel, s);
            let g = gens_of(s, c.n, &ab);
            rep.eval(ck, 1);
            if g.len() != c.n {
                return rep.fail(ck, "generators:count", format!("create({}, {:?}) under {} returned {} points", c.n, sel, s.name(), g.len()), cj());
            }
            // identity / P1 / base point / repetition
            let mut seen: HashSet<[u8; 48]> = HashSet::new();
            for (i, p) in g.iter().enumerate() {
                for (nm, f) in &forbidden {
                    if p == f {
                        return rep.fail(ck, "generators:forbidden-element", format!("element {} of create({}, {:?}) under {} is the {}", i, c.n, sel, s.name(), nm), cj());
                    }
                }
                if !seen.insert(*p) {
                    return rep.fail(ck, "generators:repeated-element", format!("element {} of create({}, {:?}) under {} repeats an earlier one", i, c.n, sel, s.name()), cj());
                }
            }
            // prefix stability
            let ks: Vec<usize> = if exhaustive_k { (0..=c.n).collect() } else { c.ks.iter().map(|&k| pick(k, c.n + 1)).collect() };
            for k in ks {
                let gk = gens_of(s, k, &ab);
                rep.eval(ck, 1);
                if gk[..] != g[..k] {
                    let first = (0..k.min(gk.len())).find(|&i| gk[i] != g[i]);
                    return rep.fail(
                        ck,
                        "generators:prefix-depends-on-count",
                        format!("create({}, {:?})[..{}] != create({}, ..) under {} (first difference at {:?})", c.n, sel, k, k, s.name(), first),
                        cj(),
                    );
                }
            }
            sets.push((format!("{}:{}:{:?}", s.name(), tag, ab.as_ref().map(|x| String::from_utf8_lossy(x).to_string())), g));
        }
    }
    // disjointness of sets with different (suite, api_id)
    for i in 0..sets.len() {
        for j in i + 1..sets.len() {
            let same_suite = sets[i].0.split(':').next() == sets[j].0.split(':').next();
            let ai = sets[i].0.splitn(3, ':').nth(2).unwrap().to_string();
            let aj = sets[j].0.splitn(3, ':').nth(2).unwrap().to_string();
            // None and Some(b"") are the same api_id
            let norm = |x: &str| if x == "None" { "Some(\"\")".to_string() } else { x.to_string() };
            if same_suite && norm(&ai) == norm(&aj) {
                rep.eval(ck, 1);
                if sets[i].1 != sets[j].1 {
                    return rep.fail(ck, "generators:not-deterministic", format!("{} and {} differ", sets[i].0, sets[j].0), cj());
                }
                continue;
            }
            let hs: HashSet<&[u8; 48]> = sets[i].1.iter().collect();
            rep.eval(ck, 1);
            if let Some(p) = sets[j].1.iter().find(|p| hs.contains(p)) {
                return rep.fail(ck, "generators:sets-share-an-element", format!("{} and {} share the point {}", sets[i].0, sets[j].0, hex::encode(p)), cj());
            }
        }
    }
    // the blind interface's public parameter preparation: message generators followed by blind generators,
    // for every spelling of the api_id
    for s in [SuiteId::Sha256, SuiteId::Shake256] {
        for sel in [&c.a, &c.b] {
            let ab = api_bytes(sel, s);
            let (l1, m1) = (c.n % 7 + 1, c.n % 5 + 1);
            let got: Result<Vec<[u8; 48]>, String> = with_suite!(s, CS => {
                zkryptium::bbsplus::blind::prepare_parameters::<CS>(None, None, l1, m1, None, ab.as_deref())
                    .map(|(_, g)| g.values.iter().map(|p| p.to_affine().to_compressed()).collect())
                    .map_err(|e| format!("{:?}", e))
            });
            rep.eval(ck, 1);
            let got = match got {
                Ok(g) => g,
                Err(e) => return rep.fail(ck, "prepare-parameters:failed", format!("prepare_parameters({}, {}, {:?}) under {}: {}", l1, m1, sel, s.name(), e), cj()),
            };
            let blind_id: Vec<u8> = [b"BLIND_".as_ref(), ab.as_deref().unwrap_or(b"")].concat();
            let mut want = gens_of(s, l1, &ab);
            want.extend(gens_of(s, m1, &Some(blind_id)));
            if got != want {
                return rep.fail(
                    ck,
                    "prepare-parameters:generators-differ",
                    format!("prepare_parameters({}, {}, api_id {:?}) under {} does not return create(L, api_id) ++ create(M, \"BLIND_\" || api_id)", l1, m1, sel, s.name()),
                    cj(),
                );
            }
            let uniq: HashSet<&[u8; 48]> = got.iter().collect();
            if uniq.len() != got.len() {
                return rep.fail(ck, "prepare-parameters:repeated-generator", format!("prepare_parameters({}, {}, api_id {:?}) under {} returns a repeated point", l1, m1, sel, s.name()), cj());
            }
        }
    }
    // one buffer for the interface identifier, edited in place between two requests on this thread (same address and
    // length, another identifier): the second set is the set of the second identifier, whatever was asked before
    for s in [SuiteId::Sha256, SuiteId::Shake256] {
        let r = crate::refimpl::Ref::new(s);
        let mut id: Vec<u8> = format!("APP_{}_V1_", c.n).into_bytes();
        let n = c.n.min(12);
        let refset = |v: &Vec<u8>| -> Vec<[u8; 48]> { r.create_generators(n, v).map(|g| g.iter().map(|p| p.to_affine().to_compressed()).collect()).unwrap_or_default() };
        let first = refset(&id);
        let view = |v: &Vec<u8>| -> Vec<[u8; 48]> { with_suite!(s, CS => Generators::create::<CS>(n, Some(&v[..])).values.iter().map(|p| p.to_affine().to_compressed()).collect()) };
        let a1 = view(&id);
        let at = id.len() - 2;
        id[at] = b'2';
        let a2 = view(&id);
        let want = refset(&id);
        rep.eval(ck, 2);
        if a1 != first || (n > 0 && a2 == a1) || a2 != want {
            return rep.fail(ck, "generators:identifier-buffer-reused", format!("create({}, id) under {} with the identifier edited in place between two requests (..V1_ -> ..V2_): the second set is {} the first and {} the reference's set for the second identifier", n, s.name(), if a2 == a1 { "equal to" } else { "different from" }, if a2 == want { "equal to" } else { "different from" }), cj());
        }
    }
    rep.nontrivial(ck, c);
    rep.class(&format!("generators:n={}", if c.n <= 16 { "2..16" } else if c.n <= 64 { "17..64" } else { ">64" }));
    rep.sample(ck, json!({"gen": c}));
    Ok(())
}

pub fn run(ctx: &Ctx, rep: &Report) -> Meta {
    // the same checks with all workers released from one barrier in a cold process (shared state under contention)
    {
        let cases = [2usize, 20, 40, 70, 33, 65, 100, 17].iter().map(|&n| GenCase { n, a: ApiSel::Plain, b: ApiSel::None, ks: vec![1000, 30000, 65000] }).collect::<Vec<_>>();
        let r = contend("contention", ctx.workers.max(4), ctx.tier.pick(2, 6), |t, round| {
            let c = &cases[(t * 7 + round * 3) % cases.len()];
            gen_check(rep, "contention", c, false)
        });
        if let Err(f) = r {
            rep.add_violation(f);
        }
    }
    run_cases(ctx, rep, "cross-verifiers", ctx.tier.pick(160, 1500), 100, strat, |c| check(rep, "cross-verifiers", c));
    // exhaustive prefixes for n <= 40 over the api_ids the library itself uses
    let mut ex = vec![];
    for n in [2usize, 5, 11, 16, 17, 21, 33, 40] {
        ex.push(GenCase { n, a: ApiSel::Plain, b: ApiSel::Blind, ks: vec![] });
        ex.push(GenCase { n, a: ApiSel::BlindPrefixed, b: ApiSel::None, ks: vec![] });
    }
    par_items(ctx, rep, "generator-prefixes-exhaustive", &ex, |c| gen_check(rep, "generator-prefixes-exhaustive", c, true));
    if !rep.aborted() {
        rep.exhaustive("create(n, a)[..k] = create(k, a) for every k <= n, n in {2, 5, 11, 16, 17, 21, 33, 40}, both suites, api_ids {plain, blind, BLIND_-prefixed, none}".into());
    }
    let maxn = ctx.tier.pick(64usize, 512usize);
    run_cases(ctx, rep, "generator-sets", ctx.tier.pick(200, 1500), 100, || gen_strat(maxn), |c| gen_check(rep, "generator-sets", c, false));
    Meta {
        rule: "(a) honest plain signature / plain proof / commitment / blind signature / blind proof under suite s, each handed to every verifier of the other suite (same key octets and the key derived from the same material) \
               and to the other interface of the same suite in every consistent presentation (L = all / 0 / None / L-1, trailing messages as committed, blinding slot filled, combined lists); the blind signature and blind proof issued WITHOUT a commitment handed to the plain verifiers (also right after the blind verifier accepted the same octets), a plain signature offered as such a blind signature; oracle: Err; \
               (b) generator requests (n <= 64 quick / 512 thorough, api_ids {None, empty, plain, blind, BLIND_-prefixed, random ASCII}, both suites): create(n,a)[..k] = create(k,a) (all k for the exhaustive list, sampled otherwise), \
               an identifier buffer edited in place between two requests gives the set of the second identifier (compared with the reference); no identity, no P1 of either suite, no G1 base point, no repetition, sets of different (suite, api_id) disjoint, None = empty api_id; \
               an honest commitment validated through deserialize_and_validate_commit under nine foreign interface identifiers (plain, other suite, empty, custom, padded to 200 / 251 / 252 / 255 / 300 octets); prepare_parameters compared with create(L, a) ++ create(M, BLIND_ || a) for every api_id spelling; generator requests under contention; non-trivial = a cross pair with (s', i') != (s, i) or a generator request with n >= 2; evaluations = foreign verifications + set judgements"
            .into(),
        assumptions: vec!["a refusal by panic of blind_proof_verify on a foreign proof counts as rejection here (C08 reports it)".into()],
    }
}

pub fn replay(_ctx: &Ctx, rep: &Report, ck: &str, case: &Value) -> CheckResult {
    let perr = |e: String| Fail { check: ck.into(), site: "replay-parse".into(), msg: e, case: case.clone() };
    if ck.starts_with("generator") {
        let c: GenCase = serde_json::from_value(case["gen"].clone()).map_err(|e| perr(e.to_string()))?;
        gen_check(rep, ck, &c, ck.ends_with("exhaustive"))
    } else {
        let c: Case = serde_json::from_value(case["case"].clone()).map_err(|e| perr(e.to_string()))?;
        check(rep, ck, &c)
    }
}
