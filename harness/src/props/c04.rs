//! C04 — BBS proof soundness: statement edits, bit flips, scalar-granular framing edits and
//! attacker programs that use public data only.

use crate::bbs::*;
use crate::engine::*;
use crate::gen::*;
use crate::refimpl::{self, Ref, RefProof};
use crate::with_suite;
use bls12_381_plus::group::Group;
use bls12_381_plus::{G1Projective, G2Projective, Scalar};
use proptest::prelude::*;
use serde::{Deserialize, Serialize};
use serde_json::{json, Value};

#[derive(Clone, Debug, Serialize, Deserialize)]
pub struct Case {
    pub suite: SuiteId,
    pub key: KeySpec,
    pub header: OptBytes,
    pub ph: OptBytes,
    pub msgs: MsgVec,
    pub mask: u32,
    pub seed: u32,
    /// flip every bit of the proof octets (otherwise 96 sampled bits)
    pub all_bits: bool,
}

fn strat() -> impl Strategy<Value = Case> {
    (
        suite(),
        key_spec_simple(),
        opt_bytes(HDR_LENS_SMALL),
        opt_bytes(HDR_LENS_SMALL),
        msg_vec_range(1, 8, MSG_LENS_SMALL),
        any::<u32>(),
        any::<u32>(),
    )
        .prop_map(|(suite, key, header, ph, msgs, mask, seed)| Case { suite, key, header, ph, msgs, mask, seed, all_bits: false })
}

pub fn scalar_from_seed(st: &mut u64) -> Scalar {
    let mut b = [0u8; 48];
    for ch in b.chunks_mut(8) {
        ch.copy_from_slice(&splitmix(st).to_le_bytes());
    }
    refimpl::os2ip_mod_r(&b)
}

struct Cx<'a> {
    rep: &'a Report,
    ck: &'a str,
    case: Value,
    families: std::cell::RefCell<std::collections::BTreeSet<String>>,
}

impl<'a> Cx<'a> {
    fn expect_reject(&self, family: &str, accepted: bool, detail: impl FnOnce() -> String) -> CheckResult {
        self.rep.eval(self.ck, 1);
        self.families.borrow_mut().insert(family.to_string());
        if accepted {
            return self.rep.fail(
                self.ck,
                &format!("accepted:{}", family),
                format!("verifier accepted ({}): {}", family, detail()),
                json!({"case": self.case, "family": family}),
            );
        }
        Ok(())
    }
}

/// decode octets and verify through the plain interface; false on decode error
fn dv<CS: BbsCiphersuite>(
    pk: &BBSplusPublicKey,
    octets: &[u8],
    dm: &[Vec<u8>],
    idx: &[usize],
    header: Option<&[u8]>,
    ph: Option<&[u8]>,
) -> bool {
    match PoKSignature::<BBSplus<CS>>::from_bytes(octets) {
        Ok(p) => p.proof_verify(pk, Some(dm), Some(idx), header, ph).is_ok(),
        Err(_) => false,
    }
}

/// build a library proof object from reference values through serde (bypassing from_bytes)
fn object_from_ref<CS: BbsCiphersuite>(template: &PoKSignature<BBSplus<CS>>, p: &RefProof) -> Option<PoKSignature<BBSplus<CS>>> {
    let mut v = serde_json::to_value(template).ok()?;
    let inner = v.get_mut("BBSplus")?;
    inner["Abar"] = serde_json::to_value(p.abar).ok()?;
    inner["Bbar"] = serde_json::to_value(p.bbar).ok()?;
    inner["D"] = serde_json::to_value(p.d).ok()?;
    inner["e_cap"] = serde_json::to_value(p.e_hat).ok()?;
    inner["r1_cap"] = serde_json::to_value(p.r1_hat).ok()?;
    inner["r3_cap"] = serde_json::to_value(p.r3_hat).ok()?;
    inner["m_cap"] = serde_json::to_value(&p.m_hat).ok()?;
    inner["challenge"] = serde_json::to_value(p.c).ok()?;
    serde_json::from_value(v).ok()
}

/// The attacker's assembling step, from public data only.  `gens` = generators of the claimed
/// statement (L + 1 of them), `idx`/`dm` = claimed disclosed indexes / scalars.
/// `abar`, `bbar` with `bbar = t * abar` if `t` is given; `d = k * Bv` if `k` is given.
#[allow(clippy::too_many_arguments)]
pub fn assemble(
    r: &Ref,
    pk: &G2Projective,
    gens: &[G1Projective],
    header: &[u8],
    ph: &[u8],
    idx: &[usize],
    dm: &[Scalar],
    api_id: &[u8],
    abar: G1Projective,
    bbar: G1Projective,
    t: Option<Scalar>,
    d: G1Projective,
    k: Option<Scalar>,
    st: &mut u64,
) -> RefProof {
    let l = gens.len() - 1;
    let undisclosed: Vec<usize> = (0..l).filter(|i| !idx.contains(i)).collect();
    let domain = r.domain(pk, &gens[0], &gens[1..], header, api_id).unwrap();
    let bv = r.bv(gens, &domain, idx, dm);
    let m_hat: Vec<Scalar> = undisclosed.iter().map(|_| scalar_from_seed(st)).collect();
    let r1_hat = scalar_from_seed(st);
    let a = scalar_from_seed(st);
    let r3_free = scalar_from_seed(st);
    // first pass: a guess of the challenge, used where T1 / T2 cannot be made independent of it
    let c0 = scalar_from_seed(st);
    let compute = |c: &Scalar| -> (G1Projective, G1Projective, Scalar, Scalar) {
        let e_hat = match t {
            Some(t) => a - t * c,
            None => a,
        };
        let r3_hat = match k {
            Some(k) => -(*c) * k.invert().unwrap(),
            None => r3_free,
        };
        let t1 = bbar * c + abar * e_hat + d * r1_hat;
        let mut t2 = bv * c + d * r3_hat;
        for (n, &j) in undisclosed.iter().enumerate() {
            t2 += gens[1 + j] * m_hat[n];
        }
        (t1, t2, e_hat, r3_hat)
    };
    let (t1, t2, _, _) = compute(&c0);
    let init = refimpl::InitRes { abar, bbar, d, t1, t2, domain };
    let c = r.challenge(&init, idx, dm, ph, api_id).unwrap();
    // if T1, T2 did not depend on c0, `c` is the challenge the verifier will recompute
    let (_, _, e_hat, r3_hat) = compute(&c);
    RefProof { abar, bbar, d, e_hat, r1_hat, r3_hat, m_hat, c }
}

fn check_one<CS: BbsCiphersuite>(rep: &Report, ck: &str, c: &Case) -> CheckResult {
    let cx = Cx { rep, ck, case: serde_json::to_value(c).unwrap(), families: Default::default() };
    let cj = || json!({"case": c});
    let kp = keypair::<CS>(&c.key).map_err(|e| Fail { check: ck.into(), site: "keygen".into(), msg: format!("{:?}", e), case: cj() })?;
    let (sk, pk) = (kp.private_key(), kp.public_key());
    let msgs = c.msgs.materialize();
    let header = c.header.get();
    let ph = c.ph.get();
    let (hdr, phd) = (header.as_deref(), ph.as_deref());
    let l = msgs.len();
    let idx = mask_idx(c.mask, l);
    let dm: Vec<Vec<u8>> = idx.iter().map(|&i| msgs[i].clone()).collect();
    let r_cnt = idx.len();
    let u = l - r_cnt;
    let mut st = (c.seed as u64) << 8 | 1;
    if c.seed % 2 == 1 {
        crate::history::warmup(c.seed as u64, 1 + (c.seed % 5) as usize);
        rep.class("after-warm-up-history");
    }

    let sig = Signature::<BBSplus<CS>>::sign(Some(&msgs), sk, pk, hdr).map_err(|e| Fail { check: ck.into(), site: "sign".into(), msg: format!("{:?}", e), case: cj() })?;
    let proof = match PoKSignature::<BBSplus<CS>>::proof_gen(pk, &sig.to_bytes(), hdr, phd, Some(&msgs), Some(&idx)) {
        Ok(p) => p,
        Err(e) => return rep.fail(ck, "proof-gen-failed", format!("{:?}", e), cj()),
    };
    let pb = proof.to_bytes();
    // positive control
    if !dv::<CS>(pk, &pb, &dm, &idx, hdr, phd) {
        return rep.fail(ck, "honest-proof-rejected", "honest proof does not verify".into(), cj());
    }
    let ver = |dm2: &[Vec<u8>], idx2: &[usize], h: Option<&[u8]>, p: Option<&[u8]>, k: &BBSplusPublicKey| {
        proof.proof_verify(k, Some(dm2), Some(idx2), h, p).is_ok()
    };

    // the proof OBJECT that came out of proof_gen is used for all statement edits below: it is verified honestly
    // first (anything an object remembers from an accepted verification must not help a later, edited one) ...
    rep.eval(ck, 1);
    if !ver(&dm, &idx, hdr, phd, pk) {
        return rep.fail(ck, "honest-proof-rejected", "the proof object returned by proof_gen does not verify".into(), cj());
    }
    // ---- (a) statement edits ----------------------------------------------------------------
    // large statements: edits at sampled disclosed entries / target positions
    let ks: Vec<usize> = if l <= 12 || r_cnt <= 4 { (0..r_cnt).collect() } else { vec![0, r_cnt / 2, r_cnt - 1] };
    let targets: Vec<usize> = if l <= 12 { (0..l).collect() } else { vec![0, 1, l / 2, l - 2, l - 1] };
    for &k in &ks {
        let mut d2 = dm.clone();
        if d2[k].is_empty() {
            d2[k].push(0x80);
        } else {
            let p = (splitmix(&mut st) as usize) % d2[k].len();
            d2[k][p] ^= 1 << (splitmix(&mut st) % 8);
        }
        cx.expect_reject("disclosed-message-changed", ver(&d2, &idx, hdr, phd, pk), || format!("disclosed #{}", k))?;
        // where inside the message the change sits (first and last disclosed message)
        if dm[k].len() >= 2 && (k == 0 || k + 1 == dm.len()) {
            let n = dm[k].len();
            for (tag, f) in [
                ("last-octet", Box::new(|m: &mut Vec<u8>| m[n - 1] ^= 0x01) as Box<dyn Fn(&mut Vec<u8>)>),
                ("first-octet", Box::new(|m: &mut Vec<u8>| m[0] ^= 0x80)),
                ("one-octet-shorter", Box::new(|m: &mut Vec<u8>| {
                    m.pop();
                })),
                ("one-zero-octet-longer", Box::new(|m: &mut Vec<u8>| m.push(0))),
                ("leading-zero-octet-added", Box::new(|m: &mut Vec<u8>| m.insert(0, 0))),
            ] {
                let mut d4 = dm.clone();
                f(&mut d4[k]);
                cx.expect_reject("disclosed-message-changed", ver(&d4, &idx, hdr, phd, pk), || format!("disclosed #{} ({} octets): {}", k, n, tag))?;
            }
        }
        // move index k to every other position
        for &p in &targets {
            if p == idx[k] {
                continue;
            }
            let mut i2 = idx.clone();
            i2[k] = p;
            cx.expect_reject("disclosed-index-moved", ver(&dm, &i2, hdr, phd, pk), || format!("index #{} {} -> {} (list as is)", k, idx[k], p))?;
            // the same statement presented in ascending order (messages permuted alongside)
            let mut pairs: Vec<(usize, Vec<u8>)> = i2.iter().cloned().zip(dm.iter().cloned()).collect();
            pairs.sort_by_key(|x| x.0);
            if pairs.windows(2).all(|w| w[0].0 != w[1].0) {
                let (i3, d3): (Vec<usize>, Vec<Vec<u8>>) = pairs.into_iter().unzip();
                cx.expect_reject("disclosed-index-moved", ver(&d3, &i3, hdr, phd, pk), || format!("index #{} {} -> {} (sorted)", k, idx[k], p))?;
            }
        }
        // drop disclosed message k (and its index)
        let mut d3 = dm.clone();
        d3.remove(k);
        let mut i3 = idx.clone();
        i3.remove(k);
        cx.expect_reject("disclosed-dropped", ver(&d3, &i3, hdr, phd, pk), || format!("dropped #{}", k))?;
    }
    for a in 0..r_cnt.min(6) {
        for b in a + 1..r_cnt.min(6) {
            if dm[a] != dm[b] {
                let mut d2 = dm.clone();
                d2.swap(a, b);
                cx.expect_reject("disclosed-swapped", ver(&d2, &idx, hdr, phd, pk), || format!("swap {} {}", a, b))?;
            }
        }
    }
    {
        // claim an extra disclosed message at position L (and at an undisclosed position)
        let mut d2 = dm.clone();
        d2.push(b"extra".to_vec());
        let mut i2 = idx.clone();
        i2.push(l);
        cx.expect_reject("extra-disclosed-claimed", ver(&d2, &i2, hdr, phd, pk), || "index L".into())?;
        if let Some(&hidden) = (0..l).filter(|i| !idx.contains(i)).collect::<Vec<_>>().first() {
            let mut pairs: Vec<(usize, Vec<u8>)> = idx.iter().cloned().zip(dm.iter().cloned()).collect();
            pairs.push((hidden, msgs[hidden].clone()));
            pairs.sort_by_key(|x| x.0);
            let (i3, d3): (Vec<usize>, Vec<Vec<u8>>) = pairs.into_iter().unzip();
            cx.expect_reject("extra-disclosed-claimed", ver(&d3, &i3, hdr, phd, pk), || "a hidden message disclosed alongside (true value)".into())?;
        }
    }
    {
        // list-shape edits: a never-signed message without an index of its own, an index without a message, a
        // second entry under an index that is already there (before or after the genuine pair)
        let never = b"never signed".to_vec();
        let mut d2 = dm.clone();
        d2.push(never.clone());
        cx.expect_reject("surplus-disclosed-message", ver(&d2, &idx, hdr, phd, pk), || "one more message than indexes".into())?;
        if let Some(&hidden) = (0..l).filter(|i| !idx.contains(i)).collect::<Vec<_>>().last() {
            let mut i2 = idx.clone();
            i2.push(hidden);
            i2.sort();
            cx.expect_reject("surplus-disclosed-index", ver(&dm, &i2, hdr, phd, pk), || "one more index than messages".into())?;
        }
        for (k, after) in [(0usize, true), (0, false), (dm.len().saturating_sub(1), true)] {
            if k < dm.len() {
                let at = if after { k + 1 } else { k };
                let (mut d3, mut i3) = (dm.clone(), idx.clone());
                d3.insert(at, never.clone());
                i3.insert(at, idx[k]);
                cx.expect_reject("repeated-disclosed-index", ver(&d3, &i3, hdr, phd, pk), || format!("index {} twice, forged entry {}", idx[k], if after { "after" } else { "before" }))?;
            }
        }
    }
    for (which, cur) in [("header", &header), ("ph", &ph)] {
        let hb = cur.clone().unwrap_or_default();
        let mut edits: Vec<Option<Vec<u8>>> = vec![];
        let mut a = hb.clone();
        a.push(0);
        edits.push(Some(a));
        if !hb.is_empty() {
            let mut b = hb.clone();
            let p = (splitmix(&mut st) as usize) % b.len();
            b[p] ^= 1 << (splitmix(&mut st) % 8);
            edits.push(Some(b));
            let mut d = hb.clone();
            d.pop();
            edits.push(Some(d));
            edits.push(None);
            let mut b2 = hb.clone();
            *b2.last_mut().unwrap() ^= 1;
            edits.push(Some(b2));
            let mut b3 = hb.clone();
            b3[0] ^= 0x80;
            edits.push(Some(b3));
            let mut b4 = hb.clone();
            b4.insert(0, 0);
            edits.push(Some(b4));
            if let Some(coll) = fnv1a32_collision(&hb, splitmix(&mut st)) {
                // same length, same FNV-1a-32 value
                edits.push(Some(coll));
            }
        } else {
            edits.push(Some(vec![0x31]));
        }
        for e in edits {
            let acc = if which == "header" { ver(&dm, &idx, e.as_deref(), phd, pk) } else { ver(&dm, &idx, hdr, e.as_deref(), pk) };
            cx.expect_reject(&format!("{}-edit", which), acc, || format!("{:?}", e.as_ref().map(|x| hx(x))))?;
        }
    }
    // long data replaced by a digest of itself (a "large input" shortcut that binds a long header, presentation
    // header or disclosed message through a hash of it makes the hash a second spelling of the statement)
    for (which, cur) in [("header", &header), ("ph", &ph)] {
        let hb = cur.clone().unwrap_or_default();
        if hb.len() > 64 {
            for (tag, d) in crate::bbs::digests_of(c.suite, &hb) {
                let acc = if which == "header" { ver(&dm, &idx, Some(&d), phd, pk) } else { ver(&dm, &idx, hdr, Some(&d), pk) };
                cx.expect_reject(&format!("{}-replaced-by-its-digest", which), acc, || format!("{} octets := {}", hb.len(), tag))?;
            }
        }
    }
    if let Some((k, m)) = dm.iter().enumerate().max_by_key(|(_, m)| m.len()).filter(|(_, m)| m.len() > 64) {
        for (tag, d) in crate::bbs::digests_of(c.suite, m) {
            let mut d2 = dm.clone();
            d2[k] = d;
            cx.expect_reject("disclosed-message-replaced-by-its-digest", ver(&d2, &idx, hdr, phd, pk), || format!("disclosed #{} of {} octets := {}", k, m.len(), tag))?;
        }
    }
    // a component replaced by another component of the same statement
    {
        let hb = header.clone().unwrap_or_default();
        let phb = ph.clone().unwrap_or_default();
        let mut borrowed: Vec<(&str, Vec<u8>)> = vec![("the public key octets", pk.to_bytes().to_vec())];
        if let Some(x) = dm.first() {
            borrowed.push(("the first disclosed message", x.clone()));
        }
        for (what, val) in borrowed.iter().cloned().chain([("the header", hb.clone())]) {
            if val != phb {
                cx.expect_reject("ph-borrowed", ver(&dm, &idx, hdr, Some(&val), pk), || format!("presentation header := {}", what))?;
            }
        }
        for (what, val) in borrowed.iter().cloned().chain([("the presentation header", phb.clone())]) {
            if val != hb {
                cx.expect_reject("header-borrowed", ver(&dm, &idx, Some(&val), phd, pk), || format!("header := {}", what))?;
            }
        }
    }
    // header and ph exchanged
    if header.clone().unwrap_or_default() != ph.clone().unwrap_or_default() {
        cx.expect_reject("header-ph-exchanged", ver(&dm, &idx, phd, hdr, pk), || "".into())?;
    }
    {
        let mut k2 = c.key.clone();
        k2.fixture = false;
        k2.ikm.seed = k2.ikm.seed.wrapping_add(1);
        let other = keypair::<CS>(&k2).unwrap().public_key().clone();
        if other != *pk {
            cx.expect_reject("pk-other", ver(&dm, &idx, hdr, phd, &other), || "".into())?;
        }
        cx.expect_reject("pk-plus-g2", ver(&dm, &idx, hdr, phd, &BBSplusPublicKey(pk.0 + G2Projective::GENERATOR)), || "".into())?;
        cx.expect_reject("pk-negated", ver(&dm, &idx, hdr, phd, &BBSplusPublicKey(-pk.0)), || "".into())?;
    }
    // ... and once more after all the refused statements (anything it remembers from a refusal must not hurt)
    rep.eval(ck, 1);
    if !ver(&dm, &idx, hdr, phd, pk) {
        return rep.fail(ck, "honest-proof-rejected-after-refusals", "the same proof object no longer verifies for its own statement after edited statements were refused on it".into(), cj());
    }
    // whole-scalar framing edits: remove / duplicate / insert a 32-byte chunk at every position
    let n_chunks = (pb.len() - 144) / 32; // e^, r1^, r3^, m^_1..m^_U, c
    let chunk_positions: Vec<usize> = if n_chunks <= 14 { (0..n_chunks).collect() } else { vec![0, 1, 2, 3, 4, n_chunks / 2, n_chunks - 3, n_chunks - 2, n_chunks - 1] };
    for pos in chunk_positions {
        let off = 144 + 32 * pos;
        let mut rm = pb.clone();
        rm.drain(off..off + 32);
        cx.expect_reject("scalar-removed", dv::<CS>(pk, &rm, &dm, &idx, hdr, phd), || format!("chunk {}", pos))?;
        let mut dup = pb.clone();
        let chunk: Vec<u8> = pb[off..off + 32].to_vec();
        dup.splice(off..off, chunk);
        cx.expect_reject("scalar-duplicated", dv::<CS>(pk, &dup, &dm, &idx, hdr, phd), || format!("chunk {}", pos))?;
        let mut ins = pb.clone();
        let rs = refimpl::scalar_bytes(&scalar_from_seed(&mut st));
        ins.splice(off..off, rs.to_vec());
        cx.expect_reject("scalar-inserted", dv::<CS>(pk, &ins, &dm, &idx, hdr, phd), || format!("before chunk {}", pos))?;
    }
    {
        let mut ext = pb.clone();
        ext.extend_from_slice(&refimpl::scalar_bytes(&scalar_from_seed(&mut st)));
        cx.expect_reject("scalar-appended", dv::<CS>(pk, &ext, &dm, &idx, hdr, phd), || "".into())?;
    }
    // cross suite and blind interface
    {
        let acc = with_suite!(c.suite.other(), CS2 => dv::<CS2>(pk, &pb, &dm, &idx, hdr, phd));
        cx.expect_reject("cross-suite", acc, || "".into())?;
        let acc = proof.blind_proof_verify(pk, hdr, phd, Some(l), Some(&dm), None, Some(&idx), None).is_ok();
        cx.expect_reject("plain-proof-through-blind-verify", acc, || "L = all".into())?;
        if u >= 1 {
            let acc = proof.blind_proof_verify(pk, hdr, phd, Some(l - 1), Some(&dm), None, Some(&idx), None).is_ok();
            cx.expect_reject("plain-proof-through-blind-verify", acc, || "L - 1".into())?;
        }
    }

    // ---- (b) bit flips -----------------------------------------------------------------------
    let nbits = pb.len() * 8;
    let mut flipped = 0u64;
    for bit in 0..nbits {
        if !c.all_bits && (splitmix(&mut st) % (nbits as u64)) >= 96 {
            continue;
        }
        let mut b2 = pb.clone();
        b2[bit / 8] ^= 1 << (bit % 8);
        flipped += 1;
        cx.expect_reject("proof-bit-flip", dv::<CS>(pk, &b2, &dm, &idx, hdr, phd), || format!("bit {}", bit))?;
    }
    rep.class_n("proof-bit-flips", flipped);
    if c.all_bits {
        rep.exhaustive(format!("every single-bit flip of a {}-octet proof (U={})", pb.len(), u));
    }

    // ---- (c) attacker programs: public data only ---------------------------------------------
    let r = Ref::new(c.suite);
    let pk_g2 = pk.0;
    let hb = header.clone().unwrap_or_default();
    let phb = ph.clone().unwrap_or_default();
    // the attacker claims messages of their choice at indexes of their choice, with U hidden slots
    let claimed: Vec<Vec<u8>> = (0..r_cnt.max(1)).map(|i| format!("claimed-{}-{}", i, c.seed).into_bytes()).collect();
    let claimed_idx: Vec<usize> = (0..claimed.len()).map(|i| 2 * i).collect(); // 0, 2, 4, ...
    let l_f = claimed_idx.last().unwrap() + 1 + (c.seed % 3) as usize;
    let u_f = l_f - claimed.len();
    let api = r.api_id();
    let gens = r.create_generators(l_f + 1, &api).unwrap();
    let cms = r.msgs_to_scalars(&claimed, &api).unwrap();
    let domain = r.domain(&pk_g2, &gens[0], &gens[1..], &hb, &api).unwrap();
    let bv = r.bv(&gens, &domain, &claimed_idx, &cms);
    let o = G1Projective::IDENTITY;
    let rnd_pt = G1Projective::GENERATOR * scalar_from_seed(&mut st);
    let k2 = scalar_from_seed(&mut st);
    let pts: Vec<(&str, G1Projective)> = vec![("O", o), ("Bv", bv), ("P1", r.p1()), ("Q1", gens[0]), ("H1", gens[1]), ("rnd", rnd_pt)];
    let ds: Vec<(&str, G1Projective, Option<Scalar>)> = vec![
        ("O", o, None),
        ("Bv", bv, Some(Scalar::ONE)),
        ("kBv", bv * k2, Some(k2)),
        ("P1", r.p1(), None),
        ("rnd", rnd_pt, None),
    ];
    let try_forgery = |name: String, fp: &RefProof| -> CheckResult {
        let oct = fp.to_bytes();
        let acc = dv::<CS>(pk, &oct, &claimed, &claimed_idx, hdr, phd);
        cx.expect_reject(&format!("forgery-octets:{}", name), acc, || format!("forged proof {} for claimed messages, U={}", hx(&oct), u_f))?;
        if let Some(obj) = object_from_ref::<CS>(&proof, fp) {
            let acc = obj.proof_verify(pk, Some(&claimed), Some(&claimed_idx), hdr, phd).is_ok();
            cx.expect_reject(&format!("forgery-object:{}", name), acc, || format!("forged proof object (serde) {} U={}", hx(&oct), u_f))?;
        }
        Ok(())
    };
    let mut combo = 0u32;
    for (an, a) in &pts {
        for (bn, b) in &pts {
            for (dn, d, k) in &ds {
                // large statements (size sweep): the identity members always, one seventh of the rest by rotation
                combo += 1;
                if l > 8 && !(bool::from(a.is_identity()) && bool::from(b.is_identity())) && combo % 7 != c.seed % 7 {
                    continue;
                }
                // Bbar = t * Abar is known to the attacker only when the two points are the same (t = 1)
                // or Bbar is the identity (t = 0)
                let t = if bool::from(b.is_identity()) { Some(Scalar::ZERO) } else if a == b { Some(Scalar::ONE) } else { None };
                let fp = assemble(&r, &pk_g2, &gens, &hb, &phb, &claimed_idx, &cms, &api, *a, *b, t, *d, *k, &mut st);
                try_forgery(format!("A={},B={},D={}", an, bn, dn), &fp)?;
            }
        }
    }
    // second family: Abar = P, Bbar = t*P, D = k*Bv, e^ = a - t*c, r3^ = -c/k: passes the challenge
    // test, stopped only by the pairing (t = sk)
    for (tn, t) in [("t=rnd", scalar_from_seed(&mut st)), ("t=1", Scalar::ONE), ("t=2", Scalar::from(2u64))] {
        let p = G1Projective::GENERATOR * scalar_from_seed(&mut st);
        let fp = assemble(&r, &pk_g2, &gens, &hb, &phb, &claimed_idx, &cms, &api, p, p * t, Some(t), bv * k2, Some(k2), &mut st);
        try_forgery(format!("A=P,B=tP({}),D=kBv", tn), &fp)?;
    }
    // third family: points outside the prime-order subgroup.  Q has order dividing the cofactor, so it pairs
    // trivially with everything; Abar = Q, Bbar = -Q cancel in any test applied to a sum of the proof's points.
    {
        let q = torsion_g1((c.seed % 3) as usize);
        let neg1 = -Scalar::ONE;
        let pp = G1Projective::GENERATOR * scalar_from_seed(&mut st);
        for (name, a, b, t, d, k) in [
            ("A=Q,B=-Q,D=Bv", q, -q, Some(neg1), bv, Some(Scalar::ONE)),
            ("A=Q,B=-Q,D=kBv", q, -q, Some(neg1), bv * k2, Some(k2)),
            ("A=Q,B=Q,D=Bv", q, q, Some(Scalar::ONE), bv, Some(Scalar::ONE)),
            ("A=Q,B=O,D=Bv", q, o, Some(Scalar::ZERO), bv, Some(Scalar::ONE)),
            ("A=Q,B=2Q,D=kBv", q, q.double(), Some(Scalar::from(2u64)), bv * k2, Some(k2)),
            ("A=P+Q,B=P-Q,D=Bv", pp + q, pp - q, None, bv, Some(Scalar::ONE)),
            ("A=-2Q,B=Q,D=Bv+Q", -q.double(), q, None, bv + q, None),
            ("A=O,B=O,D=Bv+Q", o, o, Some(Scalar::ZERO), bv + q, None),
        ] {
            let fp = assemble(&r, &pk_g2, &gens, &hb, &phb, &claimed_idx, &cms, &api, a, b, t, d, k, &mut st);
            try_forgery(format!("torsion:{}", name), &fp)?;
        }
    }
    // fourth family: Abar, Bbar lifted from the honest proof (they satisfy the pairing equation for every statement
    // under this key) with responses that make a recomputed commitment vanish whatever the challenge is:
    // D = Bbar, e^ = 0, r1^ = -c gives T1 = O; D = Bv, r3^ = -c, m^_j = 0 gives T2 = O.  Only the comparison of the
    // challenges stands between such a proof and acceptance; a verifier that skips it when T1 or T2 is degenerate
    // accepts any statement.
    if let Ok(hp) = refimpl::octets_to_proof(&pb) {
        for round in 0..2 {
            let cc = if round == 0 { Scalar::ONE } else { scalar_from_seed(&mut st) };
            let rnd_m: Vec<Scalar> = (0..u_f).map(|_| scalar_from_seed(&mut st)).collect();
            let f1 = RefProof { abar: hp.abar, bbar: hp.bbar, d: hp.bbar, e_hat: Scalar::ZERO, r1_hat: -cc, r3_hat: scalar_from_seed(&mut st), m_hat: rnd_m.clone(), c: cc };
            try_forgery(format!("vanishing-T1:honest-Abar-Bbar,D=Bbar,c={}", if round == 0 { "1" } else { "rnd" }), &f1)?;
            let f2 = RefProof { abar: hp.abar, bbar: hp.bbar, d: bv, e_hat: scalar_from_seed(&mut st), r1_hat: scalar_from_seed(&mut st), r3_hat: -cc, m_hat: vec![Scalar::ZERO; u_f], c: cc };
            try_forgery(format!("vanishing-T2:honest-Abar-Bbar,D=Bv,c={}", if round == 0 { "1" } else { "rnd" }), &f2)?;
            // both at once needs D = Bbar = Bv-multiple: not available to the attacker; the identity members of
            // the first family cover T1 = T2 = O
        }
    }
    // negative control of the assembling code: with t = sk the same program yields a proof that
    // an honest verifier must accept (the signer can sign anything) - both as octets and as object
    {
        let p = G1Projective::GENERATOR * scalar_from_seed(&mut st);
        let fp = assemble(&r, &pk_g2, &gens, &hb, &phb, &claimed_idx, &cms, &api, p, p * sk.0, Some(sk.0), bv * k2, Some(k2), &mut st);
        let ok_oct = dv::<CS>(pk, &fp.to_bytes(), &claimed, &claimed_idx, hdr, phd);
        let ok_obj = object_from_ref::<CS>(&proof, &fp).map(|o| o.proof_verify(pk, Some(&claimed), Some(&claimed_idx), hdr, phd).is_ok());
        if !ok_oct || ok_obj != Some(true) {
            // the assembling code (or the reference's Bv/challenge) is wrong: harness error
            // (or the library's hashing departs from the drafts for this input). This case's forgery verdicts
            // are withheld; the run continues and ends inconclusive unless another check shows a violation
            rep.inconclusive(format!("negative control failed (octets {}, object {:?}) for case {}", ok_oct, ok_obj, serde_json::to_string(c).unwrap_or_default()));
            rep.class("negative-control-failed");
            return Ok(());
        }
        rep.class("negative-control-accepted(t=sk)");
    }
    // the same two decisive members against the blind verifier
    {
        let apib = r.api_id_blind();
        // claimed signer messages at claimed_idx, no committed message disclosed: N = L + 1 + M
        let l_b = claimed_idx.last().unwrap() + 1;
        let m_b = (c.seed % 2) as usize;
        {
            let mut gb = r.create_generators(l_b + 1, &apib).unwrap();
            gb.extend(r.blind_generators(m_b + 1).unwrap());
            let cmsb = r.msgs_to_scalars(&claimed, &apib).unwrap();
            let domb = r.domain(&pk_g2, &gb[0], &gb[1..], &hb, &apib).unwrap();
            let bvb = r.bv(&gb, &domb, &claimed_idx, &cmsb);
            for (name, a, b, t) in [("A=O,B=O", o, o, Some(Scalar::ZERO)), ("A=P,B=P", rnd_pt, rnd_pt, Some(Scalar::ONE))] {
                let fp = assemble(&r, &pk_g2, &gb, &hb, &phb, &claimed_idx, &cmsb, &apib, a, b, t, bvb * k2, Some(k2), &mut st);
                let oct = fp.to_bytes();
                let acc = match PoKSignature::<BBSplus<CS>>::from_bytes(&oct) {
                    Ok(p) => p.blind_proof_verify(pk, hdr, phd, Some(l_b), Some(&claimed), None, Some(&claimed_idx), None).is_ok(),
                    Err(_) => false,
                };
                cx.expect_reject(&format!("blind-forgery-octets:{}", name), acc, || hx(&oct))?;
                if let Some(obj) = object_from_ref::<CS>(&proof, &fp) {
                    let acc = obj.blind_proof_verify(pk, hdr, phd, Some(l_b), Some(&claimed), None, Some(&claimed_idx), None).is_ok();
                    cx.expect_reject(&format!("blind-forgery-object:{}", name), acc, || hx(&oct))?;
                }
            }
        }
    }

    let nf = cx.families.borrow().len();
    rep.class(&format!("U={}", u.min(4)));
    rep.class(&format!("R={}", r_cnt.min(4)));
    rep.nontrivial(ck, c);
    rep.sample(ck, json!({"suite": c.suite.name(), "L": l, "disclosed": idx, "families_executed": nf, "forged_statement": {"claimed_idx": claimed_idx, "U": u_f}}));
    Ok(())
}

fn check(rep: &Report, ck: &str, c: &Case) -> CheckResult {
    with_suite!(c.suite, CS => check_one::<CS>(rep, ck, c))
}

fn all_bits_cases(seed: u64, n_per_suite: usize) -> Vec<Case> {
    let mut st = seed ^ 0xC04;
    let mut out = vec![];
    for suite in [SuiteId::Sha256, SuiteId::Shake256] {
        for k in 0..n_per_suite {
            let u = [0usize, 1, 3][k % 3];
            let l = u + 1 + k % 2;
            let items = (0..l).map(|_| BSpec { len: 12, class: 0, seed: splitmix(&mut st) as u32 }).collect();
            // disclose the last l-u positions
            let mask = (((1u32 << l) - 1) >> u) << u;
            out.push(Case {
                suite,
                key: KeySpec { fixture: k == 0, ikm: BSpec { len: 32, class: 0, seed: splitmix(&mut st) as u32 }, key_info: OptBytes::None, key_dst: OptBytes::None },
                header: if k % 2 == 0 { OptBytes::Bytes(BSpec { len: 16, class: 0, seed: 3 }) } else { OptBytes::None },
                ph: if k % 3 == 0 { OptBytes::None } else { OptBytes::Bytes(BSpec { len: 32, class: 0, seed: 4 }) },
                msgs: MsgVec { items },
                mask,
                seed: splitmix(&mut st) as u32,
                all_bits: true,
            });
        }
    }
    out
}

/// Many verifiers at once, transcripts well above 1 KiB (long ph, many disclosed messages): honest
/// statements must verify and edited ones must not, whatever the other threads are doing.
fn concurrent_verifiers<CS: BbsCiphersuite>(ctx: &Ctx, rep: &Report, suite: SuiteId) {
    let ck = "concurrent-verifiers";
    let threads = ctx.workers.max(4);
    // one statement per thread
    struct St {
        pk: BBSplusPublicKey,
        proof: Vec<u8>,
        dm: Vec<Vec<u8>>,
        idx: Vec<usize>,
        header: Vec<u8>,
        ph: Vec<u8>,
    }
    let sts: Vec<St> = (0..threads)
        .map(|t| {
            let kp = KeyPair::<BBSplus<CS>>::generate(&[t as u8 + 1; 32], None, None).unwrap();
            let l = 24 + t % 5;
            let msgs: Vec<Vec<u8>> = (0..l).map(|j| format!("m-{}-{}", t, j).into_bytes()).collect();
            let idx: Vec<usize> = (0..l).filter(|j| j % 7 != 3).collect();
            let header = vec![t as u8; 20];
            let mut ph = vec![0u8; 900 + 13 * t];
            fill_random(t as u64 + 5, &mut ph);
            let sig = Signature::<BBSplus<CS>>::sign(Some(&msgs), kp.private_key(), kp.public_key(), Some(&header)).unwrap();
            let proof = PoKSignature::<BBSplus<CS>>::proof_gen(kp.public_key(), &sig.to_bytes(), Some(&header), Some(&ph), Some(&msgs), Some(&idx)).unwrap().to_bytes();
            St { pk: kp.public_key().clone(), proof, dm: idx.iter().map(|&i| msgs[i].clone()).collect(), idx, header, ph }
        })
        .collect();
    let r = contend(ck, threads, ctx.tier.pick(36, 400), |t, round| {
        let st = &sts[t];
        let p = PoKSignature::<BBSplus<CS>>::from_bytes(&st.proof).unwrap();
        rep.eval(ck, 2);
        if p.proof_verify(&st.pk, Some(&st.dm), Some(&st.idx), Some(&st.header), Some(&st.ph)).is_err() {
            return rep.fail(ck, "honest-proof-rejected-under-contention", format!("thread {} round {}: an honest proof is rejected while other threads verify", t, round), json!({"suite": suite.name(), "thread": t}));
        }
        // an edited statement: ph bit, disclosed message or header, in turn
        let (mut ph2, mut dm2, mut h2) = (st.ph.clone(), st.dm.clone(), st.header.clone());
        match round % 3 {
            0 => ph2[round % st.ph.len()] ^= 1,
            1 => dm2[round % st.dm.len()].push(1),
            _ => h2[0] ^= 0x80,
        }
        if p.proof_verify(&st.pk, Some(&dm2), Some(&st.idx), Some(&h2), Some(&ph2)).is_ok() {
            return rep.fail(ck, "accepted:edited-statement-under-contention", format!("thread {} round {}: an edited statement (kind {}) verifies while other threads verify", t, round, round % 3), json!({"suite": suite.name(), "thread": t, "edit": round % 3}));
        }
        if round == 0 {
            rep.nontrivial(ck, &json!({"suite": suite.name(), "t": t}));
        }
        Ok(())
    });
    if let Err(f) = r {
        rep.add_violation(f);
    }
}

/// one point of the hidden-count sweep: an honest proof with `u` hidden messages, then whole-scalar framing edits
fn hidden_count_item(rep: &Report, seed: u64, u: usize) -> CheckResult {
    let ck = "hidden-count-sweep";
    let suite = if u % 2 == 0 { SuiteId::Sha256 } else { SuiteId::Shake256 };
    with_suite!(suite, CS => {
        let kp = keypair::<CS>(&KeySpec { fixture: false, ikm: BSpec { len: 32, class: 0, seed: (seed as u32) ^ 0xC0DE }, key_info: OptBytes::None, key_dst: OptBytes::None }).unwrap();
        let (sk, pk) = (kp.private_key(), kp.public_key());
        let r = 1 + u % 3;
        let l = u + r;
        let msgs: Vec<Vec<u8>> = (0..l).map(|j| format!("m{}-{}", j, u).into_bytes()).collect();
        // the disclosed positions are spread: first, middle, last
        let idx: Vec<usize> = match r { 1 => vec![l / 2], 2 => vec![0, l - 1], _ => vec![0, l / 2, l - 1] };
        let dm: Vec<Vec<u8>> = idx.iter().map(|&i| msgs[i].clone()).collect();
        let cj = || json!({"U": u, "suite": suite.name()});
        let herr = |site: &str, m: String| Fail { check: ck.into(), site: site.into(), msg: m, case: cj() };
        let sig = Signature::<BBSplus<CS>>::sign(Some(&msgs), sk, pk, Some(b"h")).map_err(|e| herr("sign", format!("{:?}", e)))?;
        let proof = PoKSignature::<BBSplus<CS>>::proof_gen(pk, &sig.to_bytes(), Some(b"h"), Some(b"p"), Some(&msgs), Some(&idx)).map_err(|e| herr("proof-gen", format!("{:?}", e)))?;
        let pb = proof.to_bytes();
        let ver = |b: &[u8]| PoKSignature::<BBSplus<CS>>::from_bytes(b).map(|p| p.proof_verify(pk, Some(&dm), Some(&idx), Some(b"h"), Some(b"p")).is_ok()).unwrap_or(false);
        rep.eval(ck, 1);
        if !ver(&pb) {
            return rep.fail(ck, "honest-proof-rejected", format!("U = {}", u), cj());
        }
        let mut st = seed ^ (u as u64) << 8 | 1;
        let rnd = refimpl::scalar_bytes(&scalar_from_seed(&mut st));
        let n = pb.len();
        let mut edits: Vec<(&str, Vec<u8>)> = vec![
            ("zero-scalar-appended", [pb.clone(), vec![0u8; 32]].concat()),
            ("random-scalar-appended", [pb.clone(), rnd.to_vec()].concat()),
            ("challenge-repeated", [pb.clone(), pb[n - 32..].to_vec()].concat()),
            ("two-scalars-appended", [pb.clone(), rnd.to_vec(), pb[n - 32..].to_vec()].concat()),
            ("scalar-inserted-before-challenge", [pb[..n - 32].to_vec(), rnd.to_vec(), pb[n - 32..].to_vec()].concat()),
        ];
        if u >= 1 {
            edits.push(("last-response-removed", [pb[..n - 64].to_vec(), pb[n - 32..].to_vec()].concat()));
            edits.push(("challenge-removed", pb[..n - 32].to_vec()));
        }
        for (tag, b) in edits {
            rep.eval(ck, 1);
            if ver(&b) {
                return rep.fail(ck, "accepted:scalar-framing", format!("proof with {} hidden messages ({} octets): accepted after the edit {}", u, n, tag), json!({"U": u, "edit": tag, "suite": suite.name()}));
            }
        }
        Ok(())
    })
}

/// one point of the presentation-header length sweep
fn ph_len_item(rep: &Report, seed: u64, pl: usize) -> CheckResult {
    let ck = "ph-length-sweep";
    let suite = if pl % 2 == 0 { SuiteId::Sha256 } else { SuiteId::Shake256 };
    with_suite!(suite, CS => {
        let kp = keypair::<CS>(&KeySpec { fixture: false, ikm: BSpec { len: 32, class: 0, seed: (seed as u32) ^ 0x5EED }, key_info: OptBytes::None, key_dst: OptBytes::None }).unwrap();
        let (sk, pk) = (kp.private_key(), kp.public_key());
        let l = 1 + pl % 4;
        let msgs: Vec<Vec<u8>> = (0..l).map(|j| format!("m{}-{}", j, pl).into_bytes()).collect();
        let idx: Vec<usize> = (0..l).step_by(2).collect();
        let dm: Vec<Vec<u8>> = idx.iter().map(|&i| msgs[i].clone()).collect();
        let header = b"hdr".to_vec();
        let ph = BSpec { len: pl, class: 0, seed: (pl as u32) ^ 0x1234 }.bytes();
        let cj = || json!({"ph_len": pl, "suite": suite.name()});
        let herr = |site: &str, m: String| Fail { check: ck.into(), site: site.into(), msg: m, case: cj() };
        let sig = Signature::<BBSplus<CS>>::sign(Some(&msgs), sk, pk, Some(&header)).map_err(|e| herr("sign", format!("{:?}", e)))?;
        let proof = PoKSignature::<BBSplus<CS>>::proof_gen(pk, &sig.to_bytes(), Some(&header), Some(&ph), Some(&msgs), Some(&idx)).map_err(|e| herr("proof-gen", format!("{:?}", e)))?;
        rep.eval(ck, 1);
        if proof.proof_verify(pk, Some(&dm), Some(&idx), Some(&header), Some(&ph)).is_err() {
            return rep.fail(ck, "honest-proof-rejected", format!("presentation header of {} octets", pl), cj());
        }
        let mut edits: Vec<(&str, Vec<u8>)> = vec![("one-zero-octet-longer", [ph.clone(), vec![0]].concat())];
        if pl >= 1 {
            let mut a = ph.clone();
            *a.last_mut().unwrap() ^= 1;
            edits.push(("last-octet", a));
            edits.push(("one-octet-shorter", ph[..pl - 1].to_vec()));
        }
        if pl >= 8 {
            let mut a = ph.clone();
            a[pl - 8] ^= 0x40;
            edits.push(("eighth-octet-from-the-end", a));
        }
        for (tag, p2) in edits {
            rep.eval(ck, 1);
            if proof.proof_verify(pk, Some(&dm), Some(&idx), Some(&header), Some(&p2)).is_ok() {
                return rep.fail(ck, "accepted:ph-edit", format!("presentation header of {} octets: the proof verifies with the presentation header {}", pl, tag), json!({"ph_len": pl, "edit": tag, "suite": suite.name()}));
            }
        }
        Ok(())
    })
}

pub fn run(ctx: &Ctx, rep: &Report) -> Meta {
    concurrent_verifiers::<Bls12381Sha256>(ctx, rep, SuiteId::Sha256);
    concurrent_verifiers::<Bls12381Shake256>(ctx, rep, SuiteId::Shake256);
    let ab = all_bits_cases(ctx.seed, ctx.tier.pick(6, 48));
    par_items(ctx, rep, "all-bit-flips", &ab, |c| check(rep, "all-bit-flips", c));
    // larger statements: every L in 9..=40 (quick) / 9..=100 (thorough) and 63..65, few disclosed positions
    let sweep: Vec<Case> = (9..=ctx.tier.pick(40usize, 100usize))
        .chain([63, 64, 65])
        .map(|l| Case {
            suite: if l % 2 == 0 { SuiteId::Sha256 } else { SuiteId::Shake256 },
            key: KeySpec { fixture: false, ikm: BSpec { len: 32, class: 0, seed: (ctx.seed as u32).wrapping_add(l as u32) }, key_info: OptBytes::None, key_dst: OptBytes::None },
            header: [OptBytes::None, OptBytes::Bytes(BSpec { len: 16, class: 0, seed: 1 })][l % 2].clone(),
            ph: [OptBytes::Bytes(BSpec { len: 8, class: 0, seed: 2 }), OptBytes::None][l % 2].clone(),
            msgs: MsgVec { items: (0..l).map(|j| BSpec { len: [4usize, 0, 33][j % 3], class: 0, seed: (l * 1000 + j) as u32 }).collect() },
            mask: [0b10000010u32, 0, 0x8000_0001, 0xffff_ffff][l % 4] | if l % 4 == 3 { 0 } else { 1 << ((l - 1) % 32) },
            seed: (ctx.seed as u32).wrapping_add(31 * l as u32),
            all_bits: false,
        })
        .collect();
    par_items(ctx, rep, "size-sweep", &sweep, |c| check(rep, "size-sweep", c));
    // long data: messages, header and presentation header of 300 octets up to 256 KiB
    let long: Vec<Case> = [
        (vec![70000usize, 5, 1 << 18], 0b101u32, 65537usize, 0usize),
        (vec![300, 4097], 0b10, 0, 1 << 18),
        (vec![65536, 65535, 3], 0b011, 1 << 18, 70000),
        (vec![1000], 0b1, 300, 4096),
    ]
    .into_iter()
    .enumerate()
    .map(|(k, (mlens, mask, hlen, plen))| Case {
        suite: if k % 2 == 0 { SuiteId::Sha256 } else { SuiteId::Shake256 },
        key: KeySpec { fixture: false, ikm: BSpec { len: 32, class: 0, seed: (ctx.seed as u32).wrapping_add(900 + k as u32) }, key_info: OptBytes::None, key_dst: OptBytes::None },
        header: if hlen == 0 { OptBytes::None } else { OptBytes::Bytes(BSpec { len: hlen, class: 0, seed: 5 }) },
        ph: if plen == 0 { OptBytes::Empty } else { OptBytes::Bytes(BSpec { len: plen, class: (k % 3) as u8, seed: 6 }) },
        msgs: MsgVec { items: mlens.into_iter().enumerate().map(|(j, len)| BSpec { len, class: 0, seed: (k * 10 + j) as u32 }).collect() },
        mask,
        seed: (ctx.seed as u32).wrapping_add(77 * k as u32),
        all_bits: false,
    })
    .collect();
    par_items(ctx, rep, "long-data", &long, |c| check(rep, "long-data", c));
    // every number of hidden messages 0..=300 (quick) / 0..=1100: whole scalars appended, inserted or removed
    {
        let us: Vec<usize> = (0..=ctx.tier.pick(300usize, 1100usize)).collect();
        let seed = ctx.seed;
        par_items(ctx, rep, "hidden-count-sweep", &us, |&u| hidden_count_item(rep, seed, u));
        if !rep.aborted() {
            rep.exhaustive(format!("every number of hidden messages 0..={} with whole-scalar framing edits", ctx.tier.pick(300, 1100)));
        }
    }
    // every presentation-header length 0..=1100 (quick) / 0..=2400: the proof must not verify for the presentation
    // header with its last octet changed, one octet shorter or longer (challenge transcript staging, length prefixes)
    {
        let lens: Vec<usize> = (0..=ctx.tier.pick(1100usize, 2400usize)).collect();
        let seed = ctx.seed;
        par_items(ctx, rep, "ph-length-sweep", &lens, |&pl| ph_len_item(rep, seed, pl));
        if !rep.aborted() {
            rep.exhaustive(format!("every presentation-header length 0..={} with the tail edits", ctx.tier.pick(1100, 2400)));
        }
    }
    run_cases(ctx, rep, "edits-and-forgeries", ctx.tier.pick(64, 800), 100, strat, |c| check(rep, "edits-and-forgeries", c));
    Meta {
        rule: "honest (pk, sig, msgs L=1..8, D, header, ph, proof) then (a) statement edits, all on the one proof object returned by proof_gen, verified honestly before and after them: every disclosed message changed / dropped, every disclosed index moved to every other position (as given and re-sorted), \
               swaps, extra claims, list shapes (one more message than indexes, one more index than messages, a never-signed entry under an index that is already listed, before or after the genuine pair), header / ph edits (including one of the same length with the same FNV-1a-32 value) and exchange, header or ph := another component of the statement (the other of the two, the public key octets, the first disclosed message), header / ph / longest disclosed message above 64 octets replaced by 27 digests of itself (SHA-2, SHA-3, SHAKE, the suite's expand_message / hash_to_scalar under the library's tags), pk edits, every whole-scalar removal / duplication / insertion / append, cross-suite, blind interface; \
               (b) single-bit flips of the proof octets (all bits for the all-bit-flips proofs with U in {0,1,3}; 96 sampled bits otherwise); \
               (c) attacker programs from public data only: Abar, Bbar in {O, Bv, P1, Q1, H1, rnd}^2 x D in {O, Bv, k*Bv, P1, rnd} with responses solving T1/T2 where possible, \
               the (P, t*P, k*Bv) family that only the pairing stops, points of cofactor order Q outside the subgroup (Abar = Q with Bbar in {-Q, Q, O, 2Q}, P+-Q, D = Bv + Q: pairs and triples that cancel in a sum), each as octets and as a serde-built object, plain and blind verifier; Abar, Bbar lifted from the honest proof with responses that make T1 (D = Bbar, e^ = 0, r1^ = -c) or T2 (D = Bv, r3^ = -c, m^ = 0) vanish for an arbitrary challenge; negative control t = sk must be accepted; \
               size sweep over L in 9..=40 (quick) / 9..=100 (thorough) and 63..65 with sampled positions; hidden-count-sweep: every number of hidden messages 0..=300 (quick) / 1100 with scalars appended / inserted / removed; ph-length-sweep: every presentation-header length 0..=1100 (quick) / 2400 with tail edits; long-data: messages, headers and presentation headers of 300 octets to 256 KiB, edits at the first / last octet, one octet shorter / longer, a leading zero octet; concurrent-verifiers: 16 threads verifying their own honest proof and an edited statement in turn with transcripts above 1 KiB; half of the cases after a warm-up history; oracle: every edited / flipped / forged proof is rejected; non-trivial = honest case with all three groups executed; evaluations = rejected-verification checks"
            .into(),
        assumptions: vec![
            "forgery families are the named ones (identity / Bv / P1 / generators / random, responses cancelling the recomputation); other adversaries are not covered".into(),
            "reference model (Bv, domain, challenge) validated against the fixtures and by the t = sk control in every case".into(),
        ],
    }
}

pub fn replay(ctx: &Ctx, rep: &Report, ck: &str, case: &Value) -> CheckResult {
    // contention checks are replayed as a whole (the schedule is part of the case)
    if ck == "concurrent-verifiers" {
        let before = rep.violation_count();
        concurrent_verifiers::<Bls12381Sha256>(ctx, rep, SuiteId::Sha256); concurrent_verifiers::<Bls12381Shake256>(ctx, rep, SuiteId::Shake256);
        return if rep.violation_count() > before { Err(Fail { check: ck.into(), site: "reproduced-under-contention".into(), msg: "the contention check fails again".into(), case: case.clone() }) } else { Ok(()) };
    }
    if ck == "hidden-count-sweep" {
        let u = case["U"].as_u64().or(case["case"].as_u64()).ok_or_else(|| Fail { check: ck.into(), site: "replay-parse".into(), msg: "no U in the case".into(), case: case.clone() })?;
        return hidden_count_item(rep, ctx.seed, u as usize);
    }
    if ck == "ph-length-sweep" {
        let pl = case["ph_len"].as_u64().or(case["case"].as_u64()).ok_or_else(|| Fail { check: ck.into(), site: "replay-parse".into(), msg: "no ph_len in the case".into(), case: case.clone() })?;
        return ph_len_item(rep, ctx.seed, pl as usize);
    }
    let c: Case = serde_json::from_value(case["case"].clone()).map_err(|e| Fail {
        check: ck.into(),
        site: "replay-parse".into(),
        msg: e.to_string(),
        case: case.clone(),
    })?;
    check(rep, ck, &c)
}
