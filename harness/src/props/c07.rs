//! C07 — Fresh blinding: histories of generations from identical inputs, in one thread, on many
//! threads and in fresh child processes; the witness holder recomputes every blinding scalar.

use crate::bbs::*;
use crate::engine::*;
use crate::gen::*;
use crate::refimpl::{self, Ref};
use crate::with_suite;
use bls12_381_plus::Scalar;
use proptest::prelude::*;
use serde::{Deserialize, Serialize};
use serde_json::{json, Value};
use std::collections::HashSet;

#[derive(Clone, Debug, Serialize, Deserialize)]
pub struct Case {
    pub suite: SuiteId,
    /// two input sets; the schedule says which one each generation uses
    pub seed_a: u32,
    pub seed_b: u32,
    /// hidden messages (U) and committed messages (M) of the shape
    pub u: usize,
    pub m: usize,
    pub schedule: Vec<bool>,
    pub threads: usize,
    /// deterministic library calls repeated, with identical arguments, before every generation (what a stateless
    /// worker does per request): 0 none, 1 key re-derived from the same key material, 2 sign, 3 verify + proof_verify,
    /// 4 all of them
    #[serde(default)]
    pub between: u8,
    /// how the shape of input set B differs from A's: (extra hidden messages, extra committed messages) =
    /// [(0, 0), (0, 1), (1, 3), (2, 0)][shape_b % 4]. A history that alternates between the two sets then asks for
    /// more (or fewer) blinding scalars than the call before on the same thread
    #[serde(default)]
    pub shape_b: u8,
}

fn shape_b(c: &Case) -> (usize, usize) {
    let (du, dm) = [(0usize, 0usize), (0, 1), (1, 3), (2, 0)][(c.shape_b % 4) as usize];
    (c.u + du, c.m + dm)
}

fn strat(n: usize) -> impl Strategy<Value = Case> {
    (
        suite(),
        any::<u32>(),
        any::<u32>(),
        prop::sample::select(vec![0usize, 1, 3]),
        prop::sample::select(vec![0usize, 2]),
        prop::collection::vec(prop::bool::weighted(0.25), n..=n),
        prop::sample::select(vec![1usize, 1, 4, 16]),
        0u8..5,
        0u8..4,
    )
        .prop_map(|(suite, seed_a, seed_b, u, m, schedule, threads, between, shape_b)| Case { suite, seed_a, seed_b, u, m, schedule, threads, between, shape_b })
}

/// everything one generation hands out, plus what the witness holder recomputes from it
#[derive(Clone, Debug, Serialize, Deserialize)]
pub struct Gen {
    pub input: u8,
    pub proof: String,
    pub blind_proof: String,
    /// "signature|proof" of the blind interface used without a commitment and without prover blind
    #[serde(default)]
    pub blind_proof_nocommit: String,
    pub commitment: String,
    pub blind_factor: String,
    pub random_bf: String,
    pub random_sk: String,
    pub random_secret: String,
}

struct Inputs<CS: BbsCiphersuite> {
    kp: KeyPair<BBSplus<CS>>,
    header: Vec<u8>,
    ph: Vec<u8>,
    msgs: Vec<Vec<u8>>,
    cm: Vec<Vec<u8>>,
    disclosed: Vec<usize>,
    /// the disclosed positions as handed to the library: the same set, possibly with positions listed several
    /// times and out of order (the library sorts and de-duplicates the list)
    disclosed_arg: Vec<usize>,
    sig: [u8; 80],
    key: KeySpec,
}

/// the deterministic calls of `Case::between`, with the same arguments every time
fn between_calls<CS: BbsCiphersuite>(inp: &Inputs<CS>, kind: u8, last_proof: Option<&str>) {
    let pk = inp.kp.public_key();
    if kind == 1 || kind == 4 {
        let _ = keypair::<CS>(&inp.key);
    }
    if kind == 2 || kind == 4 {
        let _ = Signature::<BBSplus<CS>>::sign(Some(&inp.msgs), inp.kp.private_key(), pk, Some(&inp.header));
    }
    if kind == 3 || kind == 4 {
        let _ = Signature::<BBSplus<CS>>::from_bytes(&inp.sig).map(|s| s.verify(pk, Some(&inp.msgs), Some(&inp.header)));
        if let Some(p) = last_proof.and_then(|p| hex::decode(p).ok()) {
            let dm: Vec<Vec<u8>> = inp.disclosed.iter().map(|&i| inp.msgs[i].clone()).collect();
            let _ = PoKSignature::<BBSplus<CS>>::from_bytes(&p).map(|p| p.proof_verify(pk, Some(&dm), Some(&inp.disclosed), Some(&inp.header), Some(&inp.ph)));
        }
    }
}

fn inputs<CS: BbsCiphersuite>(seed: u32, u: usize, m: usize) -> Inputs<CS> {
    let mut st = seed as u64 ^ 0xC07;
    let key = KeySpec { fixture: false, ikm: BSpec { len: 32, class: 0, seed }, key_info: OptBytes::None, key_dst: OptBytes::None };
    let kp = keypair::<CS>(&key).unwrap();
    let l = u + 1;
    let mut msgs: Vec<Vec<u8>> = (0..l).map(|i| format!("msg-{}-{}", i, splitmix(&mut st)).into_bytes()).collect();
    let mut cm: Vec<Vec<u8>> = (0..m).map(|i| format!("cm-{}-{}", i, splitmix(&mut st)).into_bytes()).collect();
    // odd seeds: equal values at two hidden positions, and a committed message equal to a signer message
    // (blinding must be independent of the CONTENT of what it hides)
    if seed % 2 == 1 {
        if l >= 3 {
            msgs[l - 1] = msgs[1].clone();
        }
        if m >= 2 {
            cm[m - 1] = cm[0].clone();
        }
        if m >= 1 && l >= 2 {
            cm[0] = msgs[1].clone();
        }
    }
    let header = b"hdr".to_vec();
    let ph = b"ph".to_vec();
    let sig = Signature::<BBSplus<CS>>::sign(Some(&msgs), kp.private_key(), kp.public_key(), Some(&header)).unwrap().to_bytes();
    let disclosed: Vec<usize> = if l >= 4 && seed % 4 == 3 { vec![0, 2] } else { vec![0] };
    // the blind interface refuses lists longer than the message count: stay within it
    let reps = [1usize, 2, 3, 1, 4][(seed as usize / 4) % 5].min(l / disclosed.len()).max(1);
    let mut disclosed_arg: Vec<usize> = disclosed.iter().flat_map(|&i| std::iter::repeat(i).take(reps)).collect();
    if seed % 8 >= 4 {
        disclosed_arg.reverse();
    }
    Inputs { kp, header, ph, msgs, cm, disclosed, disclosed_arg, sig, key }
}

/// one generation of every randomised artefact, all from identical inputs
fn generate<CS: BbsCiphersuite>(inp: &Inputs<CS>, which: u8) -> Result<Gen, String> {
    let pk = inp.kp.public_key();
    let proof = PoKSignature::<BBSplus<CS>>::proof_gen(pk, &inp.sig, Some(&inp.header), Some(&inp.ph), Some(&inp.msgs), Some(&inp.disclosed_arg))
        .map_err(|e| format!("proof_gen {:?}", e))?;
    // no committed messages: the absent spelling in every second input set
    let cm_arg: Option<&[Vec<u8>]> = if inp.cm.is_empty() && inp.key.ikm.seed % 2 == 0 { None } else { Some(&inp.cm) };
    let (com, bf) = Commitment::<BBSplus<CS>>::commit(cm_arg).map_err(|e| format!("commit {:?}", e))?;
    let bsig = BlindSignature::<BBSplus<CS>>::blind_sign(inp.kp.private_key(), pk, Some(&com.to_bytes()), Some(&inp.header), Some(&inp.msgs))
        .map_err(|e| format!("blind_sign {:?}", e))?;
    let bproof = PoKSignature::<BBSplus<CS>>::blind_proof_gen(pk, &bsig.to_bytes(), Some(&inp.header), Some(&inp.ph), Some(&inp.msgs), Some(&inp.cm), Some(&inp.disclosed_arg), Some(&[]), Some(&bf))
        .map_err(|e| format!("blind_proof_gen {:?}", e))?;
    // the blind interface without commitment and without prover blind (the slot of the blind factor holds 0)
    let bsig0 = BlindSignature::<BBSplus<CS>>::blind_sign(inp.kp.private_key(), pk, None, Some(&inp.header), Some(&inp.msgs)).map_err(|e| format!("blind_sign without commitment {:?}", e))?;
    let bproof0 = PoKSignature::<BBSplus<CS>>::blind_proof_gen(pk, &bsig0.to_bytes(), Some(&inp.header), Some(&inp.ph), Some(&inp.msgs), None, Some(&inp.disclosed_arg), None, None)
        .map_err(|e| format!("blind_proof_gen without prover blind {:?}", e))?;
    let rkp = KeyPair::<BBSplus<CS>>::random().map_err(|e| format!("KeyPair::random {:?}", e))?;
    Ok(Gen {
        input: which,
        proof: hex::encode(proof.to_bytes()),
        blind_proof: format!("{}|{}", hex::encode(bsig.to_bytes()), hex::encode(bproof.to_bytes())),
        blind_proof_nocommit: format!("{}|{}", hex::encode(bsig0.to_bytes()), hex::encode(bproof0.to_bytes())),
        commitment: hex::encode(com.to_bytes()),
        blind_factor: hex::encode(bf.to_bytes()),
        random_bf: hex::encode(BlindFactor::random().to_bytes()),
        random_sk: hex::encode(rkp.private_key().to_bytes()),
        random_secret: hex::encode(zkryptium::utils::util::bbsplus_utils::generate_random_secret(32)),
    })
}

fn big(s: &Scalar) -> bool {
    s.to_be_bytes()[..16].iter().any(|&b| b != 0)
}

struct Pool {
    scalars: Vec<(String, Scalar)>,
    points: Vec<(String, Vec<u8>)>,
}

/// Witness-side analysis of one generation.
fn analyse<CS: BbsCiphersuite>(r: &Ref, inp: &Inputs<CS>, g: &Gen, n: usize, pool: &mut Pool) -> Result<(), (String, String)> {
    let api = r.api_id();
    let apib = r.api_id_blind();
    let sig = refimpl::octets_to_sig(&inp.sig).unwrap();
    let ms = r.msgs_to_scalars(&inp.msgs, &api).unwrap();
    let hidden: Vec<usize> = (0..inp.msgs.len()).filter(|i| !inp.disclosed.contains(i)).collect();
    // plain proof
    let pb = hex::decode(&g.proof).unwrap();
    let p = refimpl::octets_to_proof(&pb).map_err(|e| ("proof-undecodable".to_string(), format!("{:?}", e)))?;
    pool.scalars.push((format!("#{} proof e~", n), p.e_hat - sig.e * p.c));
    for (k, &j) in hidden.iter().enumerate() {
        pool.scalars.push((format!("#{} proof m~[{}]", n, j), p.m_hat[k] - ms[j] * p.c));
    }
    pool.scalars.push((format!("#{} proof challenge", n), p.c));
    pool.scalars.push((format!("#{} proof r1^", n), p.r1_hat));
    pool.scalars.push((format!("#{} proof r3^", n), p.r3_hat));
    for (nm, pt) in [("Abar", &p.abar), ("Bbar", &p.bbar), ("D", &p.d)] {
        pool.points.push((format!("#{} proof {}", n, nm), refimpl::g1_bytes(pt).to_vec()));
    }
    // windows of the encoding
    let secrets32: Vec<(String, [u8; 32])> = hidden
        .iter()
        .map(|&j| (format!("hidden message scalar {}", j), ms[j].to_be_bytes()))
        .chain(std::iter::once(("signature exponent e".to_string(), sig.e.to_be_bytes())))
        .collect();
    for w in pb.windows(32) {
        for (nm, s) in &secrets32 {
            if w == s {
                return Err(("proof-contains-secret".into(), format!("generation {}: the proof octets contain the {}", n, nm)));
            }
        }
    }
    let a48 = refimpl::g1_bytes(&sig.a);
    if pb.windows(48).any(|w| w == a48) {
        return Err(("proof-contains-A".into(), format!("generation {}: the proof octets contain the signature point A", n)));
    }
    // commitment
    let cb = hex::decode(&g.commitment).unwrap();
    let bf = refimpl::octets_to_scalar(&hex::decode(&g.blind_factor).unwrap()).map_err(|e| ("blind-factor-undecodable".to_string(), format!("{:?}", e)))?;
    let cms = r.msgs_to_scalars(&inp.cm, &apib).unwrap();
    let mut sc = vec![];
    for ch in cb[48..].chunks(32) {
        sc.push(refimpl::octets_to_scalar(ch).map_err(|e| ("commitment-undecodable".to_string(), format!("{:?}", e)))?);
    }
    let cc = sc.pop().unwrap();
    pool.scalars.push((format!("#{} commit s~", n), sc[0] - bf * cc));
    for j in 0..cms.len() {
        pool.scalars.push((format!("#{} commit m~[{}]", n, j), sc[1 + j] - cms[j] * cc));
    }
    pool.scalars.push((format!("#{} secret_prover_blind", n), bf));
    pool.scalars.push((format!("#{} commit challenge", n), cc));
    pool.points.push((format!("#{} commitment", n), cb[..48].to_vec()));
    if cb.windows(32).any(|w| w == bf.to_be_bytes()) {
        return Err(("commitment-contains-blind".into(), format!("generation {}: the commitment octets contain secret_prover_blind", n)));
    }
    // blind proof
    let (bs, bp) = g.blind_proof.split_once('|').unwrap();
    let bsig = refimpl::octets_to_sig(&hex::decode(bs).unwrap()).map_err(|e| ("blind-sig-undecodable".to_string(), format!("{:?}", e)))?;
    let bpb = hex::decode(bp).unwrap();
    let bpr = refimpl::octets_to_proof(&bpb).map_err(|e| ("blind-proof-undecodable".to_string(), format!("{:?}", e)))?;
    let bms = r.msgs_to_scalars(&inp.msgs, &apib).unwrap();
    // witness vector of the blind proof: signer messages, blind factor, committed messages
    let mut wit: Vec<Scalar> = bms.clone();
    wit.push(bf);
    wit.extend(cms.iter().cloned());
    let bhidden: Vec<usize> = (0..wit.len()).filter(|i| !inp.disclosed.contains(i)).collect();
    if bpr.m_hat.len() != bhidden.len() {
        return Err(("blind-proof-shape".into(), format!("{} responses for {} hidden values", bpr.m_hat.len(), bhidden.len())));
    }
    pool.scalars.push((format!("#{} blind proof e~", n), bpr.e_hat - bsig.e * bpr.c));
    for (k, &j) in bhidden.iter().enumerate() {
        pool.scalars.push((format!("#{} blind proof m~[{}]", n, j), bpr.m_hat[k] - wit[j] * bpr.c));
    }
    pool.scalars.push((format!("#{} blind proof challenge", n), bpr.c));
    for (nm, pt) in [("Abar", &bpr.abar), ("Bbar", &bpr.bbar), ("D", &bpr.d)] {
        pool.points.push((format!("#{} blind proof {}", n, nm), refimpl::g1_bytes(pt).to_vec()));
    }
    for w in bpb.windows(32) {
        if w == bf.to_be_bytes() || w == bsig.e.to_be_bytes() || bhidden.iter().any(|&j| w == wit[j].to_be_bytes()) {
            return Err(("blind-proof-contains-secret".into(), format!("generation {}: the blind proof octets contain a hidden scalar / e / the blind factor", n)));
        }
    }
    if bpb.windows(48).any(|w| w == refimpl::g1_bytes(&bsig.a)) {
        return Err(("blind-proof-contains-A".into(), format!("generation {}", n)));
    }
    // blind proof without commitment / prover blind: the slot L holds the scalar 0, its response is the bare blinding
    if let Some((bs0, bp0)) = g.blind_proof_nocommit.split_once('|') {
        let bsig0 = refimpl::octets_to_sig(&hex::decode(bs0).unwrap()).map_err(|e| ("blind-sig-undecodable".to_string(), format!("{:?}", e)))?;
        let bpb0 = hex::decode(bp0).unwrap();
        let bpr0 = refimpl::octets_to_proof(&bpb0).map_err(|e| ("blind-proof-undecodable".to_string(), format!("{:?}", e)))?;
        let mut wit0: Vec<Scalar> = bms.clone();
        wit0.push(Scalar::ZERO);
        let h0: Vec<usize> = (0..wit0.len()).filter(|i| !inp.disclosed.contains(i)).collect();
        if bpr0.m_hat.len() != h0.len() {
            return Err(("blind-proof-shape".into(), format!("no commitment: {} responses for {} hidden values", bpr0.m_hat.len(), h0.len())));
        }
        pool.scalars.push((format!("#{} blind proof (no commitment) e~", n), bpr0.e_hat - bsig0.e * bpr0.c));
        for (k, &j) in h0.iter().enumerate() {
            pool.scalars.push((format!("#{} blind proof (no commitment) m~[{}]", n, j), bpr0.m_hat[k] - wit0[j] * bpr0.c));
        }
        pool.scalars.push((format!("#{} blind proof (no commitment) challenge", n), bpr0.c));
        for (nm, pt) in [("Abar", &bpr0.abar), ("Bbar", &bpr0.bbar), ("D", &bpr0.d)] {
            pool.points.push((format!("#{} blind proof (no commitment) {}", n, nm), refimpl::g1_bytes(pt).to_vec()));
        }
    }
    // free-standing random values
    for (nm, h) in [("BlindFactor::random", &g.random_bf), ("KeyPair::random sk", &g.random_sk)] {
        let s = refimpl::octets_to_scalar(&hex::decode(h).unwrap()).map_err(|e| (format!("{}-undecodable", nm), format!("{:?}", e)))?;
        pool.scalars.push((format!("#{} {}", n, nm), s));
    }
    pool.points.push((format!("#{} random secret", n), hex::decode(&g.random_secret).unwrap()));
    Ok(())
}

/// two-transcript extractor over pairs of plain proofs / commitments from the same input
fn extractor<CS: BbsCiphersuite>(r: &Ref, inp: &Inputs<CS>, gens: &[&Gen]) -> Result<u64, (String, String)> {
    let api = r.api_id();
    let sig = refimpl::octets_to_sig(&inp.sig).unwrap();
    let ms = r.msgs_to_scalars(&inp.msgs, &api).unwrap();
    let hidden: Vec<usize> = (0..inp.msgs.len()).filter(|i| !inp.disclosed.contains(i)).collect();
    let ps: Vec<_> = gens.iter().map(|g| refimpl::octets_to_proof(&hex::decode(&g.proof).unwrap()).unwrap()).collect();
    let mut pairs = 0u64;
    for a in 0..ps.len() {
        for b in a + 1..ps.len() {
            let dc = ps[a].c - ps[b].c;
            let Some(inv) = Option::<Scalar>::from(dc.invert()) else {
                return Err(("equal-challenges".into(), format!("two proofs over identical inputs have the same challenge (generations {} and {})", a, b)));
            };
            pairs += 1;
            if (ps[a].e_hat - ps[b].e_hat) * inv == sig.e {
                return Err(("extract-e".into(), format!("(e^ - e^')/(c - c') returns the signature exponent for generations {} and {}", a, b)));
            }
            for (k, &j) in hidden.iter().enumerate() {
                if (ps[a].m_hat[k] - ps[b].m_hat[k]) * inv == ms[j] {
                    return Err(("extract-message".into(), format!("(m^ - m^')/(c - c') returns hidden message {} for generations {} and {}", j, a, b)));
                }
            }
        }
    }
    Ok(pairs)
}

/// global bit statistics of every blinding scalar seen in the run (low 240 bits; the top bits of a value
/// reduced modulo r are not uniform)
static BIT_ONES: std::sync::Mutex<([u64; 240], u64)> = std::sync::Mutex::new(([0u64; 240], 0));

fn record_bits(s: &Scalar) {
    let b = s.to_be_bytes();
    let mut g = BIT_ONES.lock().unwrap();
    for bit in 0..240 {
        let byte = b[31 - bit / 8];
        if byte >> (bit % 8) & 1 == 1 {
            g.0[bit] += 1;
        }
    }
    g.1 += 1;
}

/// monobit test per bit position at 7 sigma (false-alarm probability < 1e-9 over all positions)
fn judge_bits() -> Result<(u64, f64), (String, String)> {
    let g = BIT_ONES.lock().unwrap();
    let n = g.1 as f64;
    if g.1 < 2000 {
        return Ok((g.1, 0.0));
    }
    let sigma = n.sqrt() / 2.0;
    let mut worst = 0.0f64;
    for bit in 0..240 {
        let dev = (g.0[bit] as f64 - n / 2.0).abs() / sigma;
        if dev > worst {
            worst = dev;
        }
        if dev > 7.0 {
            return Err(("biased-blinding-bits".into(), format!("bit {} of the {} recomputed blinding scalars is set {} times ({:.1} sigma from n/2): the blinding is not uniform", bit, g.1, g.0[bit], dev)));
        }
    }
    Ok((g.1, worst))
}

fn judge_pool(pool: &Pool) -> Result<(), (String, String)> {
    for (nm, s) in &pool.scalars {
        if !nm.contains("challenge") {
            record_bits(s);
        }
    }
    let mut seen: HashSet<[u8; 32]> = HashSet::new();
    for (nm, s) in &pool.scalars {
        if *s == Scalar::ZERO {
            return Err(("zero-scalar".into(), format!("{} is zero", nm)));
        }
        if !big(s) {
            return Err(("small-scalar".into(), format!("{} = {} is below 2^128", nm, hex::encode(s.to_be_bytes()))));
        }
        if !seen.insert(s.to_be_bytes()) {
            return Err(("repeated-scalar".into(), format!("{} = {} repeats an earlier value of the history", nm, hex::encode(s.to_be_bytes()))));
        }
    }
    for w in pool.scalars.windows(2) {
        let d = w[0].1 - w[1].1;
        if !big(&d) || !big(&-d) {
            return Err(("structured-scalars".into(), format!("{} and {} differ by less than 2^128", w[0].0, w[1].0)));
        }
    }
    let mut seenp: HashSet<&[u8]> = HashSet::new();
    for (nm, p) in &pool.points {
        if !seenp.insert(p.as_slice()) {
            return Err(("repeated-point".into(), format!("{} = {} repeats an earlier value of the history", nm, hex::encode(p))));
        }
    }
    Ok(())
}

fn run_history<CS: BbsCiphersuite>(rep: &Report, ck: &str, c: &Case) -> CheckResult {
    let r = Ref::new(c.suite);
    let ia = inputs::<CS>(c.seed_a, c.u, c.m);
    let ib = inputs::<CS>(c.seed_b, shape_b(c).0, shape_b(c).1);
    if c.shape_b % 4 != 0 && c.schedule.iter().any(|b| *b) && c.schedule.iter().any(|b| !*b) {
        rep.class("history-alternates-between-two-shapes");
    }
    let n = c.schedule.len();
    // generation, possibly on several threads released together
    let mut gens: Vec<Gen> = Vec::with_capacity(n);
    let mut gen_err: Option<String> = None;
    if c.threads <= 1 {
        // bring a per-thread counter of the scalar generator close to a power of two before the history starts
        // (in scalars: 2^12 .. 2^16; a scalar is 12 32-bit words: 2^16 words = 5461 scalars)
        let pre: usize = [0usize, 0, 5440, 65500, 32740, 16360, 4080, 10900][(c.seed_a % 8) as usize];
        for _ in 0..pre {
            let _ = BlindFactor::random();
        }
        if pre > 0 {
            rep.class("generator-advanced-before-the-history");
        }
        for &b in &c.schedule {
            between_calls::<CS>(if b { &ib } else { &ia }, c.between, gens.last().filter(|g| (g.input == 1) == b).map(|g| g.proof.as_str()));
            match if b { generate::<CS>(&ib, 1) } else { generate::<CS>(&ia, 0) } {
                Ok(g) => gens.push(g),
                Err(e) => {
                    gen_err = Some(e);
                    break;
                }
            }
        }
    } else {
        let barrier = std::sync::Barrier::new(c.threads);
        let parts: Vec<Vec<bool>> = (0..c.threads).map(|t| c.schedule.iter().cloned().skip(t).step_by(c.threads).collect()).collect();
        let res: Vec<Result<Vec<Gen>, String>> = std::thread::scope(|s| {
            let hs: Vec<_> = parts
                .iter()
                .map(|part| {
                    let (ia, ib, barrier, between) = (&ia, &ib, &barrier, c.between);
                    s.spawn(move || {
                        barrier.wait();
                        part.iter()
                            .map(|&b| {
                                between_calls::<CS>(if b { ib } else { ia }, between, None);
                                if b { generate::<CS>(ib, 1) } else { generate::<CS>(ia, 0) }
                            })
                            .collect::<Result<Vec<_>, _>>()
                    })
                })
                .collect();
            hs.into_iter().map(|h| h.join().unwrap_or_else(|_| Err("generation thread panicked".into()))).collect()
        });
        for rr in res {
            match rr {
                Ok(v) => gens.extend(v),
                Err(e) => gen_err = Some(e),
            }
        }
    }
    if let Some(e) = gen_err {
        return rep.fail(ck, "generation-failed", e, json!({"case": c}));
    }
    judge(rep, ck, c, &r, &ia, &ib, &gens, "in-process")
}

fn judge<CS: BbsCiphersuite>(rep: &Report, ck: &str, c: &Case, r: &Ref, ia: &Inputs<CS>, ib: &Inputs<CS>, gens: &[Gen], origin: &str) -> CheckResult {
    let mut pool = Pool { scalars: vec![], points: vec![] };
    for (n, g) in gens.iter().enumerate() {
        let inp = if g.input == 1 { ib } else { ia };
        if let Err((site, msg)) = analyse::<CS>(r, inp, g, n, &mut pool) {
            return rep.fail(ck, &site, format!("{} ({})", msg, origin), json!({"case": c, "generation": g}));
        }
    }
    rep.eval(ck, pool.scalars.len() as u64 + pool.points.len() as u64);
    if let Err((site, msg)) = judge_pool(&pool) {
        return rep.fail(ck, &site, format!("{} ({}, {} generations)", msg, origin, gens.len()), json!({"case": c, "first_generations": gens.iter().take(3).collect::<Vec<_>>()}));
    }
    for (which, inp) in [(0u8, ia), (1u8, ib)] {
        let sel: Vec<&Gen> = gens.iter().filter(|g| g.input == which).take(48).collect();
        match extractor::<CS>(r, inp, &sel) {
            Ok(p) => rep.eval(ck, p),
            Err((site, msg)) => return rep.fail(ck, &site, format!("{} ({})", msg, origin), json!({"case": c})),
        }
    }
    let same_a = gens.iter().filter(|g| g.input == 0).count();
    if same_a >= 2 {
        rep.nontrivial(ck, &json!({"c": c, "origin": origin}));
    }
    rep.class(&format!("threads={}", c.threads));
    rep.class(&format!("U={},M={}", c.u, c.m));
    rep.class(&format!("origin={}", origin));
    rep.class_n("transcripts", gens.len() as u64 * 3);
    rep.sample(ck, json!({"suite": c.suite.name(), "U": c.u, "M": c.m, "generations": gens.len(), "threads": c.threads, "origin": origin,
        "blinding_scalars_recomputed": pool.scalars.len(), "first_proof": gens.first().map(|g| truncate(&g.proof, 96))}));
    Ok(())
}

fn check(rep: &Report, ck: &str, c: &Case) -> CheckResult {
    with_suite!(c.suite, CS => run_history::<CS>(rep, ck, c))
}

/// child process entry: `zkverif c07-child <suite> <seed> <u> <m> <n>` prints one JSON line per generation
pub fn child_main(args: &[String]) {
    let suite = if args[0] == "sha256" { SuiteId::Sha256 } else { SuiteId::Shake256 };
    let seed: u32 = args[1].parse().unwrap();
    let u: usize = args[2].parse().unwrap();
    let m: usize = args[3].parse().unwrap();
    let n: usize = args[4].parse().unwrap();
    with_suite!(suite, CS => {
        let inp = inputs::<CS>(seed, u, m);
        for _ in 0..n {
            let g = generate::<CS>(&inp, 0).unwrap();
            println!("{}", serde_json::to_string(&g).unwrap());
        }
    });
}

fn child_processes(rep: &Report, ck: &str, c: &Case, procs: usize) -> CheckResult {
    let exe = std::env::current_exe().unwrap();
    let n = c.schedule.len();
    let children: Vec<_> = (0..procs)
        .map(|_| {
            std::process::Command::new(&exe)
                .args(["c07-child", c.suite.name(), &c.seed_a.to_string(), &c.u.to_string(), &c.m.to_string(), &n.to_string()])
                .stdout(std::process::Stdio::piped())
                .spawn()
        })
        .collect();
    let mut gens: Vec<Gen> = vec![];
    for ch in children {
        let outp = match ch.and_then(|c| c.wait_with_output()) {
            Ok(o) => o,
            Err(e) => {
                out(&format!("INCONCLUSIVE property=C07 cannot run the child process: {}", e));
                std::process::exit(2);
            }
        };
        for line in String::from_utf8_lossy(&outp.stdout).lines() {
            if let Ok(g) = serde_json::from_str::<Gen>(line) {
                gens.push(g);
            }
        }
    }
    if gens.len() != procs * n {
        out(&format!("INCONCLUSIVE property=C07 child processes returned {} of {} generations", gens.len(), procs * n));
        std::process::exit(2);
    }
    let r = Ref::new(c.suite);
    with_suite!(c.suite, CS => {
        let ia = inputs::<CS>(c.seed_a, c.u, c.m);
        judge::<CS>(rep, ck, c, &r, &ia, &ia, &gens, "fresh-processes")
    })
}

pub fn run(ctx: &Ctx, rep: &Report) -> Meta {
    let n = ctx.tier.pick(64, 1000);
    run_cases(ctx, rep, "histories", ctx.tier.pick(48, 96), 8, || strat(n), |c| check(rep, "histories", c));
    // large shapes: many blinding scalars drawn inside ONE call (block-wise generators, buffers that wrap)
    let mut large: Vec<Case> = vec![];
    let shapes: &[(usize, usize)] = ctx.tier.pick(&[(28, 0), (33, 31), (40, 2), (70, 40), (3, 64)], &[(28, 0), (33, 31), (40, 2), (70, 40), (3, 64), (130, 130), (260, 3), (3, 260), (600, 600)]);
    for (k, &(u, m)) in shapes.iter().enumerate() {
        for suite in [SuiteId::Sha256, SuiteId::Shake256] {
            large.push(Case { suite, seed_a: (ctx.seed as u32).wrapping_add(7 * k as u32 + 1), seed_b: 0, u, m, schedule: vec![false; ctx.tier.pick(4, 12)], threads: 1 + 3 * (k % 2), between: (k % 5) as u8, shape_b: 0 });
        }
    }
    // every count of hidden / committed messages in a contiguous range, two generations each
    for u in 0..ctx.tier.pick(72usize, 140usize) {
        large.push(Case { suite: if u % 2 == 0 { SuiteId::Sha256 } else { SuiteId::Shake256 }, seed_a: (ctx.seed as u32).wrapping_add(1000 + u as u32), seed_b: 0, u, m: (u * 7 + 3) % 73, schedule: vec![false; 2], threads: 1, between: (u % 5) as u8, shape_b: 0 });
    }
    par_items(ctx, rep, "large-shapes", &large, |c| check(rep, "large-shapes", c));
    // identical inputs in fresh processes (per-process seeding defects)
    let procs: Vec<Case> = [SuiteId::Sha256, SuiteId::Shake256]
        .iter()
        .enumerate()
        .map(|(k, &suite)| Case { suite, seed_a: (ctx.seed as u32).wrapping_add(k as u32), seed_b: 0, u: [1, 3][k], m: [2, 0][k], schedule: vec![false; ctx.tier.pick(24, 200)], threads: 1, between: 0, shape_b: 0 })
        .collect();
    par_items(ctx, rep, "fresh-processes", &procs, |c| child_processes(rep, "fresh-processes", c, ctx.tier.pick(3, 8)));
    if !rep.aborted() {
        match judge_bits() {
            Ok((n, worst)) => rep.note(format!("bit balance over {} blinding scalars (low 240 bits): worst deviation {:.2} sigma (limit 7)", n, worst)),
            Err((site, msg)) => rep.add_violation(Fail { check: "bit-balance".into(), site, msg, case: json!({"note": "statistic over the whole run"}) }),
        }
    }
    Meta {
        rule: "history = a generated schedule of n generations (disclosed positions handed over as a plain list or with every position listed up to four times, in ascending or descending order) (small shapes U in {0,1,3}, M in {0,2}; the second input set of a history has up to 2 more hidden / 3 more committed messages than the first, so consecutive calls on a thread ask for different numbers of blinding scalars); large shapes with up to 70 / 600 hidden and 64 / 600 committed messages and EVERY count of hidden messages 0..72 / 0..140 with two generations each; (n = 64 quick / 1000 thorough) over two input sets (same input repeated most of the time), on 1, 4 or 16 threads released from a barrier, with the deterministic calls of a stateless worker (key re-derived from the same key material / sign / verify + proof_verify / all of them) repeated with identical arguments before every generation in four fifths of the histories, \
               plus identical inputs in 3 (quick) / 8 (thorough) fresh child processes; each generation = proof_gen + commit + blind_sign + blind_proof_gen + BlindFactor::random + KeyPair::random + generate_random_secret; \
               oracle (witness holder): e~ = e^ - e*c, m~_j = m^_j - m_j*c, s~ = s^ - blind*c are non-zero, >= 2^128, pairwise distinct over the whole pooled history (also vs. challenges, blind factors, random keys), \
               consecutive values differ by >= 2^128 both ways, Abar/Bbar/D/commitments/random secrets pairwise distinct, two-transcript extractor returns neither e nor a hidden message, \
               every bit of the low 240 bits of the recomputed blinding scalars is balanced over the whole run (monobit test per position at 7 sigma); no 32/48-octet window of an encoding equals a hidden scalar, e, the blind factor or A; non-trivial = history with >= 2 generations over identical inputs"
            .into(),
        assumptions: vec![
            "uniform 255-bit values violate the thresholds with probability < n * 2^-127; distinctness fails by chance with probability < n^2 * 2^-255".into(),
            "freshness / independence can only be refuted by sampling: beyond repetition, structure and per-bit balance, a subtly biased generator is not detected".into(),
        ],
    }
}

pub fn replay(_ctx: &Ctx, rep: &Report, ck: &str, case: &Value) -> CheckResult {
    if ck == "bit-balance" {
        // the statistic is over a whole run: regenerate 40 histories and judge again
        for k in 0..40u32 {
            let c = Case { suite: if k % 2 == 0 { SuiteId::Sha256 } else { SuiteId::Shake256 }, seed_a: k, seed_b: k + 1, u: 3, m: 2, schedule: vec![false; 64], threads: 1, between: 0, shape_b: 0 };
            check(rep, ck, &c)?;
        }
        return match judge_bits() {
            Ok(_) => Ok(()),
            Err((site, msg)) => Err(Fail { check: ck.into(), site, msg, case: case.clone() }),
        };
    }
    let c: Case = serde_json::from_value(case["case"].clone()).map_err(|e| Fail {
        check: ck.into(),
        site: "replay-parse".into(),
        msg: e.to_string(),
        case: case.clone(),
    })?;
    if ck == "fresh-processes" {
        child_processes(rep, ck, &c, 3)
    } else {
        check(rep, ck, &c)
    }
}
