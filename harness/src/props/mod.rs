pub mod c01;
pub mod c02;
pub mod c03;
pub mod c04;
pub mod c05;
pub mod c06;
pub mod c07;
pub mod c08;
