pub mod c01;
