//! C02 — BBS signature binding: nothing but what was signed verifies.

use crate::bbs::*;
use crate::engine::*;
use crate::gen::*;
use crate::with_suite;
use bls12_381_plus::G2Projective;
use proptest::prelude::*;
use serde::{Deserialize, Serialize};
use serde_json::{json, Value};

#[derive(Clone, Debug, Serialize, Deserialize)]
pub struct Case {
    pub suite: SuiteId,
    pub key: KeySpec,
    pub header: OptBytes,
    pub msgs: MsgVec,
    pub mut_seed: u32,
    /// size sweep: edit families at sampled positions only (first, second, middle, last two, random)
    #[serde(default)]
    pub light: bool,
}

const COUNTS: &[usize] = &[0, 1, 2, 3, 4, 5, 6, 8, 10, 12, 17, 21, 24, 33];
const COUNTS_T: &[usize] = &[0, 1, 2, 3, 4, 5, 6, 8, 10, 12, 17, 21, 24, 33, 64, 100];

fn strat(tier: Tier) -> impl Strategy<Value = Case> {
    (
        suite(),
        key_spec_simple(),
        opt_bytes(HDR_LENS_SMALL),
        msg_vec(tier.pick(COUNTS, COUNTS_T), MSG_LENS_SMALL),
        any::<u32>(),
    )
        .prop_map(|(suite, key, header, msgs, mut_seed)| Case { suite, key, header, msgs, mut_seed, light: false })
}

struct Cx<'a> {
    rep: &'a Report,
    ck: &'a str,
    case: &'a Case,
    families: std::cell::RefCell<std::collections::BTreeSet<&'static str>>,
}

impl<'a> Cx<'a> {
    /// `accepted` = the verifier returned Ok for a mutated statement
    fn expect_reject(&self, family: &'static str, accepted: bool, detail: impl FnOnce() -> String) -> CheckResult {
        self.rep.eval(self.ck, 1);
        self.families.borrow_mut().insert(family);
        if accepted {
            return self.rep.fail(
                self.ck,
                &format!("accepted:{}", family),
                format!("mutated statement verifies ({}): {}", family, detail()),
                json!({"case": self.case, "family": family}),
            );
        }
        Ok(())
    }
}

fn check_one<CS: BbsCiphersuite>(rep: &Report, ck: &str, c: &Case) -> CheckResult
where
    CS: BbsCiphersuite,
{
    let cx = Cx { rep, ck, case: c, families: Default::default() };
    let cj = || json!({"case": c});
    let kp = keypair::<CS>(&c.key).map_err(|e| Fail { check: ck.into(), site: "keygen".into(), msg: format!("{:?}", e), case: cj() })?;
    let (sk, pk) = (kp.private_key(), kp.public_key());
    let msgs = c.msgs.materialize();
    let header = c.header.get();
    let hdr = header.as_deref();
    let l = msgs.len();
    let sig = match Signature::<BBSplus<CS>>::sign(Some(&msgs), sk, pk, hdr) {
        Ok(s) => s,
        Err(e) => return rep.fail(ck, "sign-failed", format!("{:?}", e), cj()),
    };
    // positive control
    if let Err(e) = sig.verify(pk, Some(&msgs), hdr) {
        return rep.fail(ck, "honest-verify-failed", format!("{:?}", e), cj());
    }
    let v = |m: &[Vec<u8>], h: Option<&[u8]>, p: &BBSplusPublicKey| sig.verify(p, Some(m), h).is_ok();
    let mut st = c.mut_seed as u64 | 1 << 40;

    // --- message edits -------------------------------------------------------------------
    let sampled = c.light && l > 12;
    let positions: Vec<usize> = if !sampled {
        (0..l).collect()
    } else {
        let mut p = vec![0, 1, l / 2, l - 2, l - 1, (splitmix(&mut st) as usize) % l, (splitmix(&mut st) as usize) % l];
        p.sort();
        p.dedup();
        p
    };
    for &i in &positions {
        let mut m2 = msgs.clone();
        if m2[i].is_empty() {
            m2[i].push(0);
        } else {
            let pos = (splitmix(&mut st) as usize) % m2[i].len();
            m2[i][pos] ^= 1 << (splitmix(&mut st) % 8);
        }
        cx.expect_reject("msg-byte-change", v(&m2, hdr, pk), || format!("message {}", i))?;
        // where inside the message the change sits: first / last octet, one octet shorter / longer (a mapping that
        // reads only part of a long message, or a length that is not bound, shows here); at the first, the last
        // and one random position of the vector
        if msgs[i].len() >= 2 && (i == 0 || i == l - 1 || i == (c.mut_seed as usize) % l) {
            let n = msgs[i].len();
            for (tag, f) in [
                ("last-octet", Box::new(|m: &mut Vec<u8>| m[n - 1] ^= 0x01) as Box<dyn Fn(&mut Vec<u8>)>),
                ("first-octet", Box::new(|m: &mut Vec<u8>| m[0] ^= 0x80)),
                ("octet-before-last", Box::new(|m: &mut Vec<u8>| m[n - 2] ^= 0x10)),
                ("one-octet-shorter", Box::new(|m: &mut Vec<u8>| {
                    m.pop();
                })),
                ("one-zero-octet-longer", Box::new(|m: &mut Vec<u8>| m.push(0))),
                ("leading-zero-octet-added", Box::new(|m: &mut Vec<u8>| m.insert(0, 0))),
            ] {
                let mut m4 = msgs.clone();
                f(&mut m4[i]);
                cx.expect_reject("msg-byte-change", v(&m4, hdr, pk), || format!("message {} ({} octets): {}", i, n, tag))?;
            }
        }
        // the boundary to the next message moved by one octet (the concatenation of all messages stays the same)
        if i + 1 < l {
            if !msgs[i + 1].is_empty() {
                let mut m5 = msgs.clone();
                let o = m5[i + 1].remove(0);
                m5[i].push(o);
                cx.expect_reject("msg-boundary-moved", v(&m5, hdr, pk), || format!("first octet of message {} moved to the end of message {}", i + 1, i))?;
            }
            if !msgs[i].is_empty() {
                let mut m5 = msgs.clone();
                let o = m5[i].pop().unwrap();
                m5[i + 1].insert(0, o);
                cx.expect_reject("msg-boundary-moved", v(&m5, hdr, pk), || format!("last octet of message {} moved to the front of message {}", i, i + 1))?;
            }
        }
        // delete
        let mut m3 = msgs.clone();
        m3.remove(i);
        cx.expect_reject("msg-delete", v(&m3, hdr, pk), || format!("deleted {}", i))?;
        // proper prefix of length i
        cx.expect_reject("msg-prefix", v(&msgs[..i], hdr, pk), || format!("prefix {}", i))?;
    }
    let ins_positions: Vec<usize> = if !sampled { (0..=l).collect() } else { vec![0, 1, l / 2, l - 1, l] };
    for &pos in &ins_positions {
        let mut rnd = vec![0u8; 9];
        fill_random(splitmix(&mut st), &mut rnd);
        let neighbour = if l == 0 { vec![7u8] } else { msgs[pos.min(l - 1)].clone() };
        for (tag, ins) in [("random", rnd), ("empty", vec![]), ("neighbour", neighbour)] {
            let mut m2 = msgs.clone();
            m2.insert(pos, ins);
            cx.expect_reject("msg-insert", v(&m2, hdr, pk), || format!("insert {} at {}", tag, pos))?;
        }
    }
    for k in 1..=3usize {
        let mut m2 = msgs.clone();
        for j in 0..k {
            m2.push(vec![j as u8; j]);
        }
        cx.expect_reject("msg-extend", v(&m2, hdr, pk), || format!("extended by {}", k))?;
    }
    // swaps / replacements of messages with different contents
    let mut pairs: Vec<(usize, usize)> = vec![];
    if l <= 12 || (!c.light && l <= 33 && c.mut_seed % 2 == 0) {
        for i in 0..l {
            for j in i + 1..l {
                pairs.push((i, j));
            }
        }
    } else if sampled {
        pairs.extend([(0, 1), (0, l - 1), (l - 2, l - 1), (l / 2, l - 1)]);
        // a third of the pairs of neighbours, rotating with the seed (two positions that share a generator are most
        // likely adjacent ones; over the sweep every pair of every residue class is visited many times)
        pairs.extend((1..l - 1).filter(|i| (i + c.mut_seed as usize) % 3 == 0).map(|i| (i, i + 1)));
    } else {
        for i in 0..l - 1 {
            pairs.push((i, i + 1));
        }
        pairs.push((0, l - 1));
        for _ in 0..16 {
            let i = (splitmix(&mut st) as usize) % l;
            let j = (splitmix(&mut st) as usize) % l;
            if i < j {
                pairs.push((i, j));
            }
        }
    }
    for &(i, j) in &pairs {
        if msgs[i] == msgs[j] {
            rep.class("skipped:swap-of-equal-messages");
            continue;
        }
        let mut m2 = msgs.clone();
        m2.swap(i, j);
        cx.expect_reject("msg-swap", v(&m2, hdr, pk), || format!("swap {} {}", i, j))?;
        let mut m3 = msgs.clone();
        m3[i] = msgs[j].clone();
        cx.expect_reject("msg-replace-by-other", v(&m3, hdr, pk), || format!("m[{}] := m[{}]", i, j))?;
    }

    // --- header edits (as octet strings; None == empty is not an edit) -----------------------
    let hb: Vec<u8> = header.clone().unwrap_or_default();
    let mut h_edits: Vec<(&str, Option<Vec<u8>>)> = vec![];
    {
        let mut a = hb.clone();
        a.push(0);
        h_edits.push(("append-zero", Some(a)));
        if !hb.is_empty() {
            let mut b = hb.clone();
            let p = (splitmix(&mut st) as usize) % b.len();
            b[p] ^= 1 << (splitmix(&mut st) % 8);
            h_edits.push(("bit-flip", Some(b)));
            let mut b2 = hb.clone();
            *b2.last_mut().unwrap() ^= 1;
            h_edits.push(("last-octet", Some(b2)));
            let mut b3 = hb.clone();
            b3[0] ^= 0x80;
            h_edits.push(("first-octet", Some(b3)));
            let mut b4 = hb.clone();
            b4.insert(0, 0);
            h_edits.push(("leading-zero-octet-added", Some(b4)));
            // same length and the same FNV-1a-32 value: what a cache keyed by a cheap fingerprint cannot tell apart
            if let Some(coll) = fnv1a32_collision(&hb, splitmix(&mut st)) {
                h_edits.push(("same-fnv1a32", Some(coll)));
            }
            let mut d = hb.clone();
            d.pop();
            h_edits.push(("drop-last", Some(d)));
            h_edits.push(("to-none", None));
            h_edits.push(("to-empty", Some(vec![])));
        } else {
            h_edits.push(("to-one-byte", Some(vec![0x41])));
        }
    }
    // `to-none` / `to-empty` first: these spellings are the ones a stale per-(key, L) state would serve
    h_edits.sort_by_key(|e| if e.0.starts_with("to-") { 0 } else { 1 });
    for (tag, h2) in h_edits {
        // re-prime with the honest verification: the state most likely to be reused wrongly
        let _ = sig.verify(pk, Some(&msgs), hdr);
        debug_assert!(h2.clone().unwrap_or_default() != hb);
        cx.expect_reject("header-edit", v(&msgs, h2.as_deref(), pk), || tag.to_string())?;
    }

    // --- edits made IN PLACE: the caller's own list and header buffer are changed between two calls (same addresses,
    // same lengths, other octets), which is what a verifier that reuses its request buffers does; anything keyed by
    // where the data lives instead of what it is answers for the previous content
    {
        let mut mm = msgs.clone();
        let mut hh = hb.clone();
        for round in 0..3usize {
            // honest call on these buffers first
            if sig.verify(pk, Some(&mm), if header.is_some() { Some(&hh[..]) } else { None }).is_err() {
                return rep.fail(ck, "honest-verify-failed", "honest statement in the reused buffers".into(), cj());
            }
            if let Some(i) = (0..l).map(|k| (k + round + c.mut_seed as usize) % l.max(1)).find(|&i| !mm[i].is_empty()) {
                let pos = (round * 7 + c.mut_seed as usize) % mm[i].len();
                mm[i][pos] ^= 0x20;
                let acc = sig.verify(pk, Some(&mm), if header.is_some() { Some(&hh[..]) } else { None }).is_ok();
                mm[i][pos] ^= 0x20;
                cx.expect_reject("in-place-edit:message", acc, || format!("message {} octet {} changed in the caller's buffer after an accepted call", i, pos))?;
            }
            if !hh.is_empty() && header.is_some() {
                let pos = (round * 5 + c.mut_seed as usize) % hh.len();
                hh[pos] ^= 0x01;
                let acc = sig.verify(pk, Some(&mm), Some(&hh[..])).is_ok();
                hh[pos] ^= 0x01;
                cx.expect_reject("in-place-edit:header", acc, || format!("header octet {} changed in the caller's buffer after an accepted call", pos))?;
            }
        }
    }

    // --- a component replaced by another component of the same statement -------------------------
    {
        let mut borrowed: Vec<(&str, Vec<u8>)> = vec![("the public key octets", pk.to_bytes().to_vec()), ("the signature octets", sig.to_bytes().to_vec())];
        if let Some(x) = msgs.first() {
            borrowed.push(("the first message", x.clone()));
        }
        if let Some(x) = msgs.last() {
            borrowed.push(("the last message", x.clone()));
        }
        for (what, val) in &borrowed {
            if *val != hb {
                cx.expect_reject("header-borrowed", v(&msgs, Some(val), pk), || format!("header := {}", what))?;
            }
        }
        if l >= 1 && msgs[0] != hb {
            let mut m2 = msgs.clone();
            m2[0] = hb.clone();
            cx.expect_reject("message-borrowed", v(&m2, hdr, pk), || "first message := the header".into())?;
        }
    }

    // --- long data replaced by a digest of itself ------------------------------------------------
    // (a "large input" shortcut that binds a long header or message through a hash of it makes the hash a second
    // spelling of the same statement)
    if hb.len() > 64 {
        for (tag, d) in crate::bbs::digests_of(c.suite, &hb) {
            cx.expect_reject("header-replaced-by-its-digest", v(&msgs, Some(&d), pk), || format!("header of {} octets := {}", hb.len(), tag))?;
        }
    }
    if let Some((i, m)) = msgs.iter().enumerate().max_by_key(|(_, m)| m.len()).filter(|(_, m)| m.len() > 64) {
        for (tag, d) in crate::bbs::digests_of(c.suite, m) {
            let mut m2 = msgs.clone();
            m2[i] = d;
            cx.expect_reject("message-replaced-by-its-digest", v(&m2, hdr, pk), || format!("message {} of {} octets := {}", i, m.len(), tag))?;
        }
    }

    // the honest statement is verified again before each remaining family (stale-state defects need it)
    let prime = || {
        let _ = sig.verify(pk, Some(&msgs), hdr);
    };
    prime();
    // --- other public keys --------------------------------------------------------------------
    let other = {
        let mut k2 = c.key.clone();
        k2.fixture = false;
        k2.ikm.seed = k2.ikm.seed.wrapping_add(1);
        keypair::<CS>(&k2).unwrap().public_key().clone()
    };
    if other != *pk {
        cx.expect_reject("pk-other", v(&msgs, hdr, &other), || "another generated key".into())?;
    }
    cx.expect_reject("pk-plus-g2", v(&msgs, hdr, &BBSplusPublicKey(pk.0 + G2Projective::GENERATOR)), || "pk + G2".into())?;
    cx.expect_reject("pk-negated", v(&msgs, hdr, &BBSplusPublicKey(-pk.0)), || "-pk".into())?;

    // --- all single-bit flips of the 80 signature octets ---------------------------------------
    let sb = sig.to_bytes();
    let full = l <= 12;
    let mut flips = 0u64;
    for bit in 0..640usize {
        if !full && bit >= 384 + 8 && bit % 5 != (c.mut_seed as usize) % 5 {
            continue; // large L: every bit of A and of the top byte of e, a fifth of the rest
        }
        if sampled && bit >= 384 + 8 && bit % 15 != (c.mut_seed as usize) % 15 {
            continue;
        }
        let mut b2 = sb;
        b2[bit / 8] ^= 1 << (bit % 8);
        let acc = match Signature::<BBSplus<CS>>::from_bytes(&b2) {
            Ok(s2) => s2.verify(pk, Some(&msgs), hdr).is_ok(),
            Err(_) => false,
        };
        flips += 1;
        cx.expect_reject("sig-bit-flip", acc, || format!("bit {} of the signature octets", bit))?;
    }
    if flips == 640 {
        rep.exhaustive("all 640 single-bit flips of the signature octets (cases with L <= 12)".into());
    }
    rep.class_n("sig-bit-flips", flips);

    // --- cross suite ------------------------------------------------------------------------
    prime();
    {
        let acc = with_suite!(c.suite.other(), CS2 => {
            match Signature::<BBSplus<CS2>>::from_bytes(&sb) {
                Ok(s2) => {
                    // same key octets under the other suite
                    let a = s2.verify(pk, Some(&msgs), hdr).is_ok();
                    let kp2 = keypair::<CS2>(&c.key).unwrap();
                    let b = s2.verify(kp2.public_key(), Some(&msgs), hdr).is_ok();
                    a || b
                }
                Err(_) => false,
            }
        });
        cx.expect_reject("cross-suite", acc, || "signature fed to the other ciphersuite".into())?;
    }

    // --- cross interface ----------------------------------------------------------------------
    prime();
    {
        let bs = BlindSignature::<BBSplus<CS>>::from_bytes(&sb);
        if let Ok(bs) = bs {
            let acc = bs.verify_blind_sign(pk, hdr, Some(&msgs), None, None).is_ok();
            cx.expect_reject("plain-sig-through-blind-verify", acc, || "committed = None".into())?;
            for k in 1..=l.min(3) {
                let (a, b) = msgs.split_at(l - k);
                let acc = bs.verify_blind_sign(pk, hdr, Some(a), Some(b), None).is_ok();
                cx.expect_reject("plain-sig-through-blind-verify", acc, || format!("last {} messages as committed", k))?;
            }
            if l >= 1 {
                // one message taken as the blinding slot: L' + 1 + M' = L
                let (a, b) = msgs.split_at(l - 1);
                let acc = bs.verify_blind_sign(pk, hdr, Some(a), Some(&b[..0]), None).is_ok();
                cx.expect_reject("plain-sig-through-blind-verify", acc, || "L-1 messages, no committed".into())?;
            }
        }
        // blind signatures through the plain verifier
        if let Ok(bsig) = BlindSignature::<BBSplus<CS>>::blind_sign(sk, pk, None, hdr, Some(&msgs)) {
            let ps = Signature::<BBSplus<CS>>::from_bytes(&bsig.to_bytes());
            let acc = ps.map(|p| p.verify(pk, Some(&msgs), hdr).is_ok()).unwrap_or(false);
            cx.expect_reject("blind-sig-through-plain-verify", acc, || "issued without commitment".into())?;
        }
        // the degenerate blind signature: nothing committed, nothing from the signer, every spelling of "nothing"
        let degenerate: &[(&str, Option<&[Vec<u8>]>)] = if l <= 1 || c.mut_seed % 8 == 0 { &[("None", None), ("Some([])", Some(&[]))] } else { &[] };
        for &(spelling, sm) in degenerate {
            if let Ok(bsig) = BlindSignature::<BBSplus<CS>>::blind_sign(sk, pk, None, hdr, sm) {
                if let Ok(p) = Signature::<BBSplus<CS>>::from_bytes(&bsig.to_bytes()) {
                    let acc = p.verify(pk, None, hdr).is_ok() || p.verify(pk, Some(&msgs[..0]), hdr).is_ok();
                    cx.expect_reject("blind-sig-through-plain-verify", acc, || format!("issued without commitment and without messages ({})", spelling))?;
                }
            }
            if let Ok((com0, _)) = Commitment::<BBSplus<CS>>::commit(None) {
                if let Ok(bsig) = BlindSignature::<BBSplus<CS>>::blind_sign(sk, pk, Some(&com0.to_bytes()), hdr, sm) {
                    if let Ok(p) = Signature::<BBSplus<CS>>::from_bytes(&bsig.to_bytes()) {
                        let acc = p.verify(pk, None, hdr).is_ok();
                        cx.expect_reject("blind-sig-through-plain-verify", acc, || format!("issued on a commitment to no messages, no signer messages ({})", spelling))?;
                    }
                }
            }
        }
        // and the plain header-only signature through the blind verifier
        if let (false, Ok(ps)) = (degenerate.is_empty(), Signature::<BBSplus<CS>>::sign(None, sk, pk, hdr)) {
            if let Ok(bs) = BlindSignature::<BBSplus<CS>>::from_bytes(&ps.to_bytes()) {
                let acc = bs.verify_blind_sign(pk, hdr, None, None, None).is_ok() || bs.verify_blind_sign(pk, hdr, Some(&msgs[..0]), Some(&msgs[..0]), None).is_ok();
                cx.expect_reject("plain-sig-through-blind-verify", acc, || "header-only signature, nothing committed".into())?;
            }
        }
        let cm = vec![b"committed".to_vec()];
        if let Ok((com, _bf)) = Commitment::<BBSplus<CS>>::commit(Some(&cm)) {
            if let Ok(bsig) = BlindSignature::<BBSplus<CS>>::blind_sign(sk, pk, Some(&com.to_bytes()), hdr, Some(&msgs)) {
                if let Ok(p) = Signature::<BBSplus<CS>>::from_bytes(&bsig.to_bytes()) {
                    let acc = p.verify(pk, Some(&msgs), hdr).is_ok();
                    cx.expect_reject("blind-sig-through-plain-verify", acc, || "issued with a commitment, signer messages only".into())?;
                    let mut all = msgs.clone();
                    all.extend(cm.clone());
                    let acc = p.verify(pk, Some(&all), hdr).is_ok();
                    cx.expect_reject("blind-sig-through-plain-verify", acc, || "issued with a commitment, signer + committed messages".into())?;
                }
            }
        }
    }

    // the same refused call made a second time (a verdict remembered per input must be the right one)
    {
        let mut again: Vec<(&'static str, Vec<Vec<u8>>, Option<Vec<u8>>)> = vec![];
        if l >= 1 {
            again.push(("msg-delete", msgs[1..].to_vec(), header.clone()));
            let mut m2 = msgs.clone();
            m2[l - 1].push(1);
            again.push(("msg-byte-change", m2, header.clone()));
        }
        again.push(("header-edit", msgs.clone(), Some([hb.clone(), vec![0x7e]].concat())));
        for (fam, m2, h2) in again {
            let first = v(&m2, h2.as_deref(), pk);
            let second = v(&m2, h2.as_deref(), pk);
            cx.expect_reject(fam, first || second, || format!("the same refused verification repeated: first call {}, second call {}", if first { "Ok" } else { "Err" }, if second { "Ok" } else { "Err" }))?;
        }
        let first = v(&msgs, hdr, &other);
        let second = v(&msgs, hdr, &other);
        cx.expect_reject("pk-other", first || second, || "the same refused verification under another key repeated".into())?;
    }
    let nf = cx.families.borrow().len();
    rep.class(bucket(l));
    rep.class(&format!("header={}", c.header.class()));
    if nf >= 5 {
        rep.nontrivial(ck, c);
    }
    rep.sample(ck, json!({"suite": c.suite.name(), "L": l, "header": c.header, "families_executed": nf}));
    Ok(())
}

fn check(rep: &Report, ck: &str, c: &Case) -> CheckResult {
    with_suite!(c.suite, CS => check_one::<CS>(rep, ck, c))
}

fn fixed_cases(seed: u64) -> Vec<Case> {
    let mut out = vec![];
    let mut st = seed ^ 0xC02;
    for (k, &l) in [0usize, 1, 2, 3, 5, 8, 12, 17, 24, 33].iter().enumerate() {
        for suite in [SuiteId::Sha256, SuiteId::Shake256] {
            let items = (0..l)
                .map(|j| BSpec { len: [3usize, 0, 32, 48, 7][j % 5], class: 0, seed: splitmix(&mut st) as u32 })
                .collect();
            out.push(Case {
                suite,
                key: KeySpec {
                    fixture: k % 4 == 0,
                    ikm: BSpec { len: 32, class: 0, seed: splitmix(&mut st) as u32 },
                    key_info: OptBytes::None,
                    key_dst: OptBytes::None,
                },
                header: [OptBytes::None, OptBytes::Empty, OptBytes::Bytes(BSpec { len: 16, class: 0, seed: 5 })][k % 3].clone(),
                msgs: MsgVec { items },
                mut_seed: splitmix(&mut st) as u32,
                light: false,
            });
        }
    }
    // near-equal messages: pairs of the same length that differ in one octet only (64 octets and longer as well)
    for (k, lens) in [vec![64usize, 0, 100, 0], vec![127, 0, 0, 256, 0], vec![7, 0, 1000, 0], vec![96, 0, 0, 0]].into_iter().enumerate() {
        for rep_ in 0..3u32 {
            let mut prev_long = 0usize;
            let items: Vec<BSpec> = lens
                .iter()
                .enumerate()
                .map(|(j, &len)| {
                    if len > 0 {
                        prev_long = j;
                        BSpec { len, class: 0, seed: splitmix(&mut st) as u32 }
                    } else {
                        // near-copy of the last long message: index, position and bit from the seed
                        let mut sd = splitmix(&mut st) as u32;
                        while (sd as usize) % j != prev_long {
                            sd = sd.wrapping_add(1);
                        }
                        BSpec { len: 0, class: 6, seed: sd }
                    }
                })
                .collect();
            out.push(Case {
                suite: if (k as u32 + rep_) % 2 == 0 { SuiteId::Sha256 } else { SuiteId::Shake256 },
                key: KeySpec { fixture: false, ikm: BSpec { len: 32, class: 0, seed: splitmix(&mut st) as u32 }, key_info: OptBytes::None, key_dst: OptBytes::None },
                header: OptBytes::Bytes(BSpec { len: 16, class: 0, seed: 5 }),
                msgs: MsgVec { items },
                mut_seed: splitmix(&mut st) as u32,
                light: false,
            });
        }
    }
    // vectors whose lengths are unequal but sum to L * len(m_0) (what a "all attributes have the same width" test
    // that looks at the total only mistakes for a fixed-width vector)
    for (k, lens) in [vec![2usize, 2, 4, 0], vec![4, 3, 5, 4, 4], vec![3, 1, 5, 3], vec![32, 31, 33, 32, 32, 30, 34, 32], vec![8, 8, 8, 0, 16, 8]].into_iter().enumerate() {
        out.push(Case {
            suite: if k % 2 == 0 { SuiteId::Sha256 } else { SuiteId::Shake256 },
            key: KeySpec { fixture: false, ikm: BSpec { len: 32, class: 0, seed: splitmix(&mut st) as u32 }, key_info: OptBytes::None, key_dst: OptBytes::None },
            header: if k % 2 == 0 { OptBytes::None } else { OptBytes::Bytes(BSpec { len: 8, class: 0, seed: 3 }) },
            msgs: MsgVec { items: lens.into_iter().map(|len| BSpec { len, class: 0, seed: splitmix(&mut st) as u32 }).collect() },
            mut_seed: splitmix(&mut st) as u32,
            light: false,
        });
    }
    // long data: messages and headers of 300 octets up to 256 KiB, with the catalogue's first / last-octet,
    // shorter / longer edits
    for (k, (mlens, hlen)) in [
        (vec![5usize, 65537, 32], 0usize),
        (vec![1 << 18], 17),
        (vec![300, 1000], 70000),
        (vec![4095, 4096, 4097], 65536),
        (vec![65535, 1, 65536], 1 << 18),
        (vec![0, 256 * 256 * 3 + 1], 255),
    ]
    .into_iter()
    .enumerate()
    {
        out.push(Case {
            suite: if k % 2 == 0 { SuiteId::Sha256 } else { SuiteId::Shake256 },
            key: KeySpec { fixture: false, ikm: BSpec { len: 32, class: 0, seed: splitmix(&mut st) as u32 }, key_info: OptBytes::None, key_dst: OptBytes::None },
            header: if hlen == 0 { OptBytes::None } else { OptBytes::Bytes(BSpec { len: hlen, class: (k % 3) as u8, seed: 7 }) },
            msgs: MsgVec { items: mlens.into_iter().map(|len| BSpec { len, class: 0, seed: splitmix(&mut st) as u32 }).collect() },
            mut_seed: splitmix(&mut st) as u32,
            light: false,
        });
    }
    out
}

/// every message count in a contiguous range, light catalogue: "magic size" defects (fast paths,
/// buffers, caches that switch at a particular count) sit at sizes no edge list anticipates
fn sweep_cases(seed: u64, counts: impl Iterator<Item = usize>) -> Vec<Case> {
    let mut st = seed ^ 0x5EE9;
    counts
        .enumerate()
        .map(|(k, l)| Case {
            suite: if (k + seed as usize) % 2 == 0 { SuiteId::Sha256 } else { SuiteId::Shake256 },
            key: KeySpec { fixture: false, ikm: BSpec { len: 32, class: 0, seed: splitmix(&mut st) as u32 }, key_info: OptBytes::None, key_dst: OptBytes::None },
            header: [OptBytes::Bytes(BSpec { len: 16, class: 0, seed: 5 }), OptBytes::None, OptBytes::Empty][k % 3].clone(),
            msgs: MsgVec { items: (0..l).map(|j| BSpec { len: [3usize, 32, 0, 7][j % 4], class: 0, seed: splitmix(&mut st) as u32 }).collect() },
            mut_seed: splitmix(&mut st) as u32,
            light: true,
        })
        .collect()
}

/// 16 threads verify honest and edited statements of different sizes at once, starting in a cold process
fn contention(ctx: &Ctx, rep: &Report) {
    let ck = "contention";
    let sizes = [20usize, 40, 64, 17, 12, 33, 65, 24];
    let r = contend(ck, ctx.workers.max(4), ctx.tier.pick(2, 8), |t, round| {
        let l = sizes[(t + round * 3) % sizes.len()];
        let c = Case {
            suite: if (t + round) % 2 == 0 { SuiteId::Sha256 } else { SuiteId::Shake256 },
            key: KeySpec { fixture: false, ikm: BSpec { len: 32, class: 0, seed: (t * 977 + round) as u32 }, key_info: OptBytes::None, key_dst: OptBytes::None },
            header: OptBytes::Bytes(BSpec { len: 16, class: 0, seed: t as u32 }),
            msgs: MsgVec { items: (0..l).map(|j| BSpec { len: 6, class: 0, seed: (t * 1000 + j) as u32 }).collect() },
            mut_seed: (t * 31 + round) as u32 | 1,
            light: true,
        };
        check(rep, ck, &c)
    });
    if let Err(f) = r {
        rep.add_violation(f);
    }
}

/// one (message count, header length) point of the header-length sweep
fn header_len_item(rep: &Report, seed: u64, l: usize, hl: usize) -> CheckResult {
            let suite = if (l + hl) % 2 == 0 { SuiteId::Sha256 } else { SuiteId::Shake256 };
            with_suite!(suite, CS => {
                let kp = keypair::<CS>(&KeySpec { fixture: false, ikm: BSpec { len: 32, class: 0, seed: (seed as u32) ^ l as u32 }, key_info: OptBytes::None, key_dst: OptBytes::None }).unwrap();
                let (sk, pk) = (kp.private_key(), kp.public_key());
                let msgs: Vec<Vec<u8>> = (0..l).map(|j| format!("m{}-{}", j, hl).into_bytes()).collect();
                let header = BSpec { len: hl, class: 0, seed: (hl as u32) ^ 0xABCD }.bytes();
                let sig = Signature::<BBSplus<CS>>::sign(Some(&msgs), sk, pk, Some(&header)).map_err(|e| Fail { check: "header-length-sweep".into(), site: "sign".into(), msg: format!("{:?}", e), case: json!({"L": l, "header_len": hl}) })?;
                let mut edits: Vec<(&str, Vec<u8>)> = vec![("one-zero-octet-longer", [header.clone(), vec![0]].concat())];
                if hl >= 1 {
                    let mut a = header.clone();
                    *a.last_mut().unwrap() ^= 1;
                    edits.push(("last-octet", a));
                    edits.push(("one-octet-shorter", header[..hl - 1].to_vec()));
                }
                if hl >= 8 {
                    let mut a = header.clone();
                    a[hl - 8] ^= 0x40;
                    edits.push(("eighth-octet-from-the-end", a));
                }
                rep.eval("header-length-sweep", 1);
                if sig.verify(pk, Some(&msgs), Some(&header)).is_err() {
                    return rep.fail("header-length-sweep", "honest-verify-failed", format!("L = {}, header of {} octets", l, hl), json!({"L": l, "header_len": hl, "suite": suite.name()}));
                }
                for (tag, h2) in edits {
                    rep.eval("header-length-sweep", 1);
                    if sig.verify(pk, Some(&msgs), Some(&h2)).is_ok() {
                        return rep.fail("header-length-sweep", "accepted:header-edit", format!("L = {}, header of {} octets: verifies with the header {}", l, hl, tag), json!({"L": l, "header_len": hl, "edit": tag, "suite": suite.name()}));
                    }
                }
                Ok(())
            })
        }

pub fn run(ctx: &Ctx, rep: &Report) -> Meta {
    contention(ctx, rep);
    let fx = fixed_cases(ctx.seed);
    par_items(ctx, rep, "fixed-shapes", &fx, |c| check(rep, "fixed-shapes", c));
    let sweep: Vec<Case> = match ctx.tier {
        Tier::Quick => sweep_cases(ctx.seed, (13..=66).chain([127, 128, 129, 255, 256, 257])),
        Tier::Thorough => sweep_cases(ctx.seed, (13..=160).chain([255, 256, 257, 511, 512, 513])),
    };
    par_items(ctx, rep, "size-sweep", &sweep, |c| check(rep, "size-sweep", c));
    if !rep.aborted() {
        rep.exhaustive(format!("every message count L in {} with the sampled-position catalogue", ctx.tier.pick("13..=66 and {127..129, 255..257}", "13..=160 and {255..257, 511..513}")));
    }
    // every header length: a fixed-size staging buffer, a block boundary or a length prefix that is too narrow bites at
    // one particular total size; for a few message counts the header takes every length 0..=1100 (quick) / 0..=2400
    // and the signature must not verify for the header with its last octet changed, one octet shorter or longer
    {
        let lens: Vec<(usize, usize)> = [1usize, 3, 10, 17].iter().flat_map(|&l| (0..=ctx.tier.pick(1100usize, 2400usize)).map(move |h| (l, h))).collect();
        let seed = ctx.seed;
        par_items(ctx, rep, "header-length-sweep", &lens, |&(l, hl)| header_len_item(rep, seed, l, hl));
        if !rep.aborted() {
            rep.exhaustive(format!("every header length 0..={} for L in {{1, 3, 10, 17}} with the tail edits", ctx.tier.pick(1100, 2400)));
        }
    }
    let tier = ctx.tier;
    run_cases(ctx, rep, "mutations", ctx.tier.pick(56, 320), 200, || strat(tier), |c| check(rep, "mutations", c));
    Meta {
        rule: "honest (suite, key, header, msgs, signature) then the mutation catalogue enumerated per case: message byte change (random octet; first / last octet, one octet shorter / longer, leading zero octet for the first, last and one random message) / boundary to the next message moved by one octet / delete / prefix at every position, vectors of unequal lengths that sum to L * len(m_0), near-equal messages (same length, one octet apart, 7 to 1000 octets) in one vector, long data (messages and headers of 300 octets to 256 KiB), header-length-sweep: every header length 0..=1100 (quick) / 2400 for L in {1, 3, 10, 17} with tail edits, \
               insert (random, empty, neighbour) at every position 0..=L, extension by 1..=3, swap and replace-by-other of every pair with different contents (all pairs for L<=12), \
               header edits as octet strings (including one of the same length with the same FNV-1a-32 value), edits made in place in the caller's buffers between two calls (same addresses and lengths, other octets), header := public key / signature / first / last message octets and first message := header (a component borrowed from elsewhere in the statement), a rotating third of the pairs of neighbours swapped also in the size sweep and under contention, every header and the longest message above 64 octets replaced by 27 digests of itself (SHA-2, SHA-3, SHAKE, the suite's expand_message / hash_to_scalar under the library's tags; 32 / 48 / 64 octets), refused verifications repeated a second time, pk in {other key, pk+G2, -pk}, every single-bit flip of the 80 signature octets (all 640 for L<=12), cross-suite, cross-interface in both directions (including the degenerate blind signature without commitment and without messages under every spelling of 'nothing', and the header-only plain signature through the blind verifier); \
               the same catalogue under contention in a cold process, re-priming with the honest verification before the spelling / suite / interface families, all pairs swapped for half of the fixed shapes up to L = 33; oracle: every mutated verification (or decoding) returns Err; non-trivial = honest case with >= 5 mutation families executed; evaluations = mutated verifications"
            .into(),
        assumptions: vec![
            "accidental acceptance of a changed statement would need a hash collision (2^-128)".into(),
            "shapes beyond the fixtures' 16-entry vectors are forced: L in {17, 21, 24, 33} with the full catalogue and every L in 13..=66 (quick) / 13..=160 (thorough) plus powers of two +-1 with the catalogue at sampled positions (first, second, middle, last two, random)".into(),
        ],
    }
}

pub fn replay(ctx: &Ctx, rep: &Report, ck: &str, case: &Value) -> CheckResult {
    // contention checks are replayed as a whole (the schedule is part of the case)
    if ck == "contention" {
        let before = rep.violation_count();
        contention(ctx, rep);
        return if rep.violation_count() > before { Err(Fail { check: ck.into(), site: "reproduced-under-contention".into(), msg: "the contention check fails again".into(), case: case.clone() }) } else { Ok(()) };
    }
    if ck == "header-length-sweep" {
        let (l, hl) = match (case["L"].as_u64(), case["header_len"].as_u64(), case["case"].as_array()) {
            (Some(l), Some(h), _) => (l as usize, h as usize),
            (_, _, Some(a)) if a.len() == 2 => (a[0].as_u64().unwrap_or(1) as usize, a[1].as_u64().unwrap_or(0) as usize),
            _ => return Err(Fail { check: ck.into(), site: "replay-parse".into(), msg: "no (L, header_len) in the case".into(), case: case.clone() }),
        };
        return header_len_item(rep, ctx.seed, l, hl);
    }
    let c: Case = serde_json::from_value(case["case"].clone()).map_err(|e| Fail {
        check: ck.into(),
        site: "replay-parse".into(),
        msg: e.to_string(),
        case: case.clone(),
    })?;
    check(rep, ck, &c)
}
