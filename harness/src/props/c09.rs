//! C09 — Encodings are canonical and strict.

use crate::bbs::*;
use crate::engine::*;
use crate::gen::*;
use crate::with_suite;
use bls12_381_plus::group::{Curve, Group};
use bls12_381_plus::{G1Affine, G1Projective, G2Affine, G2Projective, Scalar};
use proptest::prelude::*;
use serde::{Deserialize, Serialize};
use serde_json::{json, Value};
use zkryptium::bbsplus::proof::BBSplusZKPoK;
use zkryptium::utils::message::bbsplus_message::BBSplusMessage;

#[derive(Clone, Copy, Debug, PartialEq, Eq, Serialize, Deserialize)]
pub enum Codec {
    Pk,
    Sk,
    Sig,
    BlindSig,
    Proof,
    ZkPok,
    Commitment,
    BlindFactor,
    Message,
}

pub const CODECS: [Codec; 9] = [Codec::Pk, Codec::Sk, Codec::Sig, Codec::BlindSig, Codec::Proof, Codec::ZkPok, Codec::Commitment, Codec::BlindFactor, Codec::Message];

/// decode with the library and re-encode; None = the decoder returned an error
pub fn decode_encode<CS: BbsCiphersuite>(codec: Codec, b: &[u8]) -> Option<Vec<u8>> {
    match codec {
        Codec::Pk => BBSplusPublicKey::from_bytes(b).ok().map(|x| x.to_bytes().to_vec()),
        Codec::Sk => BBSplusSecretKey::from_bytes(b).ok().map(|x| x.to_bytes().to_vec()),
        Codec::Sig => <[u8; 80]>::try_from(b).ok().and_then(|a| Signature::<BBSplus<CS>>::from_bytes(&a).ok()).map(|x| x.to_bytes().to_vec()),
        Codec::BlindSig => <[u8; 80]>::try_from(b).ok().and_then(|a| BlindSignature::<BBSplus<CS>>::from_bytes(&a).ok()).map(|x| x.to_bytes().to_vec()),
        Codec::Proof => PoKSignature::<BBSplus<CS>>::from_bytes(b).ok().map(|x| x.to_bytes()),
        Codec::ZkPok => BBSplusZKPoK::from_bytes(b).ok().map(|x| x.to_bytes()),
        Codec::Commitment => Commitment::<BBSplus<CS>>::from_bytes(b).ok().map(|x| x.to_bytes()),
        Codec::BlindFactor => <[u8; 32]>::try_from(b).ok().and_then(|a| BlindFactor::from_bytes(&a).ok()).map(|x| x.to_bytes().to_vec()),
        Codec::Message => <[u8; 32]>::try_from(b).ok().and_then(|a| BBSplusMessage::from_bytes_be(&a).ok()).map(|x| x.to_bytes_be().to_vec()),
    }
}

/// field layout of an encoding of `len` octets: (offset, kind) with kind 1 = G1, 2 = G2, 0 = scalar
fn layout(codec: Codec, len: usize) -> Vec<(usize, u8)> {
    match codec {
        Codec::Pk => vec![(0, 2)],
        Codec::Sk | Codec::BlindFactor | Codec::Message => vec![(0, 0)],
        Codec::Sig | Codec::BlindSig => vec![(0, 1), (48, 0)],
        Codec::Proof => {
            let mut v = vec![(0, 1), (48, 1), (96, 1)];
            v.extend((144..len).step_by(32).map(|o| (o, 0)));
            v
        }
        Codec::ZkPok => (0..len).step_by(32).map(|o| (o, 0)).collect(),
        Codec::Commitment => {
            let mut v = vec![(0, 1)];
            v.extend((48..len).step_by(32).map(|o| (o, 0)));
            v
        }
    }
}

const R_HEX: &str = "73eda753299d7d483339d80809a1d80553bda402fffe5bfeffffffff00000001";
const P_HEX: &str = "1a0111ea397fe69a4b1ba7b6434bacd764774b84f38512bf6730d2a0f6b0f6241eabfffeb153ffffb9feffffffffaaab";

fn add_be(a: &[u8], k: u64) -> Vec<u8> {
    let mut v = a.to_vec();
    let mut carry = k as u128;
    for b in v.iter_mut().rev() {
        let s = *b as u128 + (carry & 0xff);
        *b = s as u8;
        carry = (carry >> 8) + (s >> 8);
    }
    v
}

/// forbidden scalar patterns: values >= r
fn bad_scalars() -> Vec<(&'static str, Vec<u8>)> {
    let r = hex::decode(R_HEX).unwrap();
    let mut v = vec![("scalar=r", r.clone()), ("scalar=r+1", add_be(&r, 1)), ("scalar=2^256-1", vec![0xff; 32]), ("scalar=r+2^32", add_be(&r, 1 << 32))];
    // r + 2^k for every k that still fits 256 bits, and r with single bits above its leading limb set: a hand-written
    // limb comparison that is wrong in one limb accepts only a band of such values
    for k in 0..=255usize {
        let mut one = vec![0u8; 32];
        one[31 - k / 8] = 1 << (k % 8);
        if let Some(x) = plus_r(&one) {
            v.push(("scalar=r+2^k", x));
        }
    }
    for k in [1usize, 64, 65, 127, 128, 129, 191, 192, 193, 250] {
        // 2^256 - 1 - 2^k: still >= r for every k < 255
        let mut x = vec![0xffu8; 32];
        x[31 - k / 8] &= !(1 << (k % 8));
        v.push(("scalar=2^256-1-2^k", x));
    }
    v
}

/// forbidden G1 patterns, classified independently with bls12_381_plus primitives
fn bad_g1(seed: u64) -> Vec<(String, Vec<u8>)> {
    let mut out: Vec<(String, Vec<u8>)> = vec![];
    let p = hex::decode(P_HEX).unwrap();
    let mut xp = p.clone();
    xp[0] |= 0x80;
    out.push(("g1:x=p".into(), xp));
    let mut xp1 = add_be(&p, 5);
    xp1[0] |= 0x80;
    out.push(("g1:x=p+5".into(), xp1));
    // flag patterns
    let gen = G1Affine::generator().to_compressed();
    let mut nocomp = gen;
    nocomp[0] &= 0x7f;
    out.push(("g1:compression-flag-cleared".into(), nocomp.to_vec()));
    let mut inf_x = gen;
    inf_x[0] |= 0x40;
    out.push(("g1:infinity-flag-with-x".into(), inf_x.to_vec()));
    let mut inf_sort = vec![0u8; 48];
    inf_sort[0] = 0xe0;
    out.push(("g1:infinity-with-sort-flag".into(), inf_sort));
    // off-curve and on-curve-outside-the-subgroup by search
    let mut st = seed | 1;
    let (mut off, mut nosub) = (0, 0);
    for _ in 0..4000 {
        let mut b = [0u8; 48];
        fill_random(splitmix(&mut st), &mut b);
        b[0] = (b[0] & 0x1f) | 0x80 | ((splitmix(&mut st) as u8 & 1) << 5);
        if b[0] & 0x1f >= 0x1a {
            continue; // keep x below p: the x >= p class is covered separately
        }
        let un = Option::<G1Affine>::from(G1Affine::from_compressed_unchecked(&b));
        match un {
            None if off < 3 => {
                off += 1;
                out.push((format!("g1:off-curve-{}", off), b.to_vec()));
            }
            Some(pt) if !bool::from(pt.is_torsion_free()) && nosub < 3 => {
                nosub += 1;
                out.push((format!("g1:on-curve-not-in-subgroup-{}", nosub), b.to_vec()));
            }
            _ => {}
        }
        if off >= 3 && nosub >= 3 {
            break;
        }
    }
    out
}

fn bad_g2(seed: u64) -> Vec<(String, Vec<u8>)> {
    let mut out: Vec<(String, Vec<u8>)> = vec![];
    let gen = G2Affine::generator().to_compressed();
    let mut nocomp = gen;
    nocomp[0] &= 0x7f;
    out.push(("g2:compression-flag-cleared".into(), nocomp.to_vec()));
    let mut inf_x = gen;
    inf_x[0] |= 0x40;
    out.push(("g2:infinity-flag-with-x".into(), inf_x.to_vec()));
    let p = hex::decode(P_HEX).unwrap();
    let mut xp = gen;
    xp[..48].copy_from_slice(&p);
    xp[0] |= 0x80;
    out.push(("g2:x.c1=p".into(), xp.to_vec()));
    let mut xp2 = gen;
    xp2[48..].copy_from_slice(&p);
    out.push(("g2:x.c0=p".into(), xp2.to_vec()));
    let mut st = seed | 1;
    let (mut off, mut nosub) = (0, 0);
    for _ in 0..4000 {
        let mut b = [0u8; 96];
        fill_random(splitmix(&mut st), &mut b);
        b[0] = (b[0] & 0x0f) | 0x80 | ((splitmix(&mut st) as u8 & 1) << 5);
        b[48] &= 0x0f;
        match Option::<G2Affine>::from(G2Affine::from_compressed_unchecked(&b)) {
            None if off < 3 => {
                off += 1;
                out.push((format!("g2:off-curve-{}", off), b.to_vec()));
            }
            Some(pt) if !bool::from(pt.is_torsion_free()) && nosub < 3 => {
                nosub += 1;
                out.push((format!("g2:on-curve-not-in-subgroup-{}", nosub), b.to_vec()));
            }
            _ => {}
        }
        if off >= 3 && nosub >= 3 {
            break;
        }
    }
    out
}

fn identity_g1() -> Vec<u8> {
    let mut v = vec![0u8; 48];
    v[0] = 0xc0;
    v
}

fn identity_g2() -> Vec<u8> {
    let mut v = vec![0u8; 96];
    v[0] = 0xc0;
    v
}

/// honest encodings of every codec for one generated shape
struct Enc {
    items: Vec<(Codec, Vec<u8>)>,
}

#[derive(Clone, Debug, Serialize, Deserialize)]
pub struct Case {
    pub suite: SuiteId,
    pub key: KeySpec,
    pub u: usize,
    pub m: usize,
    pub seed: u32,
    pub exhaustive_flips: bool,
}

fn strat() -> impl Strategy<Value = Case> {
    (suite(), key_spec(), 0usize..=4, 0usize..=4, any::<u32>()).prop_map(|(suite, key, u, m, seed)| Case { suite, key, u, m, seed, exhaustive_flips: false })
}

fn check_one<CS: BbsCiphersuite>(rep: &Report, ck: &str, c: &Case) -> CheckResult {
    let cj = |extra: Value| json!({"case": c, "detail": extra});
    let kp = if c.seed % 5 == 0 { KeyPair::<BBSplus<CS>>::random().unwrap() } else { keypair::<CS>(&c.key).map_err(|e| Fail { check: ck.into(), site: "keygen".into(), msg: format!("{:?}", e), case: cj(json!(null)) })? };
    let (sk, pk) = (kp.private_key(), kp.public_key());
    let l = c.u + 1;
    let msgs: Vec<Vec<u8>> = (0..l).map(|i| format!("m{}-{}", i, c.seed).into_bytes()).collect();
    let cm: Vec<Vec<u8>> = (0..c.m).map(|i| format!("c{}-{}", i, c.seed).into_bytes()).collect();
    let sig = Signature::<BBSplus<CS>>::sign(Some(&msgs), sk, pk, Some(b"h")).unwrap();
    let disclosed: Vec<usize> = vec![0];
    let proof = PoKSignature::<BBSplus<CS>>::proof_gen(pk, &sig.to_bytes(), Some(b"h"), None, Some(&msgs), Some(&disclosed)).unwrap();
    let (com, bf) = Commitment::<BBSplus<CS>>::commit(Some(&cm)).unwrap();
    let bsig = BlindSignature::<BBSplus<CS>>::blind_sign(sk, pk, Some(&com.to_bytes()), None, Some(&msgs)).unwrap();
    let zk = BBSplusZKPoK::from_bytes(&com.to_bytes()[48..]).unwrap();
    let msg_scalar = BBSplusMessage::map_message_to_scalar_as_hash::<CS>(&msgs[0], CS::API_ID).unwrap();

    // ---- relation (1): round trips of API-produced objects -------------------------------------
    macro_rules! rt {
        ($name:expr, $cond:expr) => {
            rep.eval(ck, 1);
            if !$cond {
                return rep.fail(ck, &format!("roundtrip:{}", $name), format!("{} does not survive its encoding", $name), cj(json!(null)));
            }
        };
    }
    rt!("pk-octets", BBSplusPublicKey::from_bytes(&pk.to_bytes()).ok().as_ref() == Some(pk));
    rt!("sk-octets", BBSplusSecretKey::from_bytes(&sk.to_bytes()).ok().as_ref() == Some(sk));
    rt!("sk-public_key", &sk.public_key() == pk);
    let (x, y) = pk.to_coordinates();
    rt!("pk-coordinates", BBSplusPublicKey::from_coordinates(&x, &y).ok().as_ref() == Some(pk));
    rt!("sig-octets", Signature::<BBSplus<CS>>::from_bytes(&sig.to_bytes()).ok().as_ref() == Some(&sig));
    rt!("blindsig-octets", BlindSignature::<BBSplus<CS>>::from_bytes(&bsig.to_bytes()).ok().as_ref() == Some(&bsig));
    rt!("proof-octets", PoKSignature::<BBSplus<CS>>::from_bytes(&proof.to_bytes()).ok().as_ref() == Some(&proof));
    rt!("commitment-octets", Commitment::<BBSplus<CS>>::from_bytes(&com.to_bytes()).ok().as_ref() == Some(&com));
    rt!("zkpok-octets", BBSplusZKPoK::from_bytes(&zk.to_bytes()).ok().as_ref() == Some(&zk));
    rt!("blindfactor-octets", BlindFactor::from_bytes(&bf.to_bytes()).map(|b| b.to_bytes()).ok() == Some(bf.to_bytes()));
    rt!("message-octets", BBSplusMessage::from_bytes_be(&msg_scalar.to_bytes_be()).ok() == Some(msg_scalar));
    macro_rules! js {
        ($name:expr, $ty:ty, $v:expr) => {
            rep.eval(ck, 1);
            let s = serde_json::to_string($v).unwrap();
            match serde_json::from_str::<$ty>(&s) {
                Ok(b) if &b == $v => {}
                _ => return rep.fail(ck, &format!("roundtrip:json-{}", $name), format!("{} does not survive serde_json: {}", $name, truncate(&s, 300)), cj(json!(null))),
            }
            // the other ways a JSON document reaches the type: an owned Value, a reader (a file), a byte slice
            rep.eval(ck, 3);
            let via_value = serde_json::to_value($v).ok().and_then(|val| serde_json::from_value::<$ty>(val).ok());
            let via_reader = serde_json::from_reader::<_, $ty>(std::io::Cursor::new(s.as_bytes().to_vec())).ok();
            let via_slice = serde_json::from_slice::<$ty>(s.as_bytes()).ok();
            for (how, got) in [("from_value", via_value), ("from_reader", via_reader), ("from_slice", via_slice)] {
                if got.as_ref() != Some($v) {
                    return rep.fail(ck, &format!("roundtrip:json-{}:{}", $name, how), format!("{} written by serde_json is not read back by serde_json::{}", $name, how), cj(json!(null)));
                }
            }
        };
    }
    js!("pk", BBSplusPublicKey, pk);
    js!("sk", BBSplusSecretKey, sk);
    js!("keypair", KeyPair<BBSplus<CS>>, &kp);
    js!("sig", Signature<BBSplus<CS>>, &sig);
    js!("blindsig", BlindSignature<BBSplus<CS>>, &bsig);
    js!("proof", PoKSignature<BBSplus<CS>>, &proof);
    js!("zkpok", BBSplusZKPoK, &zk);
    js!("commitment", Commitment<BBSplus<CS>>, &com);
    js!("message", BBSplusMessage, &msg_scalar);

    let enc = Enc {
        items: vec![
            (Codec::Pk, pk.to_bytes().to_vec()),
            (Codec::Sk, sk.to_bytes().to_vec()),
            (Codec::Sig, sig.to_bytes().to_vec()),
            (Codec::BlindSig, bsig.to_bytes().to_vec()),
            (Codec::Proof, proof.to_bytes()),
            (Codec::ZkPok, zk.to_bytes()),
            (Codec::Commitment, com.to_bytes()),
            (Codec::BlindFactor, bf.to_bytes().to_vec()),
            (Codec::Message, msg_scalar.to_bytes_be().to_vec()),
        ],
    };

    // ---- relations (2) and (3) over derived octet strings ------------------------------------------
    let mut st = (c.seed as u64) << 3 | 5;
    let g1bad = bad_g1(c.seed as u64 ^ 0x1111);
    let g2bad = bad_g2(c.seed as u64 ^ 0x2222);
    let sbad = bad_scalars();
    let other_g1 = (G1Projective::GENERATOR * Scalar::from(splitmix(&mut st))).to_affine().to_compressed().to_vec();
    let other_g2 = (G2Projective::GENERATOR * Scalar::from(splitmix(&mut st))).to_affine().to_compressed().to_vec();

    for (codec, honest) in &enc.items {
        let codec = *codec;
        let canon = |b: &[u8], how: &str| -> CheckResult {
            rep.eval(ck, 1);
            if let Some(re) = decode_encode::<CS>(codec, b) {
                if re != b {
                    return rep.fail(
                        ck,
                        &format!("non-canonical:{:?}:{}", codec, how.split(':').next().unwrap_or(how)),
                        format!("{:?}: accepted octets {} re-encode as {} ({})", codec, hx(b), hx(&re), how),
                        cj(json!({"codec": codec, "octets": hex::encode(b), "how": how})),
                    );
                }
                rep.class(&format!("accepted-variant:{:?}", codec));
            }
            Ok(())
        };
        let forbidden = |b: &[u8], class: &str| -> CheckResult {
            rep.eval(ck, 1);
            if decode_encode::<CS>(codec, b).is_some() {
                return rep.fail(
                    ck,
                    &format!("forbidden-accepted:{:?}:{}", codec, class),
                    format!("{:?} decoder accepts an input of the forbidden class {}: {}", codec, class, hx(b)),
                    cj(json!({"codec": codec, "octets": hex::encode(b), "class": class})),
                );
            }
            Ok(())
        };
        canon(honest, "honest")?;
        // the same octets handed over as a slice at every alignment: behind 1..=8 octets of a frame (a tag or a
        // length prefix), as a network buffer would; a decoder that reads words instead of octets must not care
        for off in 1..=8usize {
            let frame = [&vec![0xA5u8; off][..], &honest[..], &[0x5Au8; 3][..]].concat();
            let view = &frame[off..off + honest.len()];
            rep.eval(ck, 1);
            if decode_encode::<CS>(codec, view).as_deref() != Some(&honest[..]) {
                return rep.fail(ck, &format!("alignment-dependent:{:?}", codec), format!("{:?}: the honest encoding is decoded differently (or refused) when the slice starts {} octets into a buffer", codec, off), cj(json!({"codec": codec, "octets": hex::encode(honest), "offset": off})));
            }
        }
        // the text forms of the encoding (what encode() / Display / a JSON document carry) are not the encoding
        for (class, text) in [("hex-text-lower", hex::encode(honest)), ("hex-text-upper", hex::encode_upper(honest)), ("0x-hex-text", format!("0x{}", hex::encode(honest)))] {
            // (a ZKPoK is a bare run of scalars of any count: ASCII text of the right length is one, and canonical)
            if codec == Codec::ZkPok {
                canon(text.as_bytes(), class)?;
            } else {
                forbidden(text.as_bytes(), class)?;
            }
        }
        // bit flips
        let nb = honest.len() * 8;
        for bit in 0..nb {
            if !c.exhaustive_flips && splitmix(&mut st) % (nb as u64) >= 48 {
                continue;
            }
            let mut b = honest.clone();
            b[bit / 8] ^= 1 << (bit % 8);
            canon(&b, &format!("bit-flip:{}", bit))?;
        }
        // extensions by 1..=64 octets and every truncation: wrong lengths must be rejected
        for k in 1..=64usize {
            let mut b = honest.clone();
            let mut pad = vec![0u8; k];
            if k % 2 == 0 {
                fill_random(splitmix(&mut st), &mut pad);
            }
            b.extend(pad);
            let legal_len = matches!(codec, Codec::Proof | Codec::ZkPok | Codec::Commitment) && k % 32 == 0;
            if legal_len {
                canon(&b, &format!("extended:{}", k))?;
            } else {
                forbidden(&b, "trailing-bytes")?;
            }
        }
        for k in 0..honest.len() {
            let b = &honest[..k];
            let min = match codec {
                Codec::Proof => 272,
                Codec::ZkPok => 64,
                Codec::Commitment => 112,
                _ => usize::MAX,
            };
            let legal_len = match codec {
                Codec::Proof => k >= min && (k - 240) % 32 == 0,
                Codec::ZkPok => k >= min && k % 32 == 0,
                Codec::Commitment => k >= min && (k - 48) % 32 == 0,
                _ => false,
            };
            if legal_len {
                canon(b, &format!("truncated:{}", k))?;
            } else {
                forbidden(b, "too-short")?;
            }
        }
        // field-level patterns
        for (off, kind) in layout(codec, honest.len()) {
            let put = |pat: &[u8]| {
                let mut b = honest.clone();
                b[off..off + pat.len()].copy_from_slice(pat);
                b
            };
            // the same object in its other standard form: an uncompressed point spliced in place of the compressed one
            if kind == 1 {
                if let Some(pt) = Option::<G1Affine>::from(G1Affine::from_compressed(honest[off..off + 48].try_into().unwrap())) {
                    let mut b = honest[..off].to_vec();
                    b.extend_from_slice(&pt.to_uncompressed());
                    b.extend_from_slice(&honest[off + 48..]);
                    forbidden(&b, "uncompressed-point")?;
                }
            } else if kind == 2 {
                if let Some(pt) = Option::<G2Affine>::from(G2Affine::from_compressed(honest[off..off + 96].try_into().unwrap())) {
                    let mut b = honest[..off].to_vec();
                    b.extend_from_slice(&pt.to_uncompressed());
                    b.extend_from_slice(&honest[off + 96..]);
                    forbidden(&b, "uncompressed-point")?;
                }
            }
            match kind {
                0 => {
                    for (nm, pat) in &sbad {
                        forbidden(&put(pat), nm)?;
                    }
                    // the honest value written as value + r
                    if let Some(alias) = plus_r(&honest[off..off + 32]) {
                        forbidden(&put(&alias), "scalar=value+r")?;
                    }
                    let mut rm1 = hex::decode(R_HEX).unwrap();
                    rm1[31] = 0x00; // r ends in ...00000001
                    canon(&put(&rm1), "scalar=r-1")?;
                    let zero = vec![0u8; 32];
                    if matches!(codec, Codec::Sig | Codec::BlindSig) {
                        forbidden(&put(&zero), "e=0")?;
                    } else {
                        canon(&put(&zero), "scalar=0")?;
                    }
                }
                1 => {
                    for (nm, pat) in &g1bad {
                        forbidden(&put(pat), nm.trim_end_matches(|ch: char| ch == '-' || ch.is_ascii_digit()))?;
                    }
                    canon(&put(&other_g1), "other-valid-point")?;
                    if matches!(codec, Codec::Sig | Codec::BlindSig | Codec::Proof) {
                        forbidden(&put(&identity_g1()), "identity-point")?;
                    } else {
                        canon(&put(&identity_g1()), "identity-point")?;
                    }
                }
                _ => {
                    for (nm, pat) in &g2bad {
                        forbidden(&put(pat), nm.trim_end_matches(|ch: char| ch == '-' || ch.is_ascii_digit()))?;
                    }
                    canon(&put(&other_g2), "other-valid-point")?;
                    forbidden(&put(&identity_g2()), "identity-public-key")?;
                }
            }
        }
        if codec == Codec::Proof {
            // several points outside the prime-order subgroup at once, chosen so that they cancel in a sum
            let q = torsion_g1((c.seed % 3) as usize);
            let enc1 = |p: G1Projective| p.to_affine().to_compressed();
            let hp = |off: usize| G1Projective::from(Option::<G1Affine>::from(G1Affine::from_compressed(honest[off..off + 48].try_into().unwrap())).unwrap());
            for (nm, pts) in [
                ("torsion-pair:Abar=Q,Bbar=-Q", [Some(q), Some(-q), None]),
                ("torsion-pair:Abar=Q,D=-Q", [Some(q), None, Some(-q)]),
                ("torsion-pair:Bbar=Q,D=-Q", [None, Some(q), Some(-q)]),
                ("torsion-triple:-2Q,Q,Q", [Some(-q.double()), Some(q), Some(q)]),
                ("torsion-shifted:Abar+Q,Bbar-Q", [Some(hp(0) + q), Some(hp(48) - q), None]),
            ] {
                let mut b = honest.clone();
                for (i, p) in pts.iter().enumerate() {
                    if let Some(p) = p {
                        b[48 * i..48 * i + 48].copy_from_slice(&enc1(*p));
                    }
                }
                forbidden(&b, nm.split(':').next().unwrap())?;
            }
        }
        rep.nontrivial(ck, &json!({"codec": codec, "suite": c.suite.name(), "fp": hex::encode(&honest[..16.min(honest.len())])}));
    }
    // identity public key in coordinate form
    {
        rep.eval(ck, 1);
        let mut unc = [0u8; 192];
        unc[0] = 0x40;
        let (x, y): ([u8; 96], [u8; 96]) = (unc[..96].try_into().unwrap(), unc[96..].try_into().unwrap());
        if BBSplusPublicKey::from_coordinates(&x, &y).is_ok() {
            return rep.fail(ck, "forbidden-accepted:Pk:identity-coordinates", "from_coordinates accepts the point at infinity".into(), cj(json!(null)));
        }
        // coordinates of a point outside the subgroup / off curve
        let (hx_, mut hy) = pk.to_coordinates();
        hy[95] ^= 1;
        if BBSplusPublicKey::from_coordinates(&hx_, &hy).is_ok() {
            return rep.fail(ck, "forbidden-accepted:Pk:off-curve-coordinates", "from_coordinates accepts an off-curve point".into(), cj(json!(null)));
        }
    }
    rep.class(&format!("U={},M={}", c.u, c.m));
    rep.sample(ck, json!({"suite": c.suite.name(), "U": c.u, "M": c.m, "proof_octets": proof.to_bytes().len(), "commitment_octets": com.to_bytes().len()}));
    Ok(())
}

/// Single-threaded sequences: every variant is decoded right after the honest encoding it derives from (so any
/// "last decoded object" state in the library is primed for it), with no other thread of the harness running.
fn primed_one<CS: BbsCiphersuite>(rep: &Report, ck: &str, c: &Case) -> CheckResult {
    let cj = |extra: Value| json!({"case": c, "detail": extra});
    let kp = keypair::<CS>(&c.key).map_err(|e| Fail { check: ck.into(), site: "keygen".into(), msg: format!("{:?}", e), case: cj(json!(null)) })?;
    let (sk, pk) = (kp.private_key(), kp.public_key());
    let msgs: Vec<Vec<u8>> = (0..c.u + 1).map(|i| format!("m{}-{}", i, c.seed).into_bytes()).collect();
    let cm: Vec<Vec<u8>> = (0..c.m).map(|i| format!("c{}-{}", i, c.seed).into_bytes()).collect();
    let sig = Signature::<BBSplus<CS>>::sign(Some(&msgs), sk, pk, Some(b"h")).unwrap();
    let proof = PoKSignature::<BBSplus<CS>>::proof_gen(pk, &sig.to_bytes(), Some(b"h"), None, Some(&msgs), Some(&[0usize][..])).unwrap();
    let (com, _bf) = Commitment::<BBSplus<CS>>::commit(Some(&cm)).unwrap();
    let mut st = (c.seed as u64) << 4 | 9;
    // (a) public-key coordinates: prime with the octet decoder or the coordinate decoder, then present altered coordinates
    let (x, y) = pk.to_coordinates();
    let p = hex::decode(P_HEX).unwrap();
    let mut variants: Vec<(String, [u8; 96], [u8; 96])> = vec![];
    for bit in 0..768usize {
        if splitmix(&mut st) % 768 < 64 || bit >= 760 || bit < 8 {
            let mut y2 = y;
            y2[bit / 8] ^= 1 << (bit % 8);
            variants.push((format!("y-bit-{}", bit), x, y2));
        }
        if splitmix(&mut st) % 768 < 24 {
            let mut x2 = x;
            x2[bit / 8] ^= 1 << (bit % 8);
            variants.push((format!("x-bit-{}", bit), x2, y));
        }
    }
    for half in 0..2 {
        // y.c1 or y.c0 replaced by random octets of the same leading nibble, by p, by 2^384 - 1
        let r = half * 48..half * 48 + 48;
        let mut y2 = y;
        fill_random(splitmix(&mut st), &mut y2[r.clone()]);
        y2[r.start] = y[r.start];
        variants.push((format!("y-half-{}-random", half), x, y2));
        let mut y3 = y;
        y3[r.clone()].copy_from_slice(&p);
        variants.push((format!("y-half-{}=p", half), x, y3));
        let mut y4 = y;
        y4[r.clone()].copy_from_slice(&[0xffu8; 48]);
        variants.push((format!("y-half-{}=ff", half), x, y4));
    }
    {
        // the negated point is a different valid key: accepted or not, it must not decode to this key
        let neg = (-G2Projective::from(Option::<G2Affine>::from(G2Affine::from_compressed(&pk.to_bytes())).unwrap())).to_affine().to_uncompressed();
        variants.push(("negated".into(), neg[..96].try_into().unwrap(), neg[96..].try_into().unwrap()));
        variants.push(("swapped-x-y".into(), y, x));
    }
    for prime in 0..3 {
        for (how, x2, y2) in &variants {
            match prime {
                0 => drop(BBSplusPublicKey::from_bytes(&pk.to_bytes())),
                1 => drop(BBSplusPublicKey::from_coordinates(&x, &y)),
                _ => {}
            }
            rep.eval(ck, 1);
            if let Ok(k) = BBSplusPublicKey::from_coordinates(x2, y2) {
                let (xr, yr) = k.to_coordinates();
                if &xr != x2 || &yr != y2 {
                    return rep.fail(
                        ck,
                        "non-canonical:Pk-coordinates",
                        format!("from_coordinates accepts ({}) coordinates that re-encode differently, primed by {}", how, ["from_bytes", "from_coordinates", "nothing"][prime]),
                        cj(json!({"how": how, "prime": prime, "x": hex::encode(x2), "y": hex::encode(y2)})),
                    );
                }
                rep.class("accepted-variant:Pk-coordinates");
            }
        }
    }
    rep.nontrivial(ck, &json!({"codec": "Pk-coordinates", "suite": c.suite.name(), "fp": hex::encode(&x[..16])}));
    // (b) octet codecs: honest decode immediately before each single-bit flip
    let items: Vec<(Codec, Vec<u8>)> = vec![
        (Codec::Pk, pk.to_bytes().to_vec()),
        (Codec::Sk, sk.to_bytes().to_vec()),
        (Codec::Sig, sig.to_bytes().to_vec()),
        (Codec::Proof, proof.to_bytes()),
        (Codec::Commitment, com.to_bytes()),
    ];
    for (codec, honest) in &items {
        let nb = honest.len() * 8;
        let all = matches!(codec, Codec::Pk | Codec::Sk) || c.exhaustive_flips;
        for bit in 0..nb {
            if !all && splitmix(&mut st) % (nb as u64) >= 160 {
                continue;
            }
            let mut b = honest.clone();
            b[bit / 8] ^= 1 << (bit % 8);
            let _ = decode_encode::<CS>(*codec, honest);
            rep.eval(ck, 1);
            if let Some(re) = decode_encode::<CS>(*codec, &b) {
                if re != b {
                    return rep.fail(
                        ck,
                        &format!("non-canonical:{:?}:primed-bit-flip", codec),
                        format!("{:?}: right after the honest encoding was decoded, octets with bit {} flipped are accepted and re-encode differently", codec, bit),
                        cj(json!({"codec": codec, "octets": hex::encode(&b), "bit": bit})),
                    );
                }
                rep.class(&format!("accepted-variant:{:?}", codec));
            }
        }
        rep.nontrivial(ck, &json!({"codec": codec, "suite": c.suite.name(), "primed": true, "fp": hex::encode(&honest[..16.min(honest.len())])}));
    }
    Ok(())
}

fn check(rep: &Report, ck: &str, c: &Case) -> CheckResult {
    if ck == "primed-sequences" {
        return with_suite!(c.suite, CS => primed_one::<CS>(rep, ck, c));
    }
    with_suite!(c.suite, CS => check_one::<CS>(rep, ck, c))
}

/// one count of the many-scalars check (see `run`)
fn many_scalars_item(rep: &Report, seed: u64, k: usize) -> CheckResult {
    let ck = "many-scalars";
    let suite = if k % 2 == 0 { SuiteId::Sha256 } else { SuiteId::Shake256 };
    with_suite!(suite, CS => {
        let kp = KeyPair::<BBSplus<CS>>::generate(&[k as u8 | 1; 32], None, None).unwrap();
        let (sk, pk) = (kp.private_key(), kp.public_key());
        let msgs = vec![b"a".to_vec(), b"b".to_vec()];
        let sig = Signature::<BBSplus<CS>>::sign(Some(&msgs), sk, pk, None).unwrap();
        let proof = PoKSignature::<BBSplus<CS>>::proof_gen(pk, &sig.to_bytes(), None, None, Some(&msgs), Some(&[0])).unwrap().to_bytes();
        let (com, _) = Commitment::<BBSplus<CS>>::commit(Some(&[b"c".to_vec()])).unwrap();
        let com = com.to_bytes();
        let mut st = seed ^ (k as u64) << 8;
        let mut filler = Vec::with_capacity(32 * k);
        for _ in 0..k {
            filler.extend_from_slice(&crate::refimpl::scalar_bytes(&crate::props::c04::scalar_from_seed(&mut st)));
        }
        for (codec, honest) in [(Codec::Proof, &proof), (Codec::Commitment, &com), (Codec::ZkPok, &com[48..].to_vec())] {
            let cut = honest.len() - 32;
            let long = [&honest[..cut], &filler[..], &honest[cut..]].concat();
            rep.eval(ck, 2);
            match catch(|| decode_encode::<CS>(codec, &long)) {
                Ok(None) => rep.class("many-scalars:refused"),
                Ok(Some(back)) if back == long => rep.class("many-scalars:accepted-and-reproduced"),
                Ok(Some(back)) => {
                    return rep.fail(ck, &format!("not-canonical:{:?}:many-scalars", codec), format!("{:?} of {} octets ({} scalars spliced in before the challenge) decodes, but the object re-encodes to {} octets", codec, long.len(), k, back.len()), json!({"many_scalars": {"codec": codec, "k": k, "suite": suite.name()}}));
                }
                Err(p) => return rep.fail(ck, &format!("panic:{:?}:many-scalars", codec), format!("{:?} decoder panicked on {} octets: {}", codec, long.len(), p), json!({"many_scalars": {"codec": codec, "k": k, "suite": suite.name()}})),
            }
            // the last spliced scalar made non-canonical
            let mut bad = long.clone();
            let off = cut + 32 * (k - 1);
            bad[off..off + 32].iter_mut().for_each(|x| *x = 0xff);
            if let Ok(Some(_)) = catch(|| decode_encode::<CS>(codec, &bad)) {
                return rep.fail(ck, &format!("forbidden-accepted:{:?}:scalar-out-of-range-far-behind", codec), format!("{:?} of {} octets whose {}-th spliced scalar is 0xff..ff is accepted", codec, bad.len(), k), json!({"many_scalars": {"codec": codec, "k": k, "suite": suite.name(), "bad_last": true}}));
            }
        }
        rep.nontrivial(ck, &json!({"many-scalars": k}));
        Ok(())
    })
}

pub fn run(ctx: &Ctx, rep: &Report) -> Meta {
    let mut ex = vec![];
    for (k, suite) in [SuiteId::Sha256, SuiteId::Shake256].into_iter().enumerate() {
        for j in 0..ctx.tier.pick(2usize, 8usize) {
            ex.push(Case {
                suite,
                key: KeySpec { fixture: j == 0, ikm: BSpec { len: 32, class: 0, seed: (ctx.seed as u32).wrapping_add((k * 100 + j) as u32) }, key_info: OptBytes::None, key_dst: OptBytes::None },
                u: [2, 0, 4, 1, 3, 2, 0, 4][j],
                m: [1, 0, 3, 2, 4, 0, 1, 2][j],
                seed: (ctx.seed as u32).wrapping_mul(31).wrapping_add((k * 10 + j) as u32) | 1,
                exhaustive_flips: true,
            });
        }
    }
    // single-threaded first: nothing else of the harness runs while these sequences are evaluated
    let seq: Vec<Case> = ex.iter().step_by(ctx.tier.pick(2, 1)).map(|c| Case { exhaustive_flips: ctx.tier == Tier::Thorough, ..c.clone() }).collect();
    let one = Ctx { prop: ctx.prop.clone(), tier: ctx.tier, seed: ctx.seed, workers: 1 };
    par_items(&one, rep, "primed-sequences", &seq, |c| check(rep, "primed-sequences", c));
    par_items(ctx, rep, "exhaustive-bit-flips", &ex, |c| check(rep, "exhaustive-bit-flips", c));
    if !rep.aborted() {
        rep.exhaustive("every single-bit flip, every extension by 1..=64 octets and every truncation of each honest encoding of the exhaustive-bit-flips shapes".into());
    }
    run_cases(ctx, rep, "codecs", ctx.tier.pick(160, 2000), 100, strat, |c| check(rep, "codecs", c));
    // encodings with very many scalars: an honest proof / commitment with k canonical scalars spliced in before the
    // challenge, for k around the 8-bit and 16-bit counts (what a decoder that counts in a narrower type, or caps an
    // allocation, gets wrong): decoding is refused or the object re-encodes to exactly the same octets; with one
    // non-canonical scalar (0xff..) among them it is refused
    {
        let ks: Vec<usize> = if ctx.tier == Tier::Thorough { vec![253, 254, 255, 256, 257, 1000, 4095, 4096, 65533, 65534, 65535, 65536, 65537, 70001, 131072, 262145] } else { vec![255, 256, 257, 4096, 65534, 65535, 65536, 65537, 70001] };
        let seed = ctx.seed;
        par_items(ctx, rep, "many-scalars", &ks, |&k| many_scalars_item(rep, seed, k));
    }
    // volume: relation (1) for many thousand API-produced objects (a decoder pre-check that is off by one refuses one
    // honest signature in a few hundred or thousand, depending on an octet of the point or scalar)
    {
        let total = ctx.tier.pick(9600usize, 120000usize);
        let ws: Vec<usize> = (0..16).collect();
        par_items(ctx, rep, "volume", &ws, |&w| {
            let suite = if w % 2 == 0 { SuiteId::Sha256 } else { SuiteId::Shake256 };
            with_suite!(suite, CS => {
                let ck = "volume";
                let mut kp = KeyPair::<BBSplus<CS>>::random().unwrap();
                for k in 0..total / 16 {
                    if rep.aborted() {
                        break;
                    }
                    if k % 16 == 0 {
                        kp = KeyPair::<BBSplus<CS>>::random().unwrap();
                    }
                    let (sk, pk) = (kp.private_key(), kp.public_key());
                    let msgs: Vec<Vec<u8>> = (0..1 + k % 3).map(|i| format!("v{}-{}-{}", w, k, i).into_bytes()).collect();
                    let hdr = format!("h{}", k).into_bytes();
                    let sig = Signature::<BBSplus<CS>>::sign(Some(&msgs), sk, pk, Some(&hdr)).unwrap();
                    let cj = |what: &str, oct: &[u8]| json!({"volume": {"what": what, "octets": hex::encode(oct), "suite": suite.name()}});
                    macro_rules! rtv {
                        ($name:expr, $oct:expr, $cond:expr) => {
                            rep.eval(ck, 1);
                            if !$cond {
                                return rep.fail(ck, &format!("roundtrip:{}", $name), format!("{} produced by the API does not survive its octet encoding: {}", $name, hx(&$oct)), cj($name, &$oct));
                            }
                        };
                    }
                    let sb = sig.to_bytes();
                    rtv!("sig-octets", sb, Signature::<BBSplus<CS>>::from_bytes(&sb).ok().as_ref() == Some(&sig));
                    if k % 16 == 0 {
                        let pb = pk.to_bytes();
                        rtv!("pk-octets", pb, BBSplusPublicKey::from_bytes(&pb).ok().as_ref() == Some(pk));
                        let skb = sk.to_bytes();
                        rtv!("sk-octets", skb, BBSplusSecretKey::from_bytes(&skb).ok().as_ref() == Some(sk));
                        let (x, y) = pk.to_coordinates();
                        rtv!("pk-coordinates", [x.to_vec(), y.to_vec()].concat(), BBSplusPublicKey::from_coordinates(&x, &y).ok().as_ref() == Some(pk));
                    }
                    if k % 4 == 0 {
                        let proof = PoKSignature::<BBSplus<CS>>::proof_gen(pk, &sb, Some(&hdr), None, Some(&msgs), Some(&[0usize][..])).unwrap();
                        let pb = proof.to_bytes();
                        rtv!("proof-octets", pb, PoKSignature::<BBSplus<CS>>::from_bytes(&pb).ok().as_ref() == Some(&proof));
                        let (com, bf) = Commitment::<BBSplus<CS>>::commit(Some(&msgs[..k % 2])).unwrap();
                        let cb = com.to_bytes();
                        rtv!("commitment-octets", cb, Commitment::<BBSplus<CS>>::from_bytes(&cb).ok().as_ref() == Some(&com));
                        let bfb = bf.to_bytes();
                        rtv!("blindfactor-octets", bfb, BlindFactor::from_bytes(&bfb).map(|b| b.to_bytes()).ok() == Some(bfb));
                        let bsig = BlindSignature::<BBSplus<CS>>::blind_sign(sk, pk, Some(&cb), Some(&hdr), Some(&msgs)).unwrap();
                        let bb = bsig.to_bytes();
                        rtv!("blindsig-octets", bb, BlindSignature::<BBSplus<CS>>::from_bytes(&bb).ok().as_ref() == Some(&bsig));
                    }
                }
                rep.nontrivial(ck, &json!({"worker": w}));
                Ok(())
            })
        });
    }
    crate::fuzzdrv::smoke(ctx, rep, "c09_canon", "byte-level-entry", ctx.tier.pick(20000, 200000));
    if ctx.tier == Tier::Thorough && !rep.aborted() {
        crate::fuzzdrv::run_campaign(ctx, rep, "c09_canon", "libfuzzer-decode-encode");
    }
    Meta {
        rule: "objects produced by the API (keys from generate / random, signatures, blind signatures, proofs with U = 0..4, commitments with M = 0..4, ZKPoK, blind factors, message scalars); \
               relation (1) decode(encode(x)) = x for octets, public-key coordinates and serde_json (read back with from_str, from_value, from_reader and from_slice), also in volume (9600 quick / 120000 thorough signatures under fresh random keys, a quarter of them with proof, commitment, blind factor and blind signature); relation (2) on honest encodings, single-bit flips (all bits in exhaustive-bit-flips, 48 sampled otherwise), \
               whole-scalar extensions / truncations, other valid points, r-1, 0: decode(b) = Ok(x) implies encode(x) = b; relation (3) forbidden classes are rejected: trailing bytes 1..=64, every truncation, the uncompressed form of a point spliced in place of the compressed one, several points of cofactor order that cancel in a sum (Abar = Q, Bbar = -Q and the like), \
               scalar in {r, r+1, r+2^k for every k, 2^256-1, 2^256-1-2^k, the honest value + r}, points with x >= p, off-curve, on-curve-but-outside-the-subgroup (found by search and classified with from_compressed_unchecked + is_torsion_free), bad flag combinations, \
               every honest encoding decoded from a slice that starts 1..=8 octets into a buffer; the hex text of an encoding (lower / upper case, 0x-prefixed) offered as octets is refused; many-scalars: an honest proof / commitment / ZKPoK with k canonical scalars spliced in before the challenge for k in {255, 256, 257, 4096, 65534..65537, 70001} (thorough up to 262145): refused or reproduced octet for octet, refused when the last spliced scalar is 0xff..ff; identity as public key (compressed and coordinates), as signature point, as proof point, e = 0; primed-sequences (one thread, nothing else running): the honest key decoded by from_bytes / from_coordinates / not at all, then coordinates with single bits of y or x flipped, halves of y replaced by random octets, p or ff..ff, the negated point, x and y exchanged - accepted coordinates must re-encode to themselves - and every (160 sampled for long encodings) single-bit flip decoded right after its honest encoding; non-trivial = (codec, object) with its derived strings; evaluations = decode/encode judgements"
            .into(),
        assumptions: vec![
            "JSON is held to relation (1) only (JSON text is not canonical by nature)".into(),
            "zero response scalars inside proofs / commitments and the identity as commitment point are not treated as forbidden (the property lists public key, signature point, proof points and e)".into(),
        ],
    }
}

pub fn replay(_ctx: &Ctx, rep: &Report, ck: &str, case: &Value) -> CheckResult {
    if ck == "volume" {
        // the recorded octets came out of the API: they must decode and re-encode to themselves
        let v = &case["volume"];
        let (what, oct) = (v["what"].as_str().unwrap_or(""), hex::decode(v["octets"].as_str().unwrap_or("")).unwrap_or_default());
        let suite = if v["suite"] == "shake256" || v["suite"] == "Shake256" { SuiteId::Shake256 } else { SuiteId::Sha256 };
        let codec = match what {
            "sig-octets" => Codec::Sig,
            "pk-octets" => Codec::Pk,
            "sk-octets" => Codec::Sk,
            "proof-octets" => Codec::Proof,
            "commitment-octets" => Codec::Commitment,
            "blindfactor-octets" => Codec::BlindFactor,
            "blindsig-octets" => Codec::BlindSig,
            _ => return Err(Fail { check: ck.into(), site: "replay-parse".into(), msg: format!("volume case of kind {:?}", what), case: case.clone() }),
        };
        let re = with_suite!(suite, CS => decode_encode::<CS>(codec, &oct));
        return if re.as_deref() == Some(&oct[..]) { Ok(()) } else { Err(Fail { check: ck.into(), site: format!("roundtrip:{}", what), msg: "the recorded API-produced octets are refused or re-encode differently".into(), case: case.clone() }) };
    }
    if ck == "many-scalars" {
        let k = case["many_scalars"]["k"].as_u64().ok_or_else(|| Fail { check: ck.into(), site: "replay-parse".into(), msg: "many_scalars.k missing".into(), case: case.clone() })? as usize;
        return many_scalars_item(rep, _ctx.seed, k);
    }
    if ck.starts_with("libfuzzer") || ck == "byte-level-entry" {
        return crate::fuzzdrv::replay_input(rep, ck, case);
    }
    let c: Case = serde_json::from_value(case["case"].clone()).map_err(|e| Fail {
        check: ck.into(),
        site: "replay-parse".into(),
        msg: e.to_string(),
        case: case.clone(),
    })?;
    check(rep, ck, &c)
}
