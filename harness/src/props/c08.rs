//! C08 — Untrusted input never crashes a BBS verifier, signer or holder.
//! Every entry point is called under catch_unwind in a build with overflow checks on, with a
//! generator budget proportional to the size of the input (hook H1).

use crate::bbs::*;
use crate::engine::*;
use crate::gen::*;
use crate::with_suite;
use proptest::prelude::*;
use serde::{Deserialize, Serialize};
use serde_json::{json, Value};
use zkryptium::bbsplus::commitment::BBSplusCommitment;
use zkryptium::bbsplus::proof::{BBSplusPoKSignature, BBSplusZKPoK};
use zkryptium::bbsplus::signature::BBSplusSignature;
use zkryptium::utils::message::bbsplus_message::BBSplusMessage;

/// honest artefacts of one suite, built once
pub struct Honest {
    pub suite: SuiteId,
    pub sk: Vec<u8>,
    pub pk: Vec<u8>,
    pub header: Vec<u8>,
    pub ph: Vec<u8>,
    pub msgs: Vec<Vec<u8>>,
    pub cm: Vec<Vec<u8>>,
    pub sig: Vec<u8>,
    pub proof: Vec<u8>,     // discloses {0, 2} of 4
    pub proof_all: Vec<u8>, // discloses everything
    pub commitment: Vec<u8>,
    pub bf: Vec<u8>,
    pub bsig: Vec<u8>,
    pub bproof: Vec<u8>, // discloses signer {1}, committed {0}
}

pub fn honest(suite: SuiteId) -> Honest {
    with_suite!(suite, CS => {
        let kp = KeyPair::<BBSplus<CS>>::generate(&[7u8; 40], Some(b"info"), None).unwrap();
        let (sk, pk) = (kp.private_key(), kp.public_key());
        let msgs: Vec<Vec<u8>> = vec![b"alpha".to_vec(), vec![], b"gamma-gamma".to_vec(), vec![0xff; 40]];
        let cm: Vec<Vec<u8>> = vec![b"c0".to_vec(), b"c1".to_vec()];
        let header = b"header".to_vec();
        let ph = b"presentation".to_vec();
        let sig = Signature::<BBSplus<CS>>::sign(Some(&msgs), sk, pk, Some(&header)).unwrap();
        let proof = PoKSignature::<BBSplus<CS>>::proof_gen(pk, &sig.to_bytes(), Some(&header), Some(&ph), Some(&msgs), Some(&[0, 2])).unwrap();
        let proof_all = PoKSignature::<BBSplus<CS>>::proof_gen(pk, &sig.to_bytes(), Some(&header), Some(&ph), Some(&msgs), Some(&[0, 1, 2, 3])).unwrap();
        let (com, bf) = Commitment::<BBSplus<CS>>::commit(Some(&cm)).unwrap();
        let bsig = BlindSignature::<BBSplus<CS>>::blind_sign(sk, pk, Some(&com.to_bytes()), Some(&header), Some(&msgs)).unwrap();
        let bproof = PoKSignature::<BBSplus<CS>>::blind_proof_gen(pk, &bsig.to_bytes(), Some(&header), Some(&ph), Some(&msgs), Some(&cm), Some(&[1]), Some(&[0]), Some(&bf)).unwrap();
        Honest {
            suite,
            sk: sk.to_bytes().to_vec(),
            pk: pk.to_bytes().to_vec(),
            header,
            ph,
            msgs,
            cm,
            sig: sig.to_bytes().to_vec(),
            proof: proof.to_bytes(),
            proof_all: proof_all.to_bytes(),
            commitment: com.to_bytes(),
            bf: bf.to_bytes().to_vec(),
            bsig: bsig.to_bytes().to_vec(),
            bproof: bproof.to_bytes(),
        }
    })
}

fn set_budget(units: usize) {
    zkryptium::verif_hooks::set_generator_budget(Some(4 * units as u64 + 16));
}

fn clear_budget() {
    zkryptium::verif_hooks::set_generator_budget(None);
}

fn normalize(p: &str) -> String {
    // strip numbers so that the site is stable across inputs
    let mut out = String::new();
    let mut last_digit = false;
    for ch in p.chars() {
        if ch.is_ascii_digit() {
            if !last_digit {
                out.push('N');
            }
            last_digit = true;
        } else {
            out.push(ch);
            last_digit = false;
        }
    }
    out
}

/// run one entry point; Ok(true/false) = returned Ok/Err, Err(fail) = it panicked
fn call(rep: &Report, ck: &str, entry: &str, units: usize, input: impl FnOnce() -> Value, f: impl FnOnce() -> bool) -> Result<bool, Fail> {
    set_budget(units);
    let r = catch(f);
    clear_budget();
    rep.eval(ck, 1);
    match r {
        Ok(b) => {
            rep.class(&format!("{}:{}", entry, if b { "Ok" } else { "Err" }));
            Ok(b)
        }
        Err(p) => {
            let kind = if p.contains("generator budget exceeded") { "work-not-bounded-by-input" } else { "panic" };
            rep.fail(ck, &format!("{}:{}:{}", kind, entry, normalize(&p)), format!("{} panicked: {}", entry, p), json!({"entry": entry, "input": input()}))
                .map(|_| false)
        }
    }
}

// ------------------------------------------------------------------------------- byte decoders

fn byte_classes(h: &Honest, len: usize, seed: u64) -> Vec<(&'static str, Vec<u8>)> {
    let mut out: Vec<(&'static str, Vec<u8>)> = vec![];
    out.push(("zeros", vec![0u8; len]));
    out.push(("ones", vec![0xff; len]));
    let mut c0 = vec![0u8; len];
    for (i, b) in c0.iter_mut().enumerate() {
        if i % 48 == 0 {
            *b = 0xc0;
        }
    }
    out.push(("c0-every-48", c0));
    let mut c1 = vec![0u8; len];
    if len > 0 {
        c1[0] = 0xc0;
    }
    out.push(("c0-prefixed", c1));
    let mut rnd = vec![0u8; len];
    fill_random(seed ^ len as u64, &mut rnd);
    out.push(("random", rnd));
    for (nm, src) in [("cut/pad-proof", &h.proof), ("cut/pad-commitment", &h.commitment), ("cut/pad-pk", &h.pk), ("cut/pad-sig", &h.sig), ("cut/pad-bproof", &h.bproof)] {
        let mut v = src.clone();
        v.resize(len, 0);
        out.push((nm, v.clone()));
        if len > src.len() {
            let mut w = src.clone();
            let mut pad = vec![0u8; len - src.len()];
            fill_random(seed.wrapping_mul(31) ^ len as u64, &mut pad);
            w.extend(pad);
            out.push((nm, w));
        }
    }
    out
}

fn decoders_at_len<CS: BbsCiphersuite>(rep: &Report, ck: &str, h: &Honest, len: usize, seed: u64) -> CheckResult {
    let pk = BBSplusPublicKey::from_bytes(&h.pk).unwrap();
    let sk = BBSplusSecretKey::from_bytes(&h.sk).unwrap();
    for (cls, b) in byte_classes(h, len, seed) {
        let inp = || json!({"suite": h.suite.name(), "len": len, "class": cls, "bytes": hex::encode(&b)});
        let units = len / 32 + 1;
        call(rep, ck, "PublicKey::from_bytes", units, inp, || BBSplusPublicKey::from_bytes(&b).is_ok())?;
        call(rep, ck, "SecretKey::from_bytes", units, inp, || BBSplusSecretKey::from_bytes(&b).is_ok())?;
        call(rep, ck, "PoKSignature::from_bytes", units, inp, || PoKSignature::<BBSplus<CS>>::from_bytes(&b).is_ok())?;
        call(rep, ck, "BBSplusPoKSignature::from_bytes", units, inp, || BBSplusPoKSignature::from_bytes(&b).is_ok())?;
        call(rep, ck, "ZKPoK::from_bytes", units, inp, || BBSplusZKPoK::from_bytes(&b).is_ok())?;
        call(rep, ck, "Commitment::from_bytes", units, inp, || Commitment::<BBSplus<CS>>::from_bytes(&b).is_ok())?;
        call(rep, ck, "BBSplusCommitment::from_bytes", units, inp, || BBSplusCommitment::from_bytes(&b).is_ok())?;
        if let Ok(a) = <[u8; 80]>::try_from(b.as_slice()) {
            call(rep, ck, "Signature::from_bytes", units, inp, || Signature::<BBSplus<CS>>::from_bytes(&a).is_ok())?;
            call(rep, ck, "BBSplusSignature::from_bytes", units, inp, || BBSplusSignature::from_bytes(&a).is_ok())?;
            call(rep, ck, "BlindSignature::from_bytes", units, inp, || BlindSignature::<BBSplus<CS>>::from_bytes(&a).is_ok())?;
        }
        if let Ok(a) = <[u8; 32]>::try_from(b.as_slice()) {
            call(rep, ck, "BlindFactor::from_bytes", units, inp, || BlindFactor::from_bytes(&a).is_ok())?;
            call(rep, ck, "BBSplusMessage::from_bytes_be", units, inp, || BBSplusMessage::from_bytes_be(&a).is_ok())?;
        }
        if b.len() == 192 {
            let x: [u8; 96] = b[..96].try_into().unwrap();
            let y: [u8; 96] = b[96..].try_into().unwrap();
            call(rep, ck, "PublicKey::from_coordinates", units, inp, || BBSplusPublicKey::from_coordinates(&x, &y).is_ok())?;
        }
        // commitment validation with the generator count the signer would derive and with fixed counts
        for gcount in [1usize, 3, (len / 32).max(1)] {
            call(rep, ck, "deserialize_and_validate_commit", units + gcount, inp, || {
                let bg = Generators::create::<CS>(gcount, Some(&[b"BLIND_", CS::API_ID_BLIND].concat()));
                Commitment::<BBSplus<CS>>::deserialize_and_validate_commit(Some(&b), &bg, Some(CS::API_ID_BLIND)).is_ok()
            })?;
        }
        call(rep, ck, "blind_sign(commitment octets)", units + h.msgs.len() + 2, inp, || {
            BlindSignature::<BBSplus<CS>>::blind_sign(&sk, &pk, Some(&b), Some(&h.header), Some(&h.msgs)).is_ok()
        })?;
        call(rep, ck, "proof_gen(signature octets)", units + h.msgs.len() + 2, inp, || {
            PoKSignature::<BBSplus<CS>>::proof_gen(&pk, &b, Some(&h.header), Some(&h.ph), Some(&h.msgs), Some(&[0])).is_ok()
        })?;
        call(rep, ck, "blind_proof_gen(signature octets)", units + h.msgs.len() + h.cm.len() + 4, inp, || {
            PoKSignature::<BBSplus<CS>>::blind_proof_gen(&pk, &b, Some(&h.header), Some(&h.ph), Some(&h.msgs), Some(&h.cm), Some(&[0]), Some(&[1]), None).is_ok()
        })?;
        // whatever decodes is then handed to the verifiers
        if let Ok(p) = PoKSignature::<BBSplus<CS>>::from_bytes(&b) {
            let u = (len - 240) / 32;
            call(rep, ck, "proof_verify(decoded proof)", units + u + 4, inp, || p.proof_verify(&pk, Some(&h.msgs[..1]), Some(&[0]), Some(&h.header), Some(&h.ph)).is_ok())?;
            call(rep, ck, "blind_proof_verify(decoded proof)", units + u + 4, inp, || {
                p.blind_proof_verify(&pk, Some(&h.header), Some(&h.ph), Some(1), Some(&h.msgs[..1]), None, Some(&[0]), None).is_ok()
            })?;
        }
        rep.nontrivial(ck, &json!({"len": len, "cls": cls, "suite": h.suite.name(), "fp": hex::encode(&b[..b.len().min(16)])}));
    }
    Ok(())
}

// -------------------------------------------------------------------- structured calls (indexes)

#[derive(Clone, Debug, Serialize, Deserialize)]
pub struct Call {
    pub suite: SuiteId,
    pub entry: u8,
    pub idx_a: Vec<u64>,
    pub idx_b: Vec<u64>,
    pub n_msgs_a: u8,
    pub n_msgs_b: u8,
    pub count: u64,
    pub count_none: bool,
    pub which_proof: u8,
    pub opt_none: u8,
}

fn edge_usize() -> impl Strategy<Value = u64> {
    prop_oneof![
        6 => 0u64..8,
        2 => prop::sample::select(vec![0u64, 1, 2, 3, 4, 5, 6, 7, 8, 9, 16, 64, 255, 256, 65535, 65536]),
        2 => prop::sample::select(vec![1u64 << 32, (1u64 << 32) - 1, 1u64 << 63, (1u64 << 63) - 1, u64::MAX - 1, u64::MAX, u64::MAX - 7]),
    ]
}

fn call_strat() -> impl Strategy<Value = Call> {
    (
        suite(),
        0u8..9,
        prop::collection::vec(edge_usize(), 0..7),
        prop::collection::vec(edge_usize(), 0..5),
        prop_oneof![8 => 0u8..7, 1 => 30u8..40, 1 => 60u8..80],
        prop_oneof![8 => 0u8..5, 1 => 30u8..40],
        edge_usize(),
        any::<bool>(),
        0u8..3,
        any::<u8>(),
    )
        .prop_map(|(suite, entry, idx_a, idx_b, n_msgs_a, n_msgs_b, count, count_none, which_proof, opt_none)| Call {
            suite,
            entry,
            idx_a,
            idx_b,
            n_msgs_a,
            n_msgs_b,
            count,
            count_none,
            which_proof,
            opt_none,
        })
}

fn structured<CS: BbsCiphersuite>(rep: &Report, ck: &str, h: &Honest, c: &Call) -> CheckResult {
    let pk = BBSplusPublicKey::from_bytes(&h.pk).unwrap();
    let sk = BBSplusSecretKey::from_bytes(&h.sk).unwrap();
    let ia: Vec<usize> = c.idx_a.iter().map(|&x| x as usize).collect();
    let ib: Vec<usize> = c.idx_b.iter().map(|&x| x as usize).collect();
    let pool: Vec<Vec<u8>> = h.msgs.iter().cloned().chain(h.cm.iter().cloned()).chain(std::iter::once(b"other".to_vec())).collect();
    let ma: Vec<Vec<u8>> = (0..c.n_msgs_a as usize).map(|i| pool[i % pool.len()].clone()).collect();
    let mb: Vec<Vec<u8>> = (0..c.n_msgs_b as usize).map(|i| pool[(i + 4) % pool.len()].clone()).collect();
    let count = c.count as usize;
    let inp = || json!({"call": c});
    let units = ia.len() + ib.len() + ma.len() + mb.len() + 16;
    let opt = |bit: u8| c.opt_none >> bit & 1 == 1;
    let ia_arg: Option<&[usize]> = if opt(0) && ia.is_empty() { None } else { Some(&ia) };
    let ib_arg: Option<&[usize]> = if opt(1) && ib.is_empty() { None } else { Some(&ib) };
    let ma_arg: Option<&[Vec<u8>]> = if opt(2) && ma.is_empty() { None } else { Some(&ma) };
    let mb_arg: Option<&[Vec<u8>]> = if opt(3) && mb.is_empty() { None } else { Some(&mb) };
    let hdr: Option<&[u8]> = if opt(4) { None } else { Some(&h.header) };
    let ph: Option<&[u8]> = if opt(5) { None } else { Some(&h.ph) };
    let proof_bytes = [&h.proof, &h.proof_all, &h.bproof][c.which_proof as usize % 3];
    let bf = BlindFactor::from_bytes(&h.bf.clone().try_into().unwrap()).unwrap();
    match c.entry {
        0 => {
            call(rep, ck, "proof_gen(indexes)", units, inp, || PoKSignature::<BBSplus<CS>>::proof_gen(&pk, &h.sig, hdr, ph, ma_arg, ia_arg).is_ok())?;
        }
        1 => {
            let p = PoKSignature::<BBSplus<CS>>::from_bytes(proof_bytes).unwrap();
            call(rep, ck, "proof_verify(indexes)", units, inp, || p.proof_verify(&pk, ma_arg, ia_arg, hdr, ph).is_ok())?;
        }
        2 => {
            call(rep, ck, "blind_proof_gen(indexes)", units, inp, || {
                PoKSignature::<BBSplus<CS>>::blind_proof_gen(&pk, &h.bsig, hdr, ph, ma_arg, mb_arg, ia_arg, ib_arg, if opt(6) { None } else { Some(&bf) }).is_ok()
            })?;
        }
        3 => {
            let p = PoKSignature::<BBSplus<CS>>::from_bytes(proof_bytes).unwrap();
            let l_arg = if c.count_none { None } else { Some(count) };
            call(rep, ck, "blind_proof_verify(indexes, L)", units, inp, || p.blind_proof_verify(&pk, hdr, ph, l_arg, ma_arg, mb_arg, ia_arg, ib_arg).is_ok())?;
        }
        4 => {
            let s = Signature::<BBSplus<CS>>::from_bytes(&h.sig.clone().try_into().unwrap()).unwrap();
            // n is the signer's own record of the message count: small values and usize::MAX
            let n = if c.count > 64 { usize::MAX } else { count };
            let ui = ia.first().copied().unwrap_or(0);
            call(rep, ck, "update_signature(index, n)", units + if n == usize::MAX { 0 } else { n }, || json!({"call": c, "n": n, "update_index": ui}), || {
                s.update_signature(&sk, &h.msgs[0], b"new", ui, n).is_ok()
            })?;
        }
        5 => {
            let s = Signature::<BBSplus<CS>>::from_bytes(&h.sig.clone().try_into().unwrap()).unwrap();
            call(rep, ck, "verify(messages)", units, inp, || s.verify(&pk, ma_arg, hdr).is_ok())?;
        }
        6 => {
            let s = BlindSignature::<BBSplus<CS>>::from_bytes(&h.bsig.clone().try_into().unwrap()).unwrap();
            call(rep, ck, "verify_blind_sign(messages)", units, inp, || s.verify_blind_sign(&pk, hdr, ma_arg, mb_arg, if opt(6) { None } else { Some(&bf) }).is_ok())?;
        }
        7 => {
            call(rep, ck, "sign(messages)", units, inp, || Signature::<BBSplus<CS>>::sign(ma_arg, &sk, &pk, hdr).is_ok())?;
            call(rep, ck, "commit(messages)", units, inp, || Commitment::<BBSplus<CS>>::commit(mb_arg).is_ok())?;
        }
        _ => {
            // honest proof object, mismatched message / index list lengths through both verifiers
            let p = PoKSignature::<BBSplus<CS>>::from_bytes(proof_bytes).unwrap();
            call(rep, ck, "proof_verify(mismatched lists)", units, inp, || p.proof_verify(&pk, mb_arg, ia_arg, hdr, ph).is_ok())?;
            call(rep, ck, "blind_proof_verify(mismatched lists)", units, inp, || p.blind_proof_verify(&pk, hdr, ph, Some(count % 8), mb_arg, ma_arg, ib_arg, ia_arg).is_ok())?;
        }
    }
    // the same decoded proof objects used for a series of calls with index lists of different lengths (what an
    // object remembers from one call must not break the next): generated lists, the honest ones, empty ones
    if c.opt_none % 4 == 0 {
        let honest_m: Vec<Vec<u8>> = vec![h.msgs[0].clone(), h.msgs[2].clone()];
        let honest_i: Vec<usize> = vec![0, 2];
        for pbytes in [&h.proof, &h.proof_all] {
            let p = PoKSignature::<BBSplus<CS>>::from_bytes(pbytes).unwrap();
            call(rep, ck, "proof_verify(same object, 1st call)", units, inp, || p.proof_verify(&pk, ma_arg, ia_arg, hdr, ph).is_ok())?;
            call(rep, ck, "proof_verify(same object, honest lists)", units, inp, || p.proof_verify(&pk, Some(&honest_m), Some(&honest_i), Some(&h.header), Some(&h.ph)).is_ok())?;
            call(rep, ck, "proof_verify(same object, empty lists)", units, inp, || p.proof_verify(&pk, None, None, hdr, ph).is_ok())?;
            call(rep, ck, "proof_verify(same object, generated lists again)", units, inp, || p.proof_verify(&pk, mb_arg, ib_arg, hdr, ph).is_ok())?;
        }
        let bp = PoKSignature::<BBSplus<CS>>::from_bytes(&h.bproof).unwrap();
        call(rep, ck, "blind_proof_verify(same object, 1st call)", units, inp, || bp.blind_proof_verify(&pk, hdr, ph, Some(count % 8), ma_arg, mb_arg, ia_arg, ib_arg).is_ok())?;
        call(rep, ck, "blind_proof_verify(same object, empty lists)", units, inp, || bp.blind_proof_verify(&pk, hdr, ph, Some(h.msgs.len()), None, None, None, None).is_ok())?;
        call(rep, ck, "blind_proof_verify(same object, lists exchanged)", units, inp, || bp.blind_proof_verify(&pk, hdr, ph, Some(count % 8), mb_arg, ma_arg, ib_arg, ia_arg).is_ok())?;
    }
    rep.nontrivial(ck, c);
    if c.idx_a.iter().chain(c.idx_b.iter()).any(|&x| x > 1 << 31) {
        rep.class("has-huge-index");
    }
    if c.count > 1 << 31 {
        rep.class("has-huge-count");
    }
    rep.sample(ck, json!({"call": c}));
    Ok(())
}

// ---------------------------------------------------------------------------------------- JSON

#[derive(Clone, Debug, Serialize, Deserialize)]
pub struct JsonCase {
    pub suite: SuiteId,
    pub ty: u8,
    pub edits: Vec<(u16, u8, u8)>,
}

fn json_strat() -> impl Strategy<Value = JsonCase> {
    (suite(), 0u8..8, prop::collection::vec((any::<u16>(), 0u8..6, any::<u8>()), 0..4)).prop_map(|(suite, ty, edits)| JsonCase { suite, ty, edits })
}

fn mutate_json(s: &str, edits: &[(u16, u8, u8)]) -> String {
    let mut b: Vec<u8> = s.as_bytes().to_vec();
    for &(pos, kind, val) in edits {
        if b.is_empty() {
            break;
        }
        let p = pick(pos, b.len());
        match kind {
            0 => b[p] = val,
            1 => {
                b.remove(p);
            }
            2 => b.insert(p, val),
            3 => b.truncate(p),
            4 => {
                // replace a hex digit by another
                b[p] = b"0123456789abcdefABCDEFg"[val as usize % 23];
            }
            _ => {
                let ins: &[u8] = [&b"[]"[..], b"{}", b"null", b"\"\"", b"ffffffffffffffffffffffffffffffffffffffffffffffffffffffffffffffff", b"-1", b"1e999"][val as usize % 7];
                b.splice(p..p, ins.iter().cloned());
            }
        }
    }
    String::from_utf8_lossy(&b).to_string()
}

fn json_case<CS: BbsCiphersuite>(rep: &Report, ck: &str, h: &Honest, c: &JsonCase) -> CheckResult {
    let pk = BBSplusPublicKey::from_bytes(&h.pk).unwrap();
    let sk = BBSplusSecretKey::from_bytes(&h.sk).unwrap();
    let sig = Signature::<BBSplus<CS>>::from_bytes(&h.sig.clone().try_into().unwrap()).unwrap();
    let proof = PoKSignature::<BBSplus<CS>>::from_bytes(&h.proof).unwrap();
    let com = Commitment::<BBSplus<CS>>::from_bytes(&h.commitment).unwrap();
    let honest_json = match c.ty {
        0 => serde_json::to_string(&pk).unwrap(),
        1 => serde_json::to_string(&sk).unwrap(),
        2 => serde_json::to_string(&sig).unwrap(),
        3 => serde_json::to_string(&proof).unwrap(),
        4 => serde_json::to_string(&com).unwrap(),
        5 => serde_json::to_string(&BBSplusZKPoK::from_bytes(&h.commitment[48..]).unwrap()).unwrap(),
        6 => serde_json::to_string(&KeyPair::<BBSplus<CS>>::generate(&[9u8; 32], None, None).unwrap()).unwrap(),
        _ => serde_json::to_string(&BBSplusMessage::map_message_to_scalar_as_hash::<CS>(b"m", CS::API_ID).unwrap()).unwrap(),
    };
    let mut s = mutate_json(&honest_json, &c.edits);
    // the generic wrappers are enums: the tag of another scheme, or of the type-level placeholder variant, in front
    // of the payload (or of nothing) is a document an attacker can send just as well
    if matches!(c.ty, 2 | 3 | 4) && c.edits.len() % 2 == 1 {
        let variant = c.edits[0].2 % 4;
        s = match variant {
            0 => "{\"_Unreachable\":null}".to_string(),
            1 => s.replacen("\"BBSplus\"", "\"_Unreachable\"", 1),
            2 => s.replacen("\"BBSplus\"", "\"CL03\"", 1),
            _ => "{\"CL03\":{\"e\":{\"radix\":16,\"value\":\"3\"},\"s\":{\"radix\":16,\"value\":\"5\"},\"v\":{\"radix\":16,\"value\":\"7\"}}}".to_string(),
        };
    }
    let inp = || json!({"case": c, "json": truncate(&s, 2000)});
    let units = s.len() / 32 + 8;
    match c.ty {
        0 => {
            call(rep, ck, "json:PublicKey", units, inp, || serde_json::from_str::<BBSplusPublicKey>(&s).is_ok())?;
        }
        1 => {
            call(rep, ck, "json:SecretKey", units, inp, || serde_json::from_str::<BBSplusSecretKey>(&s).is_ok())?;
        }
        2 => {
            call(rep, ck, "json:Signature(+verify)", units, inp, || match serde_json::from_str::<Signature<BBSplus<CS>>>(&s) {
                Ok(x) => {
                    let _ = x.verify(&pk, Some(&h.msgs), Some(&h.header));
                    let _ = x.update_signature(&sk, &h.msgs[0], b"new", 0, h.msgs.len());
                    true
                }
                _ => false,
            })?;
            call(rep, ck, "json:BlindSignature(+verify_blind_sign)", units, inp, || match serde_json::from_str::<BlindSignature<BBSplus<CS>>>(&s) {
                Ok(x) => {
                    let _ = x.verify_blind_sign(&pk, Some(&h.header), Some(&h.msgs), None, None);
                    true
                }
                _ => false,
            })?;
        }
        3 => {
            call(rep, ck, "json:PoKSignature(+verify)", units, inp, || match serde_json::from_str::<PoKSignature<BBSplus<CS>>>(&s) {
                Ok(p) => {
                    let _ = p.proof_verify(&pk, Some(&[h.msgs[0].clone(), h.msgs[2].clone()]), Some(&[0, 2]), Some(&h.header), Some(&h.ph));
                    let _ = p.blind_proof_verify(&pk, Some(&h.header), Some(&h.ph), Some(h.msgs.len()), Some(&[h.msgs[0].clone()]), None, Some(&[0]), None);
                    if let PoKSignature::BBSplus(_) = p {
                        let _ = p.to_bytes();
                    }
                    true
                }
                _ => false,
            })?;
        }
        4 => {
            call(rep, ck, "json:Commitment(+blind_sign)", units, inp, || match serde_json::from_str::<Commitment<BBSplus<CS>>>(&s) {
                Ok(Commitment::BBSplus(x)) => {
                    let b = Commitment::<BBSplus<CS>>::BBSplus(x).to_bytes();
                    let _ = BlindSignature::<BBSplus<CS>>::blind_sign(&sk, &pk, Some(&b), None, None);
                    true
                }
                _ => false,
            })?;
        }
        5 => {
            call(rep, ck, "json:ZKPoK", units, inp, || serde_json::from_str::<BBSplusZKPoK>(&s).map(|z| z.to_bytes().len()).is_ok())?;
        }
        6 => {
            call(rep, ck, "json:KeyPair", units, inp, || serde_json::from_str::<KeyPair<BBSplus<CS>>>(&s).is_ok())?;
        }
        _ => {
            call(rep, ck, "json:Message", units, inp, || serde_json::from_str::<BBSplusMessage>(&s).is_ok())?;
        }
    }
    if !c.edits.is_empty() {
        rep.nontrivial(ck, c);
    }
    rep.sample(ck, json!({"type": c.ty, "json": truncate(&s, 160)}));
    Ok(())
}

/// first thing in the run: all workers call verify / sign / proof_verify with message counts from different
/// size classes at the same time (process-wide caches are cold and extended concurrently)
fn cold_start_contention(ctx: &Ctx, rep: &Report) {
    let ck = "cold-start-contention";
    let sizes = [70usize, 40, 3, 100, 33, 65, 10, 130, 20, 96, 31, 64, 50, 17, 80, 128];
    let r = contend(ck, ctx.workers.max(4), ctx.tier.pick(3, 10), |t, round| {
        let l = sizes[(t + round * 7) % sizes.len()];
        let suite = if (t / 2 + round) % 2 == 0 { SuiteId::Sha256 } else { SuiteId::Shake256 };
        with_suite!(suite, CS => {
            let kp = KeyPair::<BBSplus<CS>>::generate(&[t as u8 + 9; 32], None, None).unwrap();
            let msgs: Vec<Vec<u8>> = (0..l).map(|j| vec![j as u8; 3]).collect();
            let inp = || json!({"thread": t, "round": round, "L": l, "suite": suite.name()});
            let mut sigb = vec![];
            call(rep, ck, "sign(under contention)", l + 8, inp, || match Signature::<BBSplus<CS>>::sign(Some(&msgs), kp.private_key(), kp.public_key(), None) { Ok(s) => { sigb = s.to_bytes().to_vec(); true } Err(_) => false })?;
            if let Ok(a) = <[u8; 80]>::try_from(sigb.as_slice()) {
                let s = Signature::<BBSplus<CS>>::from_bytes(&a).unwrap();
                call(rep, ck, "verify(under contention)", l + 8, inp, || s.verify(kp.public_key(), Some(&msgs), None).is_ok())?;
                let idx: Vec<usize> = (0..l).step_by(3).collect();
                let mut pb = vec![];
                call(rep, ck, "proof_gen(under contention)", l + 8, inp, || match PoKSignature::<BBSplus<CS>>::proof_gen(kp.public_key(), &a, None, None, Some(&msgs), Some(&idx)) { Ok(p) => { pb = p.to_bytes(); true } Err(_) => false })?;
                if let Ok(p) = PoKSignature::<BBSplus<CS>>::from_bytes(&pb) {
                    let dm: Vec<Vec<u8>> = idx.iter().map(|&i| msgs[i].clone()).collect();
                    call(rep, ck, "proof_verify(under contention)", l + 8, inp, || p.proof_verify(kp.public_key(), Some(&dm), Some(&idx), None, None).is_ok())?;
                }
            }
            let cm: Vec<Vec<u8>> = msgs.iter().take(l / 2).cloned().collect();
            call(rep, ck, "commit(under contention)", l + 8, inp, || Commitment::<BBSplus<CS>>::commit(Some(&cm)).is_ok())?;
            rep.nontrivial(ck, &json!({"t": t, "round": round}));
            Ok(())
        })
    });
    if let Err(f) = r {
        rep.add_violation(f);
    }
}

/// one (suite, count) point of the holder-sizes check (see `run`)
fn holder_size_item(rep: &Report, s: usize, n: usize) -> CheckResult {
    let ck = "holder-sizes";
    let suite = [SuiteId::Sha256, SuiteId::Shake256][s];
    with_suite!(suite, CS => {
        let inp = || json!({"suite": suite.name(), "count": n});
        let kp = KeyPair::<BBSplus<CS>>::generate(&[7u8; 32], None, None).unwrap();
        let (sk, pk) = (kp.private_key(), kp.public_key());
        let msgs: Vec<Vec<u8>> = (0..n).map(|i| format!("m{}", i).into_bytes()).collect();
        let mut sigb = [0u8; 80];
        let ok = call(rep, ck, "sign(n messages)", n + 8, inp, || match Signature::<BBSplus<CS>>::sign(Some(&msgs), sk, pk, None) { Ok(x) => { sigb = x.to_bytes(); true } Err(_) => false })?;
        if ok {
            // nothing disclosed (U = n), one disclosed, all disclosed
            for (tag, idx) in [("none", vec![]), ("first", vec![0usize]), ("all", (0..n).collect::<Vec<_>>())] {
                let mut pb = vec![];
                let okp = call(rep, ck, &format!("proof_gen(n messages, disclosed: {})", tag), n + 8, inp, || match PoKSignature::<BBSplus<CS>>::proof_gen(pk, &sigb, None, None, Some(&msgs), Some(&idx)) { Ok(p) => { pb = p.to_bytes(); true } Err(_) => false })?;
                if okp && tag != "all" {
                    let dm: Vec<Vec<u8>> = idx.iter().map(|&i| msgs[i].clone()).collect();
                    call(rep, ck, "proof_verify(n messages)", n + 8, inp, || PoKSignature::<BBSplus<CS>>::from_bytes(&pb).map(|p| p.proof_verify(pk, Some(&dm), Some(&idx), None, None).is_ok()).unwrap_or(false))?;
                }
            }
        }
        // n committed messages, two signer messages
        let mut cb = vec![];
        let mut bf = None;
        let okc = call(rep, ck, "commit(n messages)", n + 8, inp, || match Commitment::<BBSplus<CS>>::commit(Some(&msgs)) { Ok((c, b)) => { cb = c.to_bytes(); bf = Some(b); true } Err(_) => false })?;
        if okc {
            let two = vec![b"s0".to_vec(), b"s1".to_vec()];
            let mut bs = [0u8; 80];
            let okb = call(rep, ck, "blind_sign(commitment to n messages)", n + 12, inp, || match BlindSignature::<BBSplus<CS>>::blind_sign(sk, pk, Some(&cb), None, Some(&two)) { Ok(x) => { bs = x.to_bytes(); true } Err(_) => false })?;
            if okb {
                call(rep, ck, "blind_proof_gen(n committed messages)", n + 12, inp, || PoKSignature::<BBSplus<CS>>::blind_proof_gen(pk, &bs, None, None, Some(&two), Some(&msgs), Some(&[0]), Some(&[]), bf.as_ref()).is_ok())?;
            }
        }
        rep.nontrivial(ck, &json!({"holder-sizes": [s, n]}));
        Ok(())
    })
}

pub fn run(ctx: &Ctx, rep: &Report) -> Meta {
    cold_start_contention(ctx, rep);
    let hs = [honest(SuiteId::Sha256), honest(SuiteId::Shake256)];
    // (1) every length 0..=1024 (thorough: ..=4096 in steps), all byte classes, all decoders
    let maxlen = ctx.tier.pick(1024usize, 2048usize);
    let lens: Vec<(usize, usize)> = (0..=maxlen).flat_map(|l| [(0usize, l), (1usize, l)]).collect();
    let seed = ctx.seed;
    par_items(ctx, rep, "decoders-every-length", &lens, |&(s, len)| {
        with_suite!(hs[s].suite, CS => decoders_at_len::<CS>(rep, "decoders-every-length", &hs[s], len, seed))
    });
    if !rep.aborted() {
        rep.exhaustive(format!("every input length 0..={} x byte classes x 2 suites for each octet decoder", maxlen));
    }
    // (1b) every interface-identifier length 0..=300 into every public function that takes one (the tags built from
    // it are limited to 255 octets; an identifier that makes one too long must come back as an error)
    {
        let lens: Vec<(usize, usize)> = (0..=300usize).flat_map(|l| [(0usize, l), (1usize, l)]).collect();
        par_items(ctx, rep, "api-id-every-length", &lens, |&(s, len)| {
            let ck = "api-id-every-length";
            let h = &hs[s];
            with_suite!(h.suite, CS => {
                for (cls, id) in [("ascii", BSpec { len, class: 3, seed: len as u32 }.bytes()), ("zeros", vec![0u8; len]), ("ff", vec![0xffu8; len])] {
                    let inp = || json!({"suite": h.suite.name(), "api_id_len": len, "class": cls});
                    let units = len / 16 + 8;
                    let id2 = id.clone();
                    let gens = match call(rep, ck, "Generators::create(api_id)", units, inp, || {
                        let _ = Generators::create::<CS>(3, Some(&id2));
                        true
                    }) {
                        Ok(_) => catch(|| Generators::create::<CS>(3, Some(&id))).ok(),
                        Err(f) => return Err(f),
                    };
                    call(rep, ck, "messages_to_scalar(api_id)", units, inp, || BBSplusMessage::messages_to_scalar::<CS>(&h.msgs, &id).is_ok())?;
                    call(rep, ck, "map_message_to_scalar_as_hash(api_id)", units, inp, || BBSplusMessage::map_message_to_scalar_as_hash::<CS>(&h.msgs[0], &id).is_ok())?;
                    call(rep, ck, "prepare_parameters(api_id)", units, inp, || zkryptium::bbsplus::blind::prepare_parameters::<CS>(Some(&h.msgs), Some(&h.cm), 5, 3, None, Some(&id)).is_ok())?;
                    if let Some(g) = &gens {
                        call(rep, ck, "deserialize_and_validate_commit(api_id)", units, inp, || Commitment::<BBSplus<CS>>::deserialize_and_validate_commit(Some(&h.commitment), g, Some(&id)).is_ok())?;
                        call(rep, ck, "calculate_blind_challenge(api_id)", units, inp, || {
                            zkryptium::utils::util::bbsplus_utils::calculate_blind_challenge::<CS>(g.values[0], g.values[1], &g.values, Some(&id)).is_ok()
                        })?;
                    }
                    call(rep, ck, "hash_to_scalar(dst)", units, inp, || zkryptium::utils::util::bbsplus_utils::hash_to_scalar::<CS>(b"msg", &id).is_ok())?;
                }
                Ok(())
            })
        });
        if !rep.aborted() {
            rep.exhaustive("every interface-identifier length 0..=300 x {ascii, zeros, 0xff} x 2 suites into every public function that takes an api_id / dst".into());
        }
    }
    // (1c) holder / signer side with large honest message counts: sign, proof_gen with U undisclosed messages,
    // commit with M committed messages, blind_sign + blind_proof_gen, around the counts at which one call of the
    // suite's expand_message runs out (8160 octets = 170 scalars of 48 octets for SHA-256, 65535 = 1365 for SHAKE-256)
    // and around 255 / 256: each returns Ok or Err
    {
        let mut sizes: Vec<(usize, usize)> = vec![];
        for n in [150usize, 165, 166, 168, 169, 170, 171, 172, 254, 255, 256, 257, 340, 341] {
            sizes.push((0, n));
        }
        for n in ctx.tier.pick(vec![169usize, 171, 1361, 1364, 1366], vec![169usize, 171, 255, 256, 680, 683, 1360, 1361, 1362, 1363, 1364, 1365, 1366, 1367, 2731]) {
            sizes.push((1, n));
        }
        par_items(ctx, rep, "holder-sizes", &sizes, |&(s, n)| holder_size_item(rep, s, n));
    }
    // (2) arbitrary index lists and counts
    run_cases(ctx, rep, "index-lists-and-counts", ctx.tier.pick(6000, 60000), 400, call_strat, |c| {
        let h = &hs[if c.suite == SuiteId::Sha256 { 0 } else { 1 }];
        with_suite!(c.suite, CS => structured::<CS>(rep, "index-lists-and-counts", h, c))
    });
    // (3) JSON decoding of the same types
    run_cases(ctx, rep, "json", ctx.tier.pick(6000, 60000), 400, json_strat, |c| {
        let h = &hs[if c.suite == SuiteId::Sha256 { 0 } else { 1 }];
        with_suite!(c.suite, CS => json_case::<CS>(rep, "json", h, c))
    });
    // the byte-level entry function of the libFuzzer target, in-process: seed corpus + random bytes
    crate::fuzzdrv::smoke(ctx, rep, "c08_robust", "byte-level-entry", ctx.tier.pick(6000, 60000));
    if ctx.tier == Tier::Thorough && !rep.aborted() {
        crate::fuzzdrv::run_campaign(ctx, rep, "c08_robust", "libfuzzer-structured");
    }
    Meta {
        rule: "(1) every length 0..=1024 x byte classes {zeros, 0xff, 0xc0-prefixed, 0xc0 every 48, random, honest proof/commitment/pk/signature/blind proof cut or padded (zero and random padding)} into every octet decoder, \
               deserialize_and_validate_commit, blind_sign, proof_gen, blind_proof_gen; decoded objects handed on to the verifiers; (1b) every interface-identifier length 0..=300 into Generators::create, messages_to_scalar, map_message_to_scalar_as_hash, prepare_parameters, deserialize_and_validate_commit, calculate_blind_challenge, hash_to_scalar; (1c) holder-sizes: sign, proof_gen (nothing / one / all disclosed), proof_verify, commit, blind_sign, blind_proof_gen with 150..341 (SHA-256) and 169..1366 (SHAKE-256; thorough up to 2731) honest messages, around the counts at which one expand_message call runs out (170 / 1365 scalars) and around 255 / 256; (2) honest artefacts with generated index lists / counts over the whole usize range \
               (small, 2^32, 2^63, usize::MAX-7..usize::MAX), sorted or not, with duplicates, mismatched lengths, None spellings, into proof_gen, proof_verify, blind_proof_gen, blind_proof_verify (L), update_signature (index, n), verify, verify_blind_sign, sign, commit; \
               one decoded proof object used for a series of verifier calls with lists of different lengths; (3) mutated honest JSON of every serde type, decoded objects handed on; thorough adds a libFuzzer campaign over a structured target. \
               a cold-start contention phase (all workers calling sign / verify / proof_gen / proof_verify / commit with 3..130 messages at once) and the byte-level entry function of the libFuzzer target run in-process on its seed corpus and on pseudo-random bytes; Oracle: the call returns (Ok or Err) under catch_unwind in a build with overflow checks, within a generator budget of 4*(input units)+16 (hook H1); \
               non-trivial = input that is not an honest encoding with in-range indexes; evaluations = entry-point calls"
            .into(),
        assumptions: vec![
            "update_signature's n is the signer's own message count: only 0..=64 and usize::MAX are generated (work proportional to n is the documented behaviour)".into(),
            "harness built with overflow-checks = on for the zkryptium crate".into(),
            "a `log` logger that accepts and formats every record up to Trace level is installed for the whole process (what an application with env_logger and RUST_LOG=trace does); VERIF_LOG=off leaves the facade disabled".into(),
        ],
    }
}

pub fn replay(ctx: &Ctx, rep: &Report, ck: &str, case: &Value) -> CheckResult {
    // contention checks are replayed as a whole (the schedule is part of the case)
    if ck == "cold-start-contention" {
        let before = rep.violation_count();
        cold_start_contention(ctx, rep);
        return if rep.violation_count() > before { Err(Fail { check: ck.into(), site: "reproduced-under-contention".into(), msg: "the contention check fails again".into(), case: case.clone() }) } else { Ok(()) };
    }
    let perr = |e: String| Fail { check: ck.into(), site: "replay-parse".into(), msg: e, case: case.clone() };
    match ck {
        "index-lists-and-counts" => {
            let c: Call = serde_json::from_value(case["input"]["call"].clone()).map_err(|e| perr(e.to_string()))?;
            let h = honest(c.suite);
            with_suite!(c.suite, CS => structured::<CS>(rep, ck, &h, &c))
        }
        "json" => {
            let c: JsonCase = serde_json::from_value(case["input"]["case"].clone()).map_err(|e| perr(e.to_string()))?;
            let h = honest(c.suite);
            with_suite!(c.suite, CS => json_case::<CS>(rep, ck, &h, &c))
        }
        "holder-sizes" => {
            let s = if case["input"]["suite"] == "sha256" || case["input"]["suite"] == "Sha256" { 0 } else { 1 };
            let n = case["input"]["count"].as_u64().ok_or_else(|| perr("count missing".into()))? as usize;
            holder_size_item(rep, s, n)
        }
        "decoders-every-length" => {
            let suite = if case["input"]["suite"] == "sha256" { SuiteId::Sha256 } else { SuiteId::Shake256 };
            let len = case["input"]["len"].as_u64().unwrap_or(0) as usize;
            let h = honest(suite);
            // all classes and a few seeds at that length
            for seed in 0..4 {
                with_suite!(suite, CS => decoders_at_len::<CS>(rep, ck, &h, len, seed))?;
            }
            Ok(())
        }
        _ => crate::fuzzdrv::replay_input(rep, ck, &case.get("input").cloned().filter(|v| v.get("input_hex").is_some()).unwrap_or(case.clone())),
    }
}
