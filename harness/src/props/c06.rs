//! C06 — Blind BBS soundness: damaged commitments are refused, blind artefacts are bound.

use crate::bbs::*;
use crate::engine::*;
use crate::gen::*;
use crate::props::c04::scalar_from_seed;
use crate::refimpl::{self, Ref};
use crate::with_suite;
use bls12_381_plus::group::Curve;
use bls12_381_plus::{G1Affine, G1Projective, G2Projective, Scalar};
use proptest::prelude::*;
use serde::{Deserialize, Serialize};
use serde_json::{json, Value};

#[derive(Clone, Debug, Serialize, Deserialize)]
pub struct Case {
    pub suite: SuiteId,
    pub key: KeySpec,
    pub header: OptBytes,
    pub ph: OptBytes,
    pub msgs: MsgVec,
    pub committed: MsgVec,
    pub mask: u32,
    pub cmask: u32,
    pub seed: u32,
    pub all_bits: bool,
    /// size sweep: whole-scalar edits at sampled chunk positions only
    #[serde(default)]
    pub light: bool,
}

fn strat() -> impl Strategy<Value = Case> {
    (
        suite(),
        key_spec_simple(),
        opt_bytes(HDR_LENS_SMALL),
        opt_bytes(HDR_LENS_SMALL),
        msg_vec_range(0, 4, MSG_LENS_SMALL),
        msg_vec_range(0, 3, MSG_LENS_SMALL),
        any::<u32>(),
        any::<u32>(),
        any::<u32>(),
    )
        .prop_map(|(suite, key, header, ph, msgs, committed, mask, cmask, seed)| Case {
            suite,
            key,
            header,
            ph,
            msgs,
            committed,
            mask,
            cmask,
            seed,
            all_bits: false,
            light: false,
        })
}

struct Cx<'a> {
    rep: &'a Report,
    ck: &'a str,
    case: Value,
    groups: std::cell::RefCell<std::collections::BTreeSet<&'static str>>,
}

impl<'a> Cx<'a> {
    /// `f` returns true if the operation accepted; a panic counts as "not accepted" (C08 matter)
    fn expect_reject(&self, group: &'static str, family: &str, f: impl FnOnce() -> bool, detail: impl FnOnce() -> String) -> CheckResult {
        self.rep.eval(self.ck, 1);
        self.groups.borrow_mut().insert(group);
        let accepted = match catch(f) {
            Ok(a) => a,
            Err(_) => {
                self.rep.class("refused-by-panic(reported under C08)");
                false
            }
        };
        if accepted {
            return self.rep.fail(
                self.ck,
                &format!("accepted:{}:{}", group, family),
                format!("{} accepted ({}): {}", group, family, detail()),
                json!({"case": self.case, "family": family}),
            );
        }
        Ok(())
    }
}

fn edits_of(b: &Option<Vec<u8>>, st: &mut u64) -> Vec<Option<Vec<u8>>> {
    let hb = b.clone().unwrap_or_default();
    let mut out = vec![];
    let mut a = hb.clone();
    a.push(0);
    out.push(Some(a));
    if !hb.is_empty() {
        let mut x = hb.clone();
        let p = (splitmix(st) as usize) % x.len();
        x[p] ^= 1 << (splitmix(st) % 8);
        out.push(Some(x));
        out.push(None);
        // same length, same FNV-1a-32 value (a cache keyed by a cheap fingerprint of the header)
        if let Some(coll) = fnv1a32_collision(&hb, splitmix(st)) {
            out.push(Some(coll));
        }
    } else {
        out.push(Some(vec![0x55]));
    }
    out
}

fn check_one<CS: BbsCiphersuite>(rep: &Report, ck: &str, c: &Case) -> CheckResult {
    let cx = Cx { rep, ck, case: serde_json::to_value(c).unwrap(), groups: Default::default() };
    let cj = || json!({"case": c});
    let kp = keypair::<CS>(&c.key).map_err(|e| Fail { check: ck.into(), site: "keygen".into(), msg: format!("{:?}", e), case: cj() })?;
    let (sk, pk) = (kp.private_key(), kp.public_key());
    let msgs = c.msgs.materialize();
    let cm = c.committed.materialize();
    let header = c.header.get();
    let ph = c.ph.get();
    let (hdr, phd) = (header.as_deref(), ph.as_deref());
    let (l, m) = (msgs.len(), cm.len());
    let mut st = (c.seed as u64) << 4 | 3;

    let harness_err = |what: &str, e: String| Fail { check: ck.into(), site: format!("honest-{}-failed", what), msg: e, case: cj() };
    let (com, bf) = Commitment::<BBSplus<CS>>::commit(Some(&cm)).map_err(|e| harness_err("commit", format!("{:?}", e)))?;
    let cb = com.to_bytes();
    let bsig = BlindSignature::<BBSplus<CS>>::blind_sign(sk, pk, Some(&cb), hdr, Some(&msgs)).map_err(|e| harness_err("blind-sign", format!("{:?}", e)))?;
    bsig.verify_blind_sign(pk, hdr, Some(&msgs), Some(&cm), Some(&bf)).map_err(|e| harness_err("verify-blind-sign", format!("{:?}", e)))?;
    let signs = |octets: &[u8]| BlindSignature::<BBSplus<CS>>::blind_sign(sk, pk, Some(octets), hdr, Some(&msgs)).is_ok();

    // ---- group 1: damaged commitments -----------------------------------------------------------
    let nbits = cb.len() * 8;
    let mut flipped = 0u64;
    for bit in 0..nbits {
        if !c.all_bits && (splitmix(&mut st) % nbits as u64) >= 64 {
            continue;
        }
        let mut b2 = cb.clone();
        b2[bit / 8] ^= 1 << (bit % 8);
        flipped += 1;
        cx.expect_reject("blind_sign", "commitment-bit-flip", || signs(&b2), || format!("bit {} of {}", bit, hx(&cb)))?;
    }
    rep.class_n("commitment-bit-flips", flipped);
    if c.all_bits {
        rep.exhaustive(format!("every single-bit flip of a {}-octet commitment-with-proof (M={})", cb.len(), m));
    }
    // commitment point of run A with the proof of run B
    {
        let (com_b, _) = Commitment::<BBSplus<CS>>::commit(Some(&cm)).unwrap();
        let bb = com_b.to_bytes();
        let mut mix = cb[..48].to_vec();
        mix.extend_from_slice(&bb[48..]);
        cx.expect_reject("blind_sign", "point-A-proof-B", || signs(&mix), || "same messages, other randomness".into())?;
        let mut cm2 = cm.clone();
        if cm2.is_empty() {
            cm2.push(b"x".to_vec());
        } else {
            cm2[0].push(1);
        }
        let (com_c, _) = Commitment::<BBSplus<CS>>::commit(Some(&cm2)).unwrap();
        let cc = com_c.to_bytes();
        if cc.len() == cb.len() {
            let mut mix = cb[..48].to_vec();
            mix.extend_from_slice(&cc[48..]);
            cx.expect_reject("blind_sign", "proof-for-other-messages", || signs(&mix), || "".into())?;
            let mut mix = cc[..48].to_vec();
            mix.extend_from_slice(&cb[48..]);
            cx.expect_reject("blind_sign", "point-for-other-messages", || signs(&mix), || "".into())?;
        }
        // a commitment made under the other suite
        let other = with_suite!(c.suite.other(), CS2 => Commitment::<BBSplus<CS2>>::commit(Some(&cm)).unwrap().0.to_bytes());
        cx.expect_reject("blind_sign", "cross-suite-commitment", || signs(&other), || "".into())?;
        // the octets just accepted by this suite's signer, replayed to the other suite's signer
        // (same process, same thread, right after the honest acceptance)
        let replay = || {
            with_suite!(c.suite.other(), CS2 => {
                let kp2 = keypair::<CS2>(&c.key).unwrap();
                let _ = signs(&cb);
                BlindSignature::<BBSplus<CS2>>::blind_sign(kp2.private_key(), kp2.public_key(), Some(&cb), hdr, Some(&msgs)).is_ok()
            })
        };
        cx.expect_reject("blind_sign", "accepted-octets-replayed-to-other-suite", replay, || "".into())?;
        // a refused commitment must stay refused when presented again (also after an honest acceptance)
        let mut bad = cb.clone();
        let last = bad.len() - 1;
        bad[last] ^= 1;
        let again = || {
            let first = signs(&bad);
            let _ = signs(&cb);
            first || signs(&bad)
        };
        cx.expect_reject("blind_sign", "refused-commitment-presented-again", again, || "".into())?;
    }
    // the point at infinity as commitment, with the honest scalars and with made-up ones, for several M
    for mm in [0usize, 1, m, m + 1] {
        let mut b = vec![0u8; 48];
        b[0] = 0xc0;
        for _ in 0..mm + 2 {
            b.extend_from_slice(&refimpl::scalar_bytes(&scalar_from_seed(&mut st)));
        }
        cx.expect_reject("blind_sign", "identity-commitment-with-made-up-proof", || signs(&b), || format!("{} response scalars", mm))?;
    }
    {
        let mut b = cb.clone();
        b[..48].iter_mut().for_each(|x| *x = 0);
        b[0] = 0xc0;
        cx.expect_reject("blind_sign", "identity-commitment-with-honest-proof-scalars", || signs(&b), || "".into())?;
    }
    // a commitment point outside the prime-order subgroup: C' = C + T with T = (0, 2) of order 3, and a proof
    // assembled for it by the ordinary prover algorithm, repeated until the challenge is a multiple of 3 (then T*c
    // vanishes from the verifier's recomputation).  Only the decoder's subgroup test stands in the way.
    if c.seed % 2 == 0 {
        let r = Ref::new(c.suite);
        let apib = r.api_id_blind();
        if let (Ok(bg), Ok(cms)) = (r.blind_generators(m + 1), r.msgs_to_scalars(&cm, &apib)) {
            let mut tb = [0u8; 96];
            tb[95] = 2;
            if let Some(t3) = Option::<G1Affine>::from(G1Affine::from_uncompressed_unchecked(&tb)) {
                let t3 = G1Projective::from(t3);
                let spb = scalar_from_seed(&mut st);
                let mut cpt = bg[0] * spb;
                for i in 0..m {
                    cpt += bg[1 + i] * cms[i];
                }
                let cprime = cpt + t3;
                // the verifier subtracts C' * c either as a point negation (T*c must vanish: c = 0 mod 3) or as
                // a multiplication by -c mod r (T*(r - c) must vanish: c = r mod 3); one crafted proof for each
                let r_mod3 = hex::decode(GROUP_ORDER_HEX).unwrap().iter().map(|&b| b as u32).sum::<u32>() % 3;
                let mut wanted: Vec<u32> = vec![0, r_mod3];
                wanted.dedup();
                for _try in 0..40 {
                    if wanted.is_empty() {
                        break;
                    }
                    let stl = scalar_from_seed(&mut st);
                    let mts: Vec<Scalar> = (0..m).map(|_| scalar_from_seed(&mut st)).collect();
                    let mut cbar = bg[0] * stl;
                    for i in 0..m {
                        cbar += bg[1 + i] * mts[i];
                    }
                    let Ok(ch) = r.blind_challenge(&cprime, &cbar, &bg, &apib) else { break };
                    let cm3 = refimpl::scalar_bytes(&ch).iter().map(|&b| b as u32).sum::<u32>() % 3;
                    if !wanted.contains(&cm3) {
                        continue;
                    }
                    wanted.retain(|&w| w != cm3);
                    let mut oct = cprime.to_affine().to_compressed().to_vec();
                    oct.extend_from_slice(&refimpl::scalar_bytes(&(stl + spb * ch)));
                    for i in 0..m {
                        oct.extend_from_slice(&refimpl::scalar_bytes(&(mts[i] + cms[i] * ch)));
                    }
                    oct.extend_from_slice(&refimpl::scalar_bytes(&ch));
                    cx.expect_reject("blind_sign", "commitment-point-outside-the-subgroup-with-ground-proof", || signs(&oct), || format!("C + (0, 2), M = {}, challenge = {} mod 3", m, cm3))?;
                }
            }
        }
    }
    // whole-scalar truncations / extensions at every position (the empty string means "no commitment")
    let chunks = (cb.len() - 48) / 32;
    let chunk_positions: Vec<usize> = if c.light && chunks > 6 { vec![0, 1, chunks / 2, chunks - 2, chunks - 1] } else { (0..chunks).collect() };
    for pos in chunk_positions {
        let off = 48 + 32 * pos;
        let mut rm = cb.clone();
        rm.drain(off..off + 32);
        cx.expect_reject("blind_sign", "scalar-removed", || signs(&rm), || format!("chunk {}", pos))?;
        let mut dup = cb.clone();
        let ch = cb[off..off + 32].to_vec();
        dup.splice(off..off, ch);
        cx.expect_reject("blind_sign", "scalar-duplicated", || signs(&dup), || format!("chunk {}", pos))?;
        let mut ins = cb.clone();
        ins.splice(off..off, refimpl::scalar_bytes(&scalar_from_seed(&mut st)).to_vec());
        cx.expect_reject("blind_sign", "scalar-inserted", || signs(&ins), || format!("before chunk {}", pos))?;
        let tr = cb[..off].to_vec();
        cx.expect_reject("blind_sign", "truncated", || signs(&tr), || format!("to {} octets", off))?;
    }
    {
        let mut ext = cb.clone();
        ext.extend_from_slice(&refimpl::scalar_bytes(&scalar_from_seed(&mut st)));
        cx.expect_reject("blind_sign", "scalar-appended", || signs(&ext), || "".into())?;
        let mut ext0 = cb.clone();
        ext0.extend_from_slice(&[0u8; 32]);
        cx.expect_reject("blind_sign", "zero-scalar-appended", || signs(&ext0), || "".into())?;
    }

    // ---- group 2: verify_blind_sign edits ------------------------------------------------------
    let vb = |ms: &[Vec<u8>], cs: Option<&[Vec<u8>]>, b: Option<&BlindFactor>, h: Option<&[u8]>, k: &BBSplusPublicKey| {
        bsig.verify_blind_sign(k, h, Some(ms), cs, b).is_ok()
    };
    for j in 0..m {
        let mut c2 = cm.clone();
        c2[j].push(0);
        cx.expect_reject("verify_blind_sign", "committed-changed", || vb(&msgs, Some(&c2), Some(&bf), hdr, pk), || format!("#{}", j))?;
        let mut c3 = cm.clone();
        c3.remove(j);
        cx.expect_reject("verify_blind_sign", "committed-dropped", || vb(&msgs, Some(&c3), Some(&bf), hdr, pk), || format!("#{}", j))?;
    }
    {
        let mut c2 = cm.clone();
        c2.push(vec![]);
        cx.expect_reject("verify_blind_sign", "committed-added", || vb(&msgs, Some(&c2), Some(&bf), hdr, pk), || "".into())?;
        if m >= 2 && cm[0] != cm[1] {
            let mut c3 = cm.clone();
            c3.swap(0, 1);
            cx.expect_reject("verify_blind_sign", "committed-swapped", || vb(&msgs, Some(&c3), Some(&bf), hdr, pk), || "".into())?;
        }
    }
    for i in 0..l {
        let mut m2 = msgs.clone();
        m2[i].push(7);
        cx.expect_reject("verify_blind_sign", "signer-msg-changed", || vb(&m2, Some(&cm), Some(&bf), hdr, pk), || format!("#{}", i))?;
        let mut m3 = msgs.clone();
        m3.remove(i);
        cx.expect_reject("verify_blind_sign", "signer-msg-dropped", || vb(&m3, Some(&cm), Some(&bf), hdr, pk), || format!("#{}", i))?;
    }
    {
        let mut m2 = msgs.clone();
        m2.push(b"more".to_vec());
        cx.expect_reject("verify_blind_sign", "signer-msg-added", || vb(&m2, Some(&cm), Some(&bf), hdr, pk), || "".into())?;
        // a message moved across the signer / committed boundary
        if l >= 1 {
            let mut m3 = msgs.clone();
            let last = m3.pop().unwrap();
            let mut c3 = vec![last];
            c3.extend(cm.clone());
            cx.expect_reject("verify_blind_sign", "moved-signer-to-committed", || vb(&m3, Some(&c3), Some(&bf), hdr, pk), || "".into())?;
        }
        if m >= 1 {
            let mut c3 = cm.clone();
            let first = c3.remove(0);
            let mut m3 = msgs.clone();
            m3.push(first);
            cx.expect_reject("verify_blind_sign", "moved-committed-to-signer", || vb(&m3, Some(&c3), Some(&bf), hdr, pk), || "".into())?;
        }
        let other_bf = BlindFactor::random();
        cx.expect_reject("verify_blind_sign", "other-blind-factor", || vb(&msgs, Some(&cm), Some(&other_bf), hdr, pk), || "".into())?;
        cx.expect_reject("verify_blind_sign", "blind-factor-none", || vb(&msgs, Some(&cm), None, hdr, pk), || "".into())?;
        let mut bb = bf.to_bytes();
        bb[31] ^= 1;
        if let Ok(b2) = BlindFactor::from_bytes(&bb) {
            cx.expect_reject("verify_blind_sign", "blind-factor-bit", || vb(&msgs, Some(&cm), Some(&b2), hdr, pk), || "".into())?;
        }
        // the blinding factor as the octets it travels in: the same residue written as value + r, and r itself
        // (the residue 0 of an issuance without prover blind) are other octet strings; a decoder that refuses
        // them is fine, one that accepts them must not open the signature
        for (tag, oct) in [("blind-factor-octets-plus-r", plus_r(&bf.to_bytes())), ("blind-factor-octets=r", Some(hex::decode(GROUP_ORDER_HEX).unwrap())), ("blind-factor-octets=r+1", plus_r(&{
            let mut one = [0u8; 32];
            one[31] = 1;
            one
        }))] {
            if let Some(Ok(b2)) = oct.map(|o| BlindFactor::from_bytes(&<[u8; 32]>::try_from(o.as_slice()).unwrap())) {
                cx.expect_reject("verify_blind_sign", tag, || vb(&msgs, Some(&cm), Some(&b2), hdr, pk), || "non-canonical octets accepted by the decoder".into())?;
                if cm.is_empty() {
                    // signature issued on a commitment to nothing: also against the `None` spelling of the messages
                    cx.expect_reject("verify_blind_sign", tag, || vb(&msgs, None, Some(&b2), hdr, pk), || "committed = None".into())?;
                }
            }
        }
        for e in edits_of(&header, &mut st) {
            cx.expect_reject("verify_blind_sign", "header-edit", || vb(&msgs, Some(&cm), Some(&bf), e.as_deref(), pk), || format!("{:?}", e.as_ref().map(|x| hx(x))))?;
        }
        let mut k2 = c.key.clone();
        k2.fixture = false;
        k2.ikm.seed = k2.ikm.seed.wrapping_add(1);
        let other = keypair::<CS>(&k2).unwrap().public_key().clone();
        if other != *pk {
            cx.expect_reject("verify_blind_sign", "pk-other", || vb(&msgs, Some(&cm), Some(&bf), hdr, &other), || "".into())?;
        }
        cx.expect_reject("verify_blind_sign", "pk-plus-g2", || vb(&msgs, Some(&cm), Some(&bf), hdr, &BBSplusPublicKey(pk.0 + G2Projective::GENERATOR)), || "".into())?;
        // other suite
        let acc = || {
            with_suite!(c.suite.other(), CS2 => {
                BlindSignature::<BBSplus<CS2>>::from_bytes(&bsig.to_bytes())
                    .map(|s| s.verify_blind_sign(pk, hdr, Some(&msgs), Some(&cm), Some(&bf)).is_ok())
                    .unwrap_or(false)
            })
        };
        cx.expect_reject("verify_blind_sign", "cross-suite", acc, || "".into())?;
    }

    // ---- group 3: blind_proof_verify edits -----------------------------------------------------
    let di = mask_idx(c.mask, l);
    let dci = mask_idx(c.cmask, m);
    let dm: Vec<Vec<u8>> = di.iter().map(|&i| msgs[i].clone()).collect();
    let dcm: Vec<Vec<u8>> = dci.iter().map(|&j| cm[j].clone()).collect();
    let proof = PoKSignature::<BBSplus<CS>>::blind_proof_gen(pk, &bsig.to_bytes(), hdr, phd, Some(&msgs), Some(&cm), Some(&di), Some(&dci), Some(&bf))
        .map_err(|e| harness_err("blind-proof-gen", format!("{:?}", e)))?;
    proof
        .blind_proof_verify(pk, hdr, phd, Some(l), Some(&dm), Some(&dcm), Some(&di), Some(&dci))
        .map_err(|e| harness_err("blind-proof-verify", format!("{:?}", e)))?;
    // edits made IN PLACE in the caller's lists between two calls (same addresses, counts and lengths, other
    // octets): first the honest call on these lists, then the same lists with one octet changed
    {
        let (mut ms, mut cs, mut ds, mut dcs) = (msgs.clone(), cm.clone(), dm.clone(), dcm.clone());
        fn flip(list: &mut [Vec<u8>], k: usize) -> Option<(usize, usize)> {
            let n = list.len();
            let i = (0..n).map(|j| (j + k) % n.max(1)).find(|&i| !list[i].is_empty())?;
            let pos = k % list[i].len();
            list[i][pos] ^= 0x40;
            Some((i, pos))
        }
        for round in 0..2usize {
            let k = round * 3 + c.seed as usize;
            if bsig.verify_blind_sign(pk, hdr, Some(&ms), Some(&cs), Some(&bf)).is_ok() {
                if let Some((i, pos)) = flip(&mut ms, k) {
                    let acc = bsig.verify_blind_sign(pk, hdr, Some(&ms), Some(&cs), Some(&bf)).is_ok();
                    ms[i][pos] ^= 0x40;
                    cx.expect_reject("verify_blind_sign", "in-place-edit:signer-message", || acc, || format!("signer message {} octet {} changed in the caller's list after an accepted call", i, pos))?;
                }
                let _ = bsig.verify_blind_sign(pk, hdr, Some(&ms), Some(&cs), Some(&bf));
                if let Some((i, pos)) = flip(&mut cs, k) {
                    let acc = bsig.verify_blind_sign(pk, hdr, Some(&ms), Some(&cs), Some(&bf)).is_ok();
                    cs[i][pos] ^= 0x40;
                    cx.expect_reject("verify_blind_sign", "in-place-edit:committed-message", || acc, || format!("committed message {} octet {} changed in the caller's list after an accepted call", i, pos))?;
                }
            }
            if proof.blind_proof_verify(pk, hdr, phd, Some(l), Some(&ds), Some(&dcs), Some(&di), Some(&dci)).is_ok() {
                if let Some((i, pos)) = flip(&mut ds, k) {
                    let acc = proof.blind_proof_verify(pk, hdr, phd, Some(l), Some(&ds), Some(&dcs), Some(&di), Some(&dci)).is_ok();
                    ds[i][pos] ^= 0x40;
                    cx.expect_reject("blind_proof_verify", "in-place-edit:disclosed-signer-message", || acc, || format!("disclosed signer message #{} octet {} changed in the caller's list after an accepted call", i, pos))?;
                }
                let _ = proof.blind_proof_verify(pk, hdr, phd, Some(l), Some(&ds), Some(&dcs), Some(&di), Some(&dci));
                if let Some((i, pos)) = flip(&mut dcs, k) {
                    let acc = proof.blind_proof_verify(pk, hdr, phd, Some(l), Some(&ds), Some(&dcs), Some(&di), Some(&dci)).is_ok();
                    dcs[i][pos] ^= 0x40;
                    cx.expect_reject("blind_proof_verify", "in-place-edit:disclosed-committed-message", || acc, || format!("disclosed committed message #{} octet {} changed in the caller's list after an accepted call", i, pos))?;
                }
            }
        }
    }
    let pv = |p: &PoKSignature<BBSplus<CS>>, ll: Option<usize>, a: &[Vec<u8>], b: &[Vec<u8>], ia: &[usize], ib: &[usize], h: Option<&[u8]>, ph2: Option<&[u8]>, k: &BBSplusPublicKey| {
        p.blind_proof_verify(k, h, ph2, ll, Some(a), Some(b), Some(ia), Some(ib)).is_ok()
    };
    for k in 0..dm.len() {
        let mut d2 = dm.clone();
        d2[k].push(9);
        cx.expect_reject("blind_proof_verify", "disclosed-signer-msg-changed", || pv(&proof, Some(l), &d2, &dcm, &di, &dci, hdr, phd, pk), || format!("#{}", k))?;
        for p in 0..l {
            if !di.contains(&p) {
                let mut i2 = di.clone();
                i2[k] = p;
                let mut pairs: Vec<(usize, Vec<u8>)> = i2.into_iter().zip(dm.clone()).collect();
                pairs.sort_by_key(|x| x.0);
                let (i3, d3): (Vec<usize>, Vec<Vec<u8>>) = pairs.into_iter().unzip();
                cx.expect_reject("blind_proof_verify", "disclosed-index-moved", || pv(&proof, Some(l), &d3, &dcm, &i3, &dci, hdr, phd, pk), || format!("{} -> {}", di[k], p))?;
            }
        }
    }
    for k in 0..dcm.len() {
        let mut d2 = dcm.clone();
        d2[k].push(9);
        cx.expect_reject("blind_proof_verify", "disclosed-committed-msg-changed", || pv(&proof, Some(l), &dm, &d2, &di, &dci, hdr, phd, pk), || format!("#{}", k))?;
        for p in 0..m {
            if !dci.contains(&p) {
                let mut i2 = dci.clone();
                i2[k] = p;
                let mut pairs: Vec<(usize, Vec<u8>)> = i2.into_iter().zip(dcm.clone()).collect();
                pairs.sort_by_key(|x| x.0);
                let (i3, d3): (Vec<usize>, Vec<Vec<u8>>) = pairs.into_iter().unzip();
                cx.expect_reject("blind_proof_verify", "disclosed-commitment-index-moved", || pv(&proof, Some(l), &dm, &d3, &di, &i3, hdr, phd, pk), || format!("{} -> {}", dci[k], p))?;
            }
        }
    }
    // list-shape edits: a never-signed message rides along without an index of its own, an index without a
    // message, or a second entry under an index that is already there (before or after the genuine pair)
    {
        let never = b"never signed".to_vec();
        let mut d2 = dm.clone();
        d2.push(never.clone());
        cx.expect_reject("blind_proof_verify", "surplus-signer-msg", || pv(&proof, Some(l), &d2, &dcm, &di, &dci, hdr, phd, pk), || "one more message than indexes".into())?;
        let mut c2 = dcm.clone();
        c2.push(never.clone());
        cx.expect_reject("blind_proof_verify", "surplus-committed-msg", || pv(&proof, Some(l), &dm, &c2, &di, &dci, hdr, phd, pk), || "one more committed message than indexes".into())?;
        if let Some(&h) = (0..l).filter(|i| !di.contains(i)).collect::<Vec<_>>().last() {
            let mut i2 = di.clone();
            i2.push(h);
            i2.sort();
            cx.expect_reject("blind_proof_verify", "surplus-signer-index", || pv(&proof, Some(l), &dm, &dcm, &i2, &dci, hdr, phd, pk), || "one more index than messages".into())?;
        }
        for (k, after) in [(0usize, true), (0, false), (dm.len().saturating_sub(1), true)] {
            if k < dm.len() {
                let at = if after { k + 1 } else { k };
                let (mut d3, mut i3) = (dm.clone(), di.clone());
                d3.insert(at, never.clone());
                i3.insert(at, di[k]);
                cx.expect_reject("blind_proof_verify", "repeated-signer-index", || pv(&proof, Some(l), &d3, &dcm, &i3, &dci, hdr, phd, pk), || format!("index {} twice, forged entry {}", di[k], if after { "after" } else { "before" }))?;
            }
            if k < dcm.len() {
                let at = if after { k + 1 } else { k };
                let (mut d3, mut i3) = (dcm.clone(), dci.clone());
                d3.insert(at, never.clone());
                i3.insert(at, dci[k]);
                cx.expect_reject("blind_proof_verify", "repeated-committed-index", || pv(&proof, Some(l), &dm, &d3, &di, &i3, hdr, phd, pk), || format!("committed index {} twice, forged entry {}", dci[k], if after { "after" } else { "before" }))?;
            }
        }
    }
    // present a disclosed signer message as a committed one with the same combined position
    if let (Some(&i_last), true) = (di.last(), true) {
        // index i in signer space == index (i - L - 1) in committed space only if i > L: impossible;
        // instead: claim the message under the committed index with the same number
        if i_last < m && !dci.contains(&i_last) {
            let mut d2 = dm.clone();
            let moved = d2.pop().unwrap();
            let mut i2 = di.clone();
            i2.pop();
            let mut pairs: Vec<(usize, Vec<u8>)> = dci.iter().cloned().zip(dcm.clone()).collect();
            pairs.push((i_last, moved));
            pairs.sort_by_key(|x| x.0);
            let (i3, d3): (Vec<usize>, Vec<Vec<u8>>) = pairs.into_iter().unzip();
            cx.expect_reject("blind_proof_verify", "signer-msg-presented-as-committed", || pv(&proof, Some(l), &d2, &d3, &i2, &i3, hdr, phd, pk), || "".into())?;
        }
    }
    // L +- 1 (a panic is a C08 matter; here it only must not be accepted)
    cx.expect_reject("blind_proof_verify", "L+1", || pv(&proof, Some(l + 1), &dm, &dcm, &di, &dci, hdr, phd, pk), || "".into())?;
    if l >= 1 {
        cx.expect_reject("blind_proof_verify", "L-1", || pv(&proof, Some(l - 1), &dm, &dcm, &di, &dci, hdr, phd, pk), || "".into())?;
        cx.expect_reject("blind_proof_verify", "L=None", || pv(&proof, None, &dm, &dcm, &di, &dci, hdr, phd, pk), || "".into())?;
    }
    cx.expect_reject("blind_proof_verify", "L+M+1", || pv(&proof, Some(l + m + 1), &dm, &dcm, &di, &dci, hdr, phd, pk), || "".into())?;
    for e in edits_of(&header, &mut st) {
        cx.expect_reject("blind_proof_verify", "header-edit", || pv(&proof, Some(l), &dm, &dcm, &di, &dci, e.as_deref(), phd, pk), || "".into())?;
    }
    for e in edits_of(&ph, &mut st) {
        cx.expect_reject("blind_proof_verify", "ph-edit", || pv(&proof, Some(l), &dm, &dcm, &di, &dci, hdr, e.as_deref(), pk), || "".into())?;
    }
    // a component replaced by another component of the same statement (a default that borrows the header when no
    // presentation header is given, or the like, makes the two spellings one statement)
    {
        let hb = header.clone().unwrap_or_default();
        let phb = ph.clone().unwrap_or_default();
        let mut borrowed: Vec<(&str, Vec<u8>)> = vec![("the public key octets", pk.to_bytes().to_vec())];
        if let Some(x) = msgs.first() {
            borrowed.push(("the first signer message", x.clone()));
        }
        if let Some(x) = cm.first() {
            borrowed.push(("the first committed message", x.clone()));
        }
        for (what, val) in borrowed.iter().cloned().chain([("the header", hb.clone())]) {
            if val != phb {
                cx.expect_reject("blind_proof_verify", "ph-borrowed", || pv(&proof, Some(l), &dm, &dcm, &di, &dci, hdr, Some(&val), pk), || format!("presentation header := {}", what))?;
            }
        }
        for (what, val) in borrowed.iter().cloned().chain([("the presentation header", phb.clone())]) {
            if val != hb {
                cx.expect_reject("blind_proof_verify", "header-borrowed", || pv(&proof, Some(l), &dm, &dcm, &di, &dci, Some(&val), phd, pk), || format!("header := {}", what))?;
            }
        }
    }
    {
        let mut k2 = c.key.clone();
        k2.fixture = false;
        k2.ikm.seed = k2.ikm.seed.wrapping_add(1);
        let other = keypair::<CS>(&k2).unwrap().public_key().clone();
        if other != *pk {
            cx.expect_reject("blind_proof_verify", "pk-other", || pv(&proof, Some(l), &dm, &dcm, &di, &dci, hdr, phd, &other), || "".into())?;
        }
    }
    let pb = proof.to_bytes();
    let nb = pb.len() * 8;
    let mut pf = 0u64;
    for bit in 0..nb {
        if !c.all_bits && (splitmix(&mut st) % nb as u64) >= 64 {
            continue;
        }
        let mut b2 = pb.clone();
        b2[bit / 8] ^= 1 << (bit % 8);
        pf += 1;
        cx.expect_reject(
            "blind_proof_verify",
            "proof-bit-flip",
            || PoKSignature::<BBSplus<CS>>::from_bytes(&b2).map(|p| pv(&p, Some(l), &dm, &dcm, &di, &dci, hdr, phd, pk)).unwrap_or(false),
            || format!("bit {}", bit),
        )?;
    }
    rep.class_n("blind-proof-bit-flips", pf);
    // plain verifier / other suite
    {
        let all_dm: Vec<Vec<u8>> = dm.iter().cloned().chain(dcm.iter().cloned()).collect();
        let all_i: Vec<usize> = di.iter().cloned().chain(dci.iter().map(|j| j + l + 1)).collect();
        cx.expect_reject("blind_proof_verify", "blind-proof-through-plain-verify", || proof.proof_verify(pk, Some(&all_dm), Some(&all_i), hdr, phd).is_ok(), || "".into())?;
        let acc = || {
            with_suite!(c.suite.other(), CS2 => {
                PoKSignature::<BBSplus<CS2>>::from_bytes(&pb)
                    .map(|p| p.blind_proof_verify(pk, hdr, phd, Some(l), Some(&dm), Some(&dcm), Some(&di), Some(&dci)).is_ok())
                    .unwrap_or(false)
            })
        };
        cx.expect_reject("blind_proof_verify", "cross-suite", acc, || "".into())?;
    }

    if m >= 1 && cx.groups.borrow().len() == 3 {
        rep.nontrivial(ck, c);
    }
    rep.class(&format!("(L,M)=({},{})", l.min(3), m.min(3)));
    rep.sample(ck, json!({"suite": c.suite.name(), "L": l, "M": m, "disclosed": di, "disclosed_committed": dci}));
    Ok(())
}

fn check(rep: &Report, ck: &str, c: &Case) -> CheckResult {
    with_suite!(c.suite, CS => check_one::<CS>(rep, ck, c))
}

fn all_bits_cases(seed: u64, tier: Tier) -> Vec<Case> {
    let mut st = seed ^ 0xC06;
    let mut out = vec![];
    for suite in [SuiteId::Sha256, SuiteId::Shake256] {
        for m in 0..=tier.pick(2usize, 4usize) {
            let mk = |n: usize, st: &mut u64| MsgVec { items: (0..n).map(|_| BSpec { len: 9, class: 0, seed: splitmix(st) as u32 }).collect() };
            out.push(Case {
                suite,
                key: KeySpec { fixture: m == 0, ikm: BSpec { len: 32, class: 0, seed: splitmix(&mut st) as u32 }, key_info: OptBytes::None, key_dst: OptBytes::None },
                header: OptBytes::Bytes(BSpec { len: 16, class: 0, seed: 3 }),
                ph: OptBytes::None,
                msgs: mk(1 + m % 2, &mut st),
                committed: mk(m, &mut st),
                mask: 1,
                cmask: 1,
                seed: splitmix(&mut st) as u32,
                all_bits: true,
                light: false,
            });
        }
    }
    out
}

/// every committed-message count in a contiguous range ("magic size" defects), light catalogue
fn sweep_cases(seed: u64, ms: impl Iterator<Item = usize>) -> Vec<Case> {
    let mut st = seed ^ 0x5EE6;
    ms.enumerate()
        .map(|(k, m)| {
            let mk = |n: usize, st: &mut u64| MsgVec { items: (0..n).map(|j| BSpec { len: [5usize, 0, 32][j % 3], class: 0, seed: splitmix(st) as u32 }).collect() };
            Case {
                suite: if (k + seed as usize) % 2 == 0 { SuiteId::Sha256 } else { SuiteId::Shake256 },
                key: KeySpec { fixture: false, ikm: BSpec { len: 32, class: 0, seed: splitmix(&mut st) as u32 }, key_info: OptBytes::None, key_dst: OptBytes::None },
                header: [OptBytes::None, OptBytes::Bytes(BSpec { len: 16, class: 0, seed: 3 })][k % 2].clone(),
                ph: OptBytes::None,
                msgs: mk(k % 3, &mut st),
                committed: mk(m, &mut st),
                mask: splitmix(&mut st) as u32,
                cmask: splitmix(&mut st) as u32,
                seed: splitmix(&mut st) as u32,
                all_bits: false,
                light: true,
            }
        })
        .collect()
}

pub fn run(ctx: &Ctx, rep: &Report) -> Meta {
    // the same checks with all workers released from one barrier in a cold process (shared state under contention)
    {
        let cases = sweep_cases(ctx.seed ^ 0xC0, [2usize, 20, 5, 33, 1, 24, 9, 17].into_iter());
        let r = contend("contention", ctx.workers.max(4), ctx.tier.pick(1, 4), |t, round| {
            let c = &cases[(t * 7 + round * 3) % cases.len()];
            check(rep, "contention", c)
        });
        if let Err(f) = r {
            rep.add_violation(f);
        }
    }
    let sweep = match ctx.tier {
        Tier::Quick => sweep_cases(ctx.seed, (4..=40).chain([63, 64, 65])),
        Tier::Thorough => sweep_cases(ctx.seed, (4..=130).chain([255, 256, 257])),
    };
    par_items(ctx, rep, "size-sweep", &sweep, |c| check(rep, "size-sweep", c));
    if !rep.aborted() {
        rep.exhaustive(format!("every committed-message count M in {} with the sampled catalogue", ctx.tier.pick("4..=40 and 63..65", "4..=130 and 255..257")));
    }
    let ab = all_bits_cases(ctx.seed, ctx.tier);
    par_items(ctx, rep, "all-bit-flips", &ab, |c| check(rep, "all-bit-flips", c));
    run_cases(ctx, rep, "edits", ctx.tier.pick(96, 480), 100, strat, |c| check(rep, "edits", c));
    Meta {
        rule: "honest blind run (L = 0..4 signer messages, M = 0..3 committed) then group 1: every single-bit flip of the commitment octets (all bits for the all-bit-flips runs, 64 sampled otherwise), \
               point/proof of different runs, proof for other messages, other suite, whole-scalar removal / duplication / insertion / truncation / extension at every position -> blind_sign must return Err; \
               group 2: single edits of committed messages, signer messages, boundary moves, blinding factor (other, None, one bit), header, pk, suite -> verify_blind_sign Err; \
               edits made in place in the caller's lists between two calls of verify_blind_sign / blind_proof_verify (same addresses and lengths, other octets); group 3: single edits of disclosed data of either kind, index moves, list shapes (surplus signer / committed message, surplus index, a never-signed entry under a repeated index before or after the genuine pair), L-1 / L+1 / None / L+M+1, header, ph, header or ph := another component of the statement (the other of the two, the public key octets, the first signer / committed message), pk, proof bit flips, plain verifier, other suite -> blind_proof_verify Err; \
               size sweep over every M in 4..=40 (quick) / 4..=130 (thorough) and 63..65, the sweep cases under contention, the point at infinity as commitment with made-up or honest response scalars, a commitment point shifted by the order-3 point (0, 2) with a proof ground until its challenge is a multiple of 3, the just-accepted octets replayed to the other suite, a refused commitment presented again; a panic counts as not accepted here and is reported under C08; non-trivial = honest run with M >= 1 and all three groups executed"
            .into(),
        assumptions: vec!["accidental acceptance would need a hash collision or a discrete-log relation between generators".into()],
    }
}

pub fn replay(_ctx: &Ctx, rep: &Report, ck: &str, case: &Value) -> CheckResult {
    let c: Case = serde_json::from_value(case["case"].clone()).map_err(|e| Fail {
        check: ck.into(),
        site: "replay-parse".into(),
        msg: e.to_string(),
        case: case.clone(),
    })?;
    check(rep, ck, &c)
}
