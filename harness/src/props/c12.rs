//! C12 — Signature update is correct over any history of updates (model-based).

use crate::bbs::*;
use crate::engine::*;
use crate::gen::*;
use crate::refimpl::{self, Ref};
use crate::with_suite;
use proptest::prelude::*;
use serde::{Deserialize, Serialize};
use serde_json::{json, Value};

#[derive(Clone, Debug, Serialize, Deserialize)]
pub struct Step {
    pub pos: u16,
    pub val: BSpec,
}

#[derive(Clone, Debug, Serialize, Deserialize)]
pub struct Case {
    pub suite: SuiteId,
    pub key: KeySpec,
    pub header: OptBytes,
    pub msgs: MsgVec,
    pub steps: Vec<Step>,
    /// the first L steps visit every position in order (then the generated positions follow)
    pub sweep: bool,
}

fn strat(tier: Tier) -> impl Strategy<Value = Case> {
    let lmax = tier.pick(6usize, 12usize);
    let smax = tier.pick(12usize, 32usize);
    (
        suite(),
        key_spec_simple(),
        opt_bytes(HDR_LENS_SMALL),
        msg_vec_range(1, lmax, MSG_LENS_SMALL),
        prop::collection::vec((any::<u16>(), bspec_from(MSG_LENS_SMALL, &[0, 0, 1, 3, 6, 7, 8])).prop_map(|(pos, val)| Step { pos, val }), 0..=smax),
        any::<bool>(),
    )
        .prop_map(|(suite, key, header, msgs, steps, sweep)| Case { suite, key, header, msgs, steps, sweep })
}

fn check_one<CS: BbsCiphersuite>(rep: &Report, ck: &str, c: &Case) -> CheckResult {
    let cj = |step: Option<usize>| json!({"case": c, "step": step});
    // half of the cases run after a warm-up history of unrelated legal calls on this thread
    {
        let hs: u64 = c.key.ikm.seed as u64 ^ (c.steps.len() as u64) << 3;
        if hs % 2 == 1 {
            crate::history::warmup(hs, 1 + (hs % 5) as usize);
            rep.class("after-warm-up-history");
        }
    }
    let r = Ref::new(c.suite);
    let kp = keypair::<CS>(&c.key).map_err(|e| Fail { check: ck.into(), site: "keygen".into(), msg: format!("{:?}", e), case: cj(None) })?;
    let (sk, pk) = (kp.private_key(), kp.public_key());
    let mut cur = c.msgs.materialize();
    let l = cur.len();
    let header = c.header.get();
    let hdr = header.as_deref();
    let hb = header.clone().unwrap_or_default();
    let sig0 = Signature::<BBSplus<CS>>::sign(Some(&cur), sk, pk, hdr).map_err(|e| Fail { check: ck.into(), site: "sign".into(), msg: format!("{:?}", e), case: cj(None) })?;
    let e = refimpl::octets_to_scalar(&sig0.to_bytes()[48..]).unwrap();
    let sk_s = refimpl::octets_to_scalar(&sk.to_bytes()).unwrap();
    let api = r.api_id();
    let gens = r.create_generators(l + 1, &api).unwrap();
    let domain = r.domain(&pk.0, &gens[0], &gens[1..], &hb, &api).unwrap();
    // model: the signature the key holder would obtain for `vec` with the same exponent
    let expected = |vec: &[Vec<u8>]| -> [u8; 80] {
        let ms = r.msgs_to_scalars(vec, &api).unwrap();
        let b = r.compute_b(&gens, &domain, &ms);
        let a = b * (sk_s + e).invert().unwrap();
        refimpl::sig_to_octets(&refimpl::RefSig { a, e })
    };
    if expected(&cur) != sig0.to_bytes() {
        return rep.fail(ck, "model-disagrees-on-initial-signature", "B(msgs)/(sk+e) differs from sign()".into(), cj(None));
    }

    let mut sig = sig0;
    let mut history: Vec<Vec<Vec<u8>>> = vec![cur.clone()];
    let mut positions: Vec<usize> = vec![];
    if c.sweep {
        positions.extend(0..l);
    }
    positions.extend(c.steps.iter().map(|s| pick(s.pos, l)));
    let mut updates_at_nonzero = 0;
    for (k, &pos) in positions.iter().enumerate() {
        let old = cur[pos].clone();
        // value classes 6..8 relate the new value to the old one: old + suffix, a proper prefix of old, old with its
        // last octet changed (an update that compares or hashes only a common part treats these as "unchanged")
        let newv = if k < c.steps.len() {
            let sp = &c.steps[k].val;
            match sp.class {
                6 => {
                    let b = sp.bytes();
                    [old.clone(), vec![0x2d], b[..b.len().min(9)].to_vec()].concat()
                }
                7 => old[..old.len() / 2].to_vec(),
                8 if !old.is_empty() => {
                    let mut v = old.clone();
                    *v.last_mut().unwrap() ^= 1;
                    v
                }
                _ => sp.bytes(),
            }
        } else {
            format!("sweep-{}", k).into_bytes()
        };
        // probes before the step: out-of-range positions and a wrong old value
        // ... among them the aliases of the step's own position under a narrowing cast: pos + k * 2^8, 2^16, 2^32, 2^48, 2^63
        let aliases = [8u32, 16, 32, 48, 63].into_iter().flat_map(|b| [(1usize << b) + pos, ((7usize << b) >> if b == 63 { 2 } else { 0 }) | pos]).filter(|&x| x >= l);
        for bad in [l, l + 1, 1usize << 32, usize::MAX - 1, usize::MAX].into_iter().chain(aliases) {
            rep.eval(ck, 1);
            match catch(|| sig.update_signature(sk, &old, &newv, bad, l)) {
                Ok(Err(_)) => {}
                Ok(Ok(_)) => return rep.fail(ck, "out-of-range-update-accepted", format!("update at position {} of {} messages returned a signature", bad, l), cj(Some(k))),
                Err(p) => return rep.fail(ck, "out-of-range-update-panicked", format!("update at position {} of {} messages panicked instead of returning an error: {}", bad, l, p), cj(Some(k))),
            }
        }
        {
            let mut wrong_old = old.clone();
            wrong_old.push(0x77);
            let mut intended = cur.clone();
            intended[pos] = newv.clone();
            rep.eval(ck, 1);
            if let Ok(s2) = sig.update_signature(sk, &wrong_old, &newv, pos, l) {
                if s2.verify(pk, Some(&intended), hdr).is_ok() {
                    return rep.fail(ck, "wrong-old-value-yields-valid-signature", format!("update at {} stating a wrong old value verifies for the intended vector", pos), cj(Some(k)));
                }
            }
        }
        // the step itself; in every third step right after a call the library refuses
        if k % 3 == 1 {
            rep.class(&format!("update-right-after-a-refused-call:{}", crate::history::refused_call::<CS>((pos * 31 + k) as u64)));
        }
        // when one value is a prefix of the other, the two arguments are two views of ONE buffer (same start address,
        // different lengths), as a caller that keeps a record and passes slices of it would hand them over
        let (old_arg, new_arg): (&[u8], &[u8]) = if newv.len() > old.len() && newv.starts_with(&old) {
            rep.class("old-and-new-value-are-views-of-one-buffer");
            (&newv[..old.len()], &newv[..])
        } else if newv.len() < old.len() && old.starts_with(&newv) {
            rep.class("old-and-new-value-are-views-of-one-buffer");
            (&old[..], &old[..newv.len()])
        } else {
            (&old[..], &newv[..])
        };
        let upd = match sig.update_signature(sk, old_arg, new_arg, pos, l) {
            Ok(s) => s,
            Err(er) => return rep.fail(ck, "update-failed", format!("update at position {}: {:?}", pos, er), cj(Some(k))),
        };
        // in every second step the updated signature is first offered for the vector it was updated FROM (the one
        // the previous signature has just been accepted for), before anything else is verified
        if k % 2 == 0 && newv != old {
            rep.eval(ck, 1);
            if upd.verify(pk, Some(&cur), hdr).is_ok() {
                return rep.fail(ck, "updated-signature-verifies-for-earlier-vector", format!("after step {} (position {}): the updated signature, offered first for the previous vector, is accepted", k, pos), cj(Some(k)));
            }
        }
        cur[pos] = newv;
        rep.eval(ck, 1);
        if let Err(er) = upd.verify(pk, Some(&cur), hdr) {
            return rep.fail(ck, "updated-signature-does-not-verify", format!("after step {} (position {}): {:?}", k, pos, er), cj(Some(k)));
        }
        let ub = upd.to_bytes();
        if ub != expected(&cur) {
            let same_e = ub[48..] == expected(&cur)[48..];
            return rep.fail(
                ck,
                if same_e { "updated-signature-differs-from-model:A" } else { "updated-signature-differs-from-model:e" },
                format!("after step {} (position {}): {} expected {}", k, pos, hx(&ub), hx(&expected(&cur))),
                cj(Some(k)),
            );
        }
        // earlier, different vectors must not verify
        for old_vec in history.iter().rev().take(8) {
            if *old_vec != cur {
                rep.eval(ck, 1);
                if upd.verify(pk, Some(old_vec), hdr).is_ok() {
                    return rep.fail(ck, "updated-signature-verifies-for-earlier-vector", format!("after step {} (position {})", k, pos), cj(Some(k)));
                }
            } else {
                rep.class("no-op-update(vector unchanged)");
            }
        }
        if pos > 0 {
            updates_at_nonzero += 1;
        }
        history.push(cur.clone());
        sig = upd;
    }
    if positions.len() >= 2 && updates_at_nonzero >= 1 {
        rep.nontrivial(ck, c);
    }
    rep.class(&format!("L={}", l));
    rep.class(&format!("steps={}", match positions.len() { 0 => "0", 1..=4 => "1..4", 5..=16 => "5..16", _ => ">16" }));
    if c.sweep {
        rep.class("sweeps-every-position");
    }
    rep.sample(ck, json!({"suite": c.suite.name(), "L": l, "positions": positions}));
    Ok(())
}

fn check(rep: &Report, ck: &str, c: &Case) -> CheckResult {
    with_suite!(c.suite, CS => check_one::<CS>(rep, ck, c))
}

pub fn run(ctx: &Ctx, rep: &Report) -> Meta {
    // the same checks with all workers released from one barrier in a cold process (shared state under contention)
    {
        let cases = (0..8usize).map(|k| Case { suite: if k % 2 == 0 { SuiteId::Sha256 } else { SuiteId::Shake256 }, key: KeySpec { fixture: false, ikm: BSpec { len: 32, class: 0, seed: k as u32 }, key_info: OptBytes::None, key_dst: OptBytes::None }, header: OptBytes::None, msgs: MsgVec { items: (0..[3usize, 20, 40, 70, 34, 9, 65, 17][k]).map(|j| BSpec { len: 5, class: 0, seed: (k * 100 + j) as u32 }).collect() }, steps: vec![Step { pos: 65000, val: BSpec { len: 4, class: 0, seed: 1 } }, Step { pos: 0, val: BSpec { len: 4, class: 0, seed: 2 } }], sweep: false }).collect::<Vec<_>>();
        let r = contend("contention", ctx.workers.max(4), ctx.tier.pick(2, 6), |t, round| {
            let c = &cases[(t * 7 + round * 3) % cases.len()];
            check(rep, "contention", c)
        });
        if let Err(f) = r {
            rep.add_violation(f);
        }
    }
    let tier = ctx.tier;
    run_cases(ctx, rep, "histories", ctx.tier.pick(300, 4000), 300, || strat(tier), |c| check(rep, "histories", c));
    // larger vectors: positions beyond 16 / 20
    let big: Vec<Case> = [(SuiteId::Sha256, 24usize), (SuiteId::Shake256, 33), (SuiteId::Sha256, 64)]
        .iter()
        .map(|&(suite, l)| Case {
            suite,
            key: KeySpec { fixture: true, ikm: BSpec { len: 32, class: 0, seed: 0 }, key_info: OptBytes::None, key_dst: OptBytes::None },
            header: OptBytes::Bytes(BSpec { len: 16, class: 0, seed: 1 }),
            msgs: MsgVec { items: (0..l).map(|j| BSpec { len: 8, class: 0, seed: j as u32 }).collect() },
            steps: vec![],
            sweep: true,
        })
        .collect();
    par_items(ctx, rep, "large-vectors", &big, |c| check(rep, "large-vectors", c));
    // vectors around the 255 / 256 boundary (and 300): updates at 0, 253, 254, 255, 256 and the last position
    let huge: Vec<Case> = [(SuiteId::Sha256, 255usize), (SuiteId::Shake256, 256), (SuiteId::Sha256, 257), (SuiteId::Shake256, 300)]
        .iter()
        .map(|&(suite, l)| Case {
            suite,
            key: KeySpec { fixture: false, ikm: BSpec { len: 32, class: 0, seed: l as u32 }, key_info: OptBytes::None, key_dst: OptBytes::None },
            header: OptBytes::None,
            msgs: MsgVec { items: (0..l).map(|j| BSpec { len: 4, class: 0, seed: j as u32 }).collect() },
            steps: [0usize, 253, 254, 255, 256, l - 1]
                .iter()
                .filter(|&&p| p < l)
                .map(|&p| Step { pos: ((((p as u64) << 16) + (1 << 15)) / l as u64).min(65535) as u16, val: BSpec { len: 9, class: 0, seed: (l * 7 + p) as u32 } })
                .collect(),
            sweep: false,
        })
        .collect();
    par_items(ctx, rep, "boundary-255", &huge, |c| check(rep, "boundary-255", c));
    // every vector length in a contiguous range, updates at the first, second, middle and last position
    let sweep: Vec<Case> = (7..=ctx.tier.pick(72usize, 200usize))
        .map(|l| Case {
            suite: if l % 2 == 0 { SuiteId::Sha256 } else { SuiteId::Shake256 },
            key: KeySpec { fixture: false, ikm: BSpec { len: 32, class: 0, seed: (ctx.seed as u32).wrapping_add(l as u32) }, key_info: OptBytes::None, key_dst: OptBytes::None },
            header: [OptBytes::None, OptBytes::Bytes(BSpec { len: 16, class: 0, seed: 1 })][l % 2].clone(),
            msgs: MsgVec { items: (0..l).map(|j| BSpec { len: 6, class: 0, seed: (l * 1000 + j) as u32 }).collect() },
            steps: [0usize, 1, l / 2, l - 1]
                .iter()
                .map(|&p| Step { pos: (((p as u64) << 16) / l as u64 + 1).min(65535) as u16, val: BSpec { len: 9, class: 0, seed: (l * 77 + p) as u32 } })
                .collect(),
            sweep: false,
        })
        .collect();
    par_items(ctx, rep, "size-sweep", &sweep, |c| check(rep, "size-sweep", c));
    Meta {
        rule: "model-based histories: suite, key, header, L = 1..6 (quick) / 1..12 (thorough) plus sweeps over L in {24, 33, 64}, initial vector, then up to 12 / 32 generated (position, value) updates, optionally preceded by a sweep over every position; \
               model = current vector and A_k = B_ref(vector_k)/(sk + e) from the reference; after every step: update Ok, verify Ok, signature octets = model, Err for the last 8 earlier different vectors; \
               every third update right after a call the library refuses (history::refused_call); a new value that extends or truncates the old one is passed as a second view of the same buffer; probes at every step: positions {L, L+1, 2^32, usize::MAX-1, usize::MAX, and pos + k*2^b for b in 8, 16, 32, 48, 63 (aliases of the step's position under a narrowing cast)} must return Err (no panic), a wrong old value must not yield a signature valid for the intended vector; \
               sweeps over every L in 7..=72 / 7..=200 with updates at the first, second, middle and last position, vectors of 255 / 256 / 257 / 300 messages updated at positions 0, 253..256 and last, fixed histories under contention, half of the cases after a warm-up history; non-trivial = history with >= 2 updates of which >= 1 at a position > 0; evaluations = oracle applications"
            .into(),
        assumptions: vec!["n is always the true number of signed messages (its documented meaning)".into()],
    }
}

pub fn replay(_ctx: &Ctx, rep: &Report, ck: &str, case: &Value) -> CheckResult {
    let c: Case = serde_json::from_value(case["case"].clone()).map_err(|e| Fail { check: ck.into(), site: "replay-parse".into(), msg: e.to_string(), case: case.clone() })?;
    check(rep, ck, &c)
}
