//! C05 — Blind BBS issuance and presentation completeness.

use crate::bbs::*;
use crate::engine::*;
use crate::gen::*;
use crate::with_suite;
use proptest::prelude::*;
use serde::{Deserialize, Serialize};
use serde_json::{json, Value};

#[derive(Clone, Debug, Serialize, Deserialize)]
pub struct Case {
    pub suite: SuiteId,
    pub key: KeySpec,
    pub header: OptBytes,
    pub ph: OptBytes,
    pub msgs: MsgVec,
    pub committed: MsgVec,
    /// enumerate all 2^L x 2^M disclosure pairs (small shapes) or sample classes
    pub all_pairs: bool,
    pub seed: u32,
}

fn strat(tier: Tier) -> impl Strategy<Value = Case> {
    let hi = tier.pick(8, 16);
    (
        suite(),
        key_spec_simple(),
        opt_bytes(HDR_LENS_SMALL),
        opt_bytes(HDR_LENS_SMALL),
        msg_vec_range(0, hi, MSG_LENS_SMALL),
        msg_vec_range(0, hi, MSG_LENS_SMALL),
        any::<u32>(),
    )
        .prop_map(|(suite, key, header, ph, msgs, committed, seed)| Case { suite, key, header, ph, msgs, committed, all_pairs: false, seed })
}

#[allow(clippy::too_many_arguments)]
fn one_pair<CS: BbsCiphersuite>(
    rep: &Report,
    ck: &str,
    c: &Case,
    pk: &BBSplusPublicKey,
    sig: &[u8; 80],
    msgs: &[Vec<u8>],
    cm: Option<&[Vec<u8>]>,
    bf: Option<&BlindFactor>,
    header: Option<&[u8]>,
    ph: Option<&[u8]>,
    di: &[usize],
    dci: &[usize],
) -> CheckResult {
    let l = msgs.len();
    let cj = || json!({"case": c, "disclosed": di, "disclosed_committed": dci, "with_commitment": cm.is_some()});
    // a call the library refuses right before a step of the flow (what an error path leaves behind on the thread
    // must not reach the next honest call): before generation / before verification for a part of the pairs
    let interject = (c.seed as usize + di.len() * 3 + dci.len()) % 4;
    if interject == 0 {
        rep.class(&format!("refused-call-before-proof-gen:{}", crate::history::refused_call::<CS>(c.seed as u64 + (di.len() * 7 + dci.len()) as u64)));
    }
    let proof = match PoKSignature::<BBSplus<CS>>::blind_proof_gen(pk, sig, header, ph, Some(msgs), cm, Some(di), if cm.is_some() { Some(dci) } else { None }, bf) {
        Ok(p) => p,
        Err(e) => return rep.fail(ck, "blind-proof-gen-failed", format!("blind_proof_gen: {:?}", e), cj()),
    };
    let dm: Vec<Vec<u8>> = di.iter().map(|&i| msgs[i].clone()).collect();
    let dcm: Vec<Vec<u8>> = dci.iter().map(|&j| cm.unwrap()[j].clone()).collect();
    rep.eval(ck, 1);
    let dcm_arg: Option<&[Vec<u8>]> = if cm.is_some() { Some(&dcm) } else { None };
    let dci_arg: Option<&[usize]> = if cm.is_some() { Some(dci) } else { None };
    if interject == 1 {
        rep.class(&format!("refused-call-before-proof-verify:{}", crate::history::refused_call::<CS>(c.seed as u64 + (di.len() * 5 + dci.len()) as u64)));
    }
    // the proof object is first offered under another key and another header (refused), then honestly
    if c.seed % 2 == 0 && interject != 1 {
        let other_pk = BBSplusPublicKey(pk.0 + bls12_381_plus::G2Projective::GENERATOR);
        let _ = proof.blind_proof_verify(&other_pk, header, ph, Some(l), Some(&dm), dcm_arg, Some(di), dci_arg);
        let _ = proof.blind_proof_verify(pk, Some(b"another header"), ph, Some(l), Some(&dm), dcm_arg, Some(di), dci_arg);
        rep.class("object-reused-after-refusals");
    }
    if let Err(e) = proof.blind_proof_verify(pk, header, ph, Some(l), Some(&dm), dcm_arg, Some(di), dci_arg) {
        return rep.fail(ck, "blind-proof-verify-failed", format!("blind_proof_verify of a fresh proof: {:?}", e), cj());
    }
    if let Err(e) = proof.blind_proof_verify(pk, header, ph, Some(l), Some(&dm), dcm_arg, Some(di), dci_arg) {
        return rep.fail(ck, "blind-proof-verify-failed:second-call", format!("the same proof object verified a second time: {:?}", e), cj());
    }
    // L = 0 may be spelled None
    if l == 0 {
        if let Err(e) = proof.blind_proof_verify(pk, header, ph, None, Some(&dm), dcm_arg, Some(di), dci_arg) {
            return rep.fail(ck, "blind-proof-verify-L-none", format!("L = None for zero signer messages: {:?}", e), cj());
        }
    }
    let pb = proof.to_bytes();
    // the proof octets as a slice that starts 1..=7 octets into a buffer
    {
        let off = 1 + (c.seed as usize + di.len()) % 7;
        let frame = [&vec![0x5Au8; off][..], &pb[..]].concat();
        match PoKSignature::<BBSplus<CS>>::from_bytes(&frame[off..]) {
            Ok(p2) if p2 == proof => {}
            _ => return rep.fail(ck, "blind-proof-roundtrip:unaligned-slice", format!("the proof octets decode differently (or not at all) from a slice that starts {} octets into a buffer", off), cj()),
        }
    }
    match PoKSignature::<BBSplus<CS>>::from_bytes(&pb) {
        Ok(p2) => {
            if p2 != proof {
                return rep.fail(ck, "blind-proof-roundtrip-neq", "decoded proof differs".into(), cj());
            }
            if let Err(e) = p2.blind_proof_verify(pk, header, ph, Some(l), Some(&dm), dcm_arg, Some(di), dci_arg) {
                return rep.fail(ck, "blind-proof-roundtrip-verify", format!("{:?}", e), cj());
            }
        }
        Err(e) => return rep.fail(ck, "blind-proof-roundtrip-decode", format!("{:?}", e), cj()),
    }
    rep.eval(ck, 1);
    let m = cm.map(|x| x.len()).unwrap_or(0);
    let u = l - di.len() + 1 + m - dci.len();
    if pb.len() != 272 + 32 * u {
        return rep.fail(ck, "blind-proof-length", format!("{} octets for U = {}", pb.len(), u), cj());
    }
    Ok(())
}

fn check_one<CS: BbsCiphersuite>(rep: &Report, ck: &str, c: &Case) -> CheckResult {
    let cj = || json!({"case": c});
    // half of the cases run after a warm-up history of unrelated legal calls on this thread
    {
        let hs: u64 = c.seed as u64 ^ c.key.ikm.seed as u64;
        if hs % 2 == 1 {
            crate::history::warmup(hs, 1 + (hs % 5) as usize);
            rep.class("after-warm-up-history");
        }
    }
    let kp = keypair::<CS>(&c.key).map_err(|e| Fail { check: ck.into(), site: "keygen".into(), msg: format!("{:?}", e), case: cj() })?;
    let (sk, pk) = (kp.private_key(), kp.public_key());
    let msgs = c.msgs.materialize();
    let cm = c.committed.materialize();
    let header = c.header.get();
    let ph = c.ph.get();
    let (hdr, phd) = (header.as_deref(), ph.as_deref());
    let (l, m) = (msgs.len(), cm.len());

    // two cases in three: each step of the issuance is preceded by a call the library refuses
    let interject = |step: u64| {
        if c.seed % 3 != 0 {
            rep.class(&format!("refused-call-before-step:{}", crate::history::refused_call::<CS>((c.seed as u64 >> 2) + step * 5)));
        }
    };
    interject(0);
    // commit (None is the other spelling of "no committed messages")
    let cm_arg: Option<&[Vec<u8>]> = if m == 0 && c.seed % 2 == 0 { None } else { Some(&cm) };
    let (com, bf) = match Commitment::<BBSplus<CS>>::commit(cm_arg) {
        Ok(x) => x,
        Err(e) => return rep.fail(ck, "commit-failed", format!("{:?}", e), cj()),
    };
    let cb = com.to_bytes();
    if cb.len() != 48 + 32 * (m + 2) {
        return rep.fail(ck, "commitment-length", format!("{} octets for M = {}", cb.len(), m), cj());
    }
    match Commitment::<BBSplus<CS>>::from_bytes(&cb) {
        Ok(c2) if c2 == com => {}
        other => return rep.fail(ck, "commitment-roundtrip", format!("{}", err_s(&other.map(|_| ()))), cj()),
    }
    let msgs_arg: Option<&[Vec<u8>]> = if l == 0 && c.seed % 3 == 0 { None } else { Some(&msgs) };
    interject(1);
    // every second case: the commitment octets reach the signer as a slice that starts 1..=7 octets into a buffer
    // (behind a tag or a length prefix), not as a freshly allocated vector
    let off = if c.seed % 2 == 0 { 1 + (c.seed as usize >> 1) % 7 } else { 0 };
    let frame = [&vec![0xA5u8; off][..], &cb[..]].concat();
    let cb_view: &[u8] = &frame[off..];
    if off > 0 {
        rep.class("commitment-handed-over-as-an-unaligned-slice");
    }
    let bsig = match BlindSignature::<BBSplus<CS>>::blind_sign(sk, pk, Some(cb_view), hdr, msgs_arg) {
        Ok(s) => s,
        Err(e) => return rep.fail(ck, "blind-sign-failed", format!("blind_sign over an honest commitment: {:?}", e), cj()),
    };
    rep.eval(ck, 1);
    interject(2);
    if let Err(e) = bsig.verify_blind_sign(pk, hdr, msgs_arg, cm_arg, Some(&bf)) {
        return rep.fail(ck, "verify-blind-sign-failed", format!("{:?}", e), cj());
    }
    let sb = bsig.to_bytes();
    match BlindSignature::<BBSplus<CS>>::from_bytes(&sb) {
        Ok(s2) => {
            if let Err(e) = s2.verify_blind_sign(pk, hdr, Some(&msgs), Some(&cm), Some(&bf)) {
                return rep.fail(ck, "blind-sig-roundtrip-verify", format!("{:?}", e), cj());
            }
        }
        Err(e) => return rep.fail(ck, "blind-sig-roundtrip-decode", format!("{:?}", e), cj()),
    }
    // blind factor round trip
    match BlindFactor::from_bytes(&bf.to_bytes()) {
        Ok(b2) => {
            if let Err(e) = bsig.verify_blind_sign(pk, hdr, Some(&msgs), Some(&cm), Some(&b2)) {
                return rep.fail(ck, "blind-factor-roundtrip-verify", format!("{:?}", e), cj());
            }
        }
        Err(e) => return rep.fail(ck, "blind-factor-roundtrip", format!("{:?}", e), cj()),
    }
    rep.eval(ck, 2);

    // issuance without any commitment
    interject(3);
    let nsig = match BlindSignature::<BBSplus<CS>>::blind_sign(sk, pk, None, hdr, msgs_arg) {
        Ok(s) => s,
        Err(e) => return rep.fail(ck, "blind-sign-no-commitment-failed", format!("{:?}", e), cj()),
    };
    if let Err(e) = nsig.verify_blind_sign(pk, hdr, msgs_arg, None, None) {
        return rep.fail(ck, "verify-blind-sign-no-commitment-failed", format!("{:?}", e), cj());
    }
    // Some(b"") is the other spelling of "no commitment"
    match BlindSignature::<BBSplus<CS>>::blind_sign(sk, pk, Some(&[]), hdr, msgs_arg) {
        Ok(s) if s.to_bytes() == nsig.to_bytes() => {}
        other => return rep.fail(ck, "no-commitment-none-vs-empty", format!("{}", err_s(&other.map(|_| ()))), cj()),
    }
    rep.eval(ck, 2);

    // presentations
    let nsb = nsig.to_bytes();
    if c.all_pairs && l <= 4 && m <= 4 {
        for ma in 0u32..(1 << l) {
            let di = mask_to_indexes(ma, l);
            for mb in 0u32..(1 << m) {
                let dci = mask_to_indexes(mb, m);
                one_pair::<CS>(rep, ck, c, pk, &sb, &msgs, Some(&cm), Some(&bf), hdr, phd, &di, &dci)?;
                rep.nontrivial(ck, &json!({"c": c, "di": di, "dci": dci}));
            }
            one_pair::<CS>(rep, ck, c, pk, &nsb, &msgs, None, None, hdr, phd, &di, &[])?;
        }
        rep.exhaustive(format!("all 2^L x 2^M disclosure pairs for (L, M) = ({}, {})", l, m));
        rep.class(&format!("all-pairs:(L,M)=({},{})", l, m));
    } else {
        let a = mask_classes(l, c.seed as u64);
        let b = mask_classes(m, (c.seed as u64) << 7 | 5);
        for k in 0..a.len().max(b.len()) {
            let (_, di) = &a[k % a.len()];
            let (_, dci) = &b[(k * 3 + 1) % b.len()];
            one_pair::<CS>(rep, ck, c, pk, &sb, &msgs, Some(&cm), Some(&bf), hdr, phd, di, dci)?;
            rep.nontrivial(ck, &json!({"c": c, "di": di, "dci": dci}));
        }
        one_pair::<CS>(rep, ck, c, pk, &nsb, &msgs, None, None, hdr, phd, &a[a.len() - 1].1, &[])?;
        rep.class(&format!("class-pairs:L+1+M={}", if l + 1 + m > 16 { ">16" } else { "<=16" }));
    }
    rep.class(&format!("M={}", if m == 0 { "0".to_string() } else if m <= 3 { "1..3".into() } else { ">3".into() }));
    rep.class(&format!("L={}", if l == 0 { "0".to_string() } else if l <= 3 { "1..3".into() } else { ">3".into() }));
    rep.sample(ck, json!({"suite": c.suite.name(), "L": l, "M": m, "header": c.header.class(), "ph": c.ph.class(), "all_pairs": c.all_pairs}));
    Ok(())
}

fn check(rep: &Report, ck: &str, c: &Case) -> CheckResult {
    with_suite!(c.suite, CS => check_one::<CS>(rep, ck, c))
}

fn shaped(seed: u64, shapes: &[(usize, usize)], all_pairs: bool) -> Vec<Case> {
    let mut st = seed ^ 0xC05;
    let mut out = vec![];
    for (k, &(l, m)) in shapes.iter().enumerate() {
        for suite in [SuiteId::Sha256, SuiteId::Shake256] {
            let mk = |n: usize, st: &mut u64| MsgVec {
                items: (0..n).map(|j| BSpec { len: [6usize, 0, 32, 48][j % 4], class: 0, seed: splitmix(st) as u32 }).collect(),
            };
            out.push(Case {
                suite,
                key: KeySpec { fixture: k % 3 == 0, ikm: BSpec { len: 32, class: 0, seed: splitmix(&mut st) as u32 }, key_info: OptBytes::None, key_dst: OptBytes::None },
                header: [OptBytes::Bytes(BSpec { len: 16, class: 0, seed: 1 }), OptBytes::None, OptBytes::Empty][k % 3].clone(),
                ph: [OptBytes::None, OptBytes::Bytes(BSpec { len: 32, class: 0, seed: 2 }), OptBytes::Empty][k % 3].clone(),
                msgs: mk(l, &mut st),
                committed: mk(m, &mut st),
                all_pairs,
                seed: splitmix(&mut st) as u32,
            });
        }
    }
    out
}

/// see the comment inside: dense overlap of short prover-side calls on all workers
fn prover_burst(ctx: &Ctx, rep: &Report) {
    // prover burst: all workers issue thousands of short prover-side calls at once (commit, proof_gen,
    // blind_proof_gen over prepared signatures); every call must succeed and every eighth result is verified.
    // Short calls make the windows of any shared prover-side state (pools, caches being refilled) overlap densely.
    {
        let iters = ctx.tier.pick(1200usize, 8000usize);
        let r = contend("prover-burst", ctx.workers.max(4), 1, |t, _round| {
            let suite = if t % 2 == 0 { SuiteId::Sha256 } else { SuiteId::Shake256 };
            with_suite!(suite, CS => {
                let ck = "prover-burst";
                let cj = |k: usize| json!({"thread": t, "iteration": k, "suite": suite.name()});
                let kp = keypair::<CS>(&KeySpec { fixture: false, ikm: BSpec { len: 32, class: 0, seed: 4242 + t as u32 }, key_info: OptBytes::None, key_dst: OptBytes::None }).unwrap();
                let (sk, pk) = (kp.private_key(), kp.public_key());
                let msgs: Vec<Vec<u8>> = (0..3).map(|j| format!("m{}-{}", j, t).into_bytes()).collect();
                let cm: Vec<Vec<u8>> = (0..(t % 3)).map(|j| format!("c{}-{}", j, t).into_bytes()).collect();
                let sig = Signature::<BBSplus<CS>>::sign(Some(&msgs), sk, pk, Some(b"h")).map_err(|e| harness_fail(ck, "sign", format!("{:?}", e), cj(0)))?;
                for k in 0..iters {
                    rep.eval(ck, 1);
                    let (com, bf) = match catch(|| Commitment::<BBSplus<CS>>::commit(Some(&cm))) {
                        Ok(Ok(x)) => x,
                        Ok(Err(e)) => return rep.fail(ck, "commit-failed", format!("commit under load: {:?}", e), cj(k)),
                        Err(p) => return rep.fail(ck, "commit-panicked", format!("commit under load panicked: {}", p), cj(k)),
                    };
                    if k % 4 == 0 {
                        rep.eval(ck, 1);
                        match catch(|| PoKSignature::<BBSplus<CS>>::proof_gen(pk, &sig.to_bytes(), Some(b"h"), None, Some(&msgs), Some(&[1usize][..]))) {
                            Ok(Ok(p)) => {
                                if k % 8 == 0 && p.proof_verify(pk, Some(&msgs[1..2]), Some(&[1usize][..]), Some(b"h"), None).is_err() {
                                    return rep.fail(ck, "proof-verify-failed", "proof generated under load does not verify".into(), cj(k));
                                }
                            }
                            Ok(Err(e)) => return rep.fail(ck, "proof-gen-failed", format!("proof_gen under load: {:?}", e), cj(k)),
                            Err(p) => return rep.fail(ck, "proof-gen-panicked", format!("proof_gen under load panicked: {}", p), cj(k)),
                        }
                    }
                    if k % 8 == 0 {
                        rep.eval(ck, 1);
                        let bs = match BlindSignature::<BBSplus<CS>>::blind_sign(sk, pk, Some(&com.to_bytes()), Some(b"h"), Some(&msgs)) {
                            Ok(b) => b,
                            Err(e) => return rep.fail(ck, "blind-sign-failed", format!("blind_sign under load refuses an honest commitment: {:?}", e), cj(k)),
                        };
                        if bs.verify_blind_sign(pk, Some(b"h"), Some(&msgs), Some(&cm), Some(&bf)).is_err() {
                            return rep.fail(ck, "verify-blind-sign-failed", "blind signature issued under load does not verify".into(), cj(k));
                        }
                        match catch(|| PoKSignature::<BBSplus<CS>>::blind_proof_gen(pk, &bs.to_bytes(), Some(b"h"), None, Some(&msgs), Some(&cm), Some(&[0usize][..]), None, Some(&bf))) {
                            Ok(Ok(_)) => {}
                            Ok(Err(e)) => return rep.fail(ck, "blind-proof-gen-failed", format!("blind_proof_gen under load: {:?}", e), cj(k)),
                            Err(p) => return rep.fail(ck, "blind-proof-gen-panicked", format!("blind_proof_gen under load panicked: {}", p), cj(k)),
                        }
                    }
                }
                Ok(())
            })
        });
        if let Err(f) = r {
            rep.add_violation(f);
        }
    }
}

fn harness_fail(ck: &str, site: &str, msg: String, case: Value) -> Fail {
    Fail { check: ck.into(), site: site.into(), msg, case }
}

pub fn run(ctx: &Ctx, rep: &Report) -> Meta {
    // the same checks with all workers released from one barrier in a cold process (shared state under contention)
    {
        let cases = shaped(ctx.seed ^ 0xC0, &[(20, 20), (3, 40), (40, 3), (0, 0), (17, 33), (2, 2), (70, 1)], false);
        let r = contend("contention", ctx.workers.max(4), ctx.tier.pick(2, 6), |t, round| {
            let c = &cases[(t * 7 + round * 3) % cases.len()];
            check(rep, "contention", c)
        });
        if let Err(f) = r {
            rep.add_violation(f);
        }
    }
    prover_burst(ctx, rep);
    let lim = ctx.tier.pick(3usize, 4usize);
    let mut small = vec![];
    for l in 0..=lim {
        for m in 0..=lim {
            small.push((l, m));
        }
    }
    let a = shaped(ctx.seed, &small, true);
    par_items(ctx, rep, "all-pairs", &a, |c| check(rep, "all-pairs", c));
    let big: &[(usize, usize)] = ctx.tier.pick(
        &[(0, 5), (10, 0), (10, 5), (2, 7), (12, 12), (40, 17)],
        &[(0, 5), (10, 0), (10, 5), (2, 7), (12, 12), (40, 17), (100, 3), (3, 100), (300, 40)],
    );
    let b = shaped(ctx.seed ^ 77, big, false);
    par_items(ctx, rep, "fixed-shapes", &b, |c| check(rep, "fixed-shapes", c));
    // every size along the axes and the diagonal
    let kmax = ctx.tier.pick(40usize, 130usize);
    let mut sw: Vec<(usize, usize)> = vec![];
    for k in 4..=kmax {
        sw.push((k, 0));
        sw.push((0, k));
        sw.push((k, k / 2 + 1));
        sw.push((k % 5, k));
    }
    // every total length L + 1 + M of the signed vector beyond those (one split of each, drawn from the seed): what
    // the proof code sees is the total, and a switch at a particular total sits on no axis
    let tmax = ctx.tier.pick(100usize, 270usize);
    for t in kmax + 2..=tmax {
        let mut s_ = ctx.seed ^ (t as u64) << 20;
        let l = (crate::gen::splitmix(&mut s_) as usize) % t;
        sw.push((l, t - 1 - l));
    }
    let c = shaped(ctx.seed ^ 0x5EE5, &sw, false);
    // one suite per shape is enough here (the shapes list doubles otherwise)
    let c: Vec<Case> = c.into_iter().enumerate().filter(|(i, _)| i % 2 == (i / 2) % 2).map(|(_, x)| x).collect();
    par_items(ctx, rep, "size-sweep", &c, |c| check(rep, "size-sweep", c));
    if !rep.aborted() {
        rep.exhaustive(format!("shapes (k, 0), (0, k), (k, k/2+1), (k mod 5, k) for every k in 4..={}; every total length L + 1 + M in {}..={} (one split each; smaller totals lie on the axes)", kmax, kmax + 2, tmax));
    }
    let tier = ctx.tier;
    run_cases(ctx, rep, "random-shapes", ctx.tier.pick(64, 600), 100, || strat(tier), |c| check(rep, "random-shapes", c));
    Meta {
        rule: "prover-burst: all workers issue 1200 (quick) / 8000 (thorough) commits each at once, every fourth followed by proof_gen, every eighth by blind_sign + verify_blind_sign + blind_proof_gen, all of which must succeed; suite x key x header x ph x committed messages (M >= 0) x signer messages (L >= 0): commit, blind_sign over the commitment octets, verify_blind_sign, \
               octet round trips of commitment / signature / blind factor, commitment and proof octets also handed over as slices that start 1..=7 octets into a buffer, issuance without commitment (None and empty spelling), then blind_proof_gen + blind_proof_verify for ALL 2^L x 2^M disclosure pairs \
               (L, M <= 3 quick / 4 thorough, both suites) and class-sampled pairs for larger shapes incl. L+1+M > 16; shapes (k,0), (0,k), (k,k/2+1), (k mod 5,k) for every k up to 40 / 130, every total length L + 1 + M up to 100 / 270 (one split each), fixed shapes under contention, in two cases of three every step of the issuance, and for half of the pairs proof generation or verification, is preceded by a call the library refuses (17 kinds: key generation with short key material / long tags, garbage octets into the decoders, a commitment of 0xc0 octets into blind_sign, verification / proof generation / update with other headers, positions out of range, lists too short, a tag of 256 octets into hash_to_scalar), half of the cases after a warm-up history; oracle: every step Ok, decoded objects equal, proof length 272 + 32*U; \
               non-trivial = a disclosure pair executed on a shape; evaluations = verifications"
            .into(),
        assumptions: vec!["production randomness path (commit and proof_gen use thread_rng)".into()],
    }
}

pub fn replay(_ctx: &Ctx, rep: &Report, ck: &str, case: &Value) -> CheckResult {
    if ck == "prover-burst" {
        // the schedule is part of the case: the burst is run again as a whole
        let before = rep.violation_count();
        prover_burst(_ctx, rep);
        return if rep.violation_count() > before { Err(Fail { check: ck.into(), site: "reproduced-under-contention".into(), msg: "the prover burst fails again".into(), case: case.clone() }) } else { Ok(()) };
    }
    let c: Case = serde_json::from_value(case["case"].clone()).map_err(|e| Fail {
        check: ck.into(),
        site: "replay-parse".into(),
        msg: e.to_string(),
        case: case.clone(),
    })?;
    check(rep, ck, &c)
}
