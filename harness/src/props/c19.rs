//! C19 — CL03 proof responses statistically mask the secrets they answer for.
//! Attacker program: divide every response by every publicly recomputable challenge (and by every
//! other response) and compare with the secrets; for range proofs apply the public inverse map.

use crate::cl::*;
use crate::engine::*;
use crate::props::c17::{self, build_view, Case, View};
use crate::with_cl;
use rug::ops::Pow;
use rug::{Complete, Integer};
use serde_json::{json, Value};
use sha2::{Digest, Sha256};

fn h_int(s: String) -> Integer {
    Integer::from_digits(Sha256::digest(s).as_slice(), rug::integer::Order::MsfBe)
}

fn pow(b: &Integer, e: &Integer, n: &Integer) -> Integer {
    Integer::from(b.pow_mod_ref(e, n).unwrap())
}

/// Challenges recomputable from public data: the ones stored in the proof and the ones of the
/// (t, s1, s2) sigma proofs, recomputed exactly as the verifier does and validated against the
/// verification equation (a mismatch is a harness error, never a pass).
pub fn public_challenges(v: &View) -> Result<Vec<(String, Integer)>, String> {
    let mut out: Vec<(String, Integer)> = vec![];
    let n = &v.issuer_n;
    for (path, val) in int_leaves(&v.proof) {
        if path.ends_with("/challenge") {
            out.push((path, val));
        } else if path.ends_with("/C") {
            out.push((format!("{} mod 2^128", path), val.clone().keep_bits(128)));
            out.push((path, val));
        }
    }
    let root = &v.proof["CL03"];
    let mut nisp2 = |label: String, node: &Value, g1: &Integer, h1: &Integer, modn: &Integer| -> Result<(), String> {
        let (t, s1, s2) = (int_of(&node["value"]["t"]).ok_or("t")?, int_of(&node["value"]["s1"]).ok_or("s1")?, int_of(&node["value"]["s2"]).ok_or("s2")?);
        let cv = int_of(&node["commitment"]["value"]).ok_or("commitment")?;
        let c = h_int(g1.to_string() + &h1.to_string() + &cv.to_string() + &t.to_string());
        let lhs = pow(g1, &s1, modn) * pow(h1, &s2, modn) % modn;
        let rhs = t * pow(&cv, &c, modn) % modn;
        if lhs != rhs {
            return Err(format!("recomputed challenge of {} does not satisfy the verification equation", label));
        }
        out.push((format!("{} (recomputed)", label), c));
        Ok(())
    };
    if v.kind.starts_with("issuance") {
        for (k, &i) in v.hidden.iter().enumerate() {
            nisp2(format!("/CL03/proofs_commited_mi/{}", k), &root["proofs_commited_mi"][k], &v.a_bases[i], &v.b, n)?;
        }
        nisp2("/CL03/proof_r".into(), &root["proof_r"], &v.a_bases[0], &v.b, n)?;
        // multi-secret proof over C
        let ms = &root["proof_commited_msgs"];
        let t = int_of(&ms["t"]).ok_or("t")?;
        let idx: Vec<usize> = if v.n_attr == 1 { vec![0] } else { v.hidden.clone() };
        let mut s = String::new();
        for &i in &idx {
            s += &v.a_bases[i].to_string();
        }
        let cval = v.c_value.clone().ok_or("C")?;
        let c = h_int(s + &v.b.to_string() + &cval.to_string() + &t.to_string());
        let mut lhs = Integer::from(1);
        for (k, &i) in idx.iter().enumerate() {
            lhs = lhs * pow(&v.a_bases[i], &int_of(&ms["s1"][k]).ok_or("s1")?, n) % n;
        }
        lhs = lhs * pow(&v.b, &int_of(&ms["s2"]).ok_or("s2")?, n) % n;
        if lhs != t * pow(&cval, &c, n) % n {
            return Err("recomputed challenge of the multi-secret proof does not satisfy the verification equation".into());
        }
        out.push(("/CL03/proof_commited_msgs (recomputed)".into(), c));
    } else {
        for (k, &i) in v.hidden.iter().enumerate() {
            nisp2(format!("/CL03/proofs_commited_mi/{}", k), &root["proofs_commited_mi"][k], &v.g_bases[i], &v.cpk_h, n)?;
        }
    }
    out.retain(|c| c.1 != 0);
    Ok(out)
}

const T_SEC: u32 = 128;
const L_SEC: u32 = 40;

/// (aa, bb, T) of the tolerance proof for the interval [a, b]
fn tolerance_params(a: &Integer, b: &Integer) -> (Integer, Integer, u32) {
    let w = (b - a).complete();
    let t_big = 2 * (T_SEC + L_SEC + 1) + w.significant_bits();
    let off = Integer::from(2).pow(L_SEC + T_SEC + t_big / 2 + 1) * w.sqrt();
    (Integer::from(2).pow(t_big) * a - &off, Integer::from(2).pow(t_big) * b + &off, t_big)
}

fn far(a: &Integer, b: &Integer) -> bool {
    (a - b).complete().significant_bits() >= 65
}

/// The second parts of the square decompositions inside every embedded range proof, recomputed by the witness
/// holder: x_a = 2^T x - aa, x_b = bb - 2^T x, x_*_2 = x_* - floor(sqrt(x_*))^2.  `E_a_2` / `E_b_2` must not be the
/// bare powers g^(x_a_2) / g^(x_b_2): without the h-part a recipient confirms a guessed committed value by
/// recomputing that power.  Returns (range proof path, field) of the first bare power.
pub fn unblinded_range_parts(v: &View, lm: u32, le: u32, ln: u32) -> Option<(String, &'static str)> {
    let iv_x = (Integer::from(0), Integer::from(2).pow(lm) - 1u32);
    let iv_e = (Integer::from(2).pow(le - 1) + 1u32, Integer::from(2).pow(le) - 1u32);
    let iv_r = (Integer::from(0), Integer::from(2).pow(ln) - 1u32);
    let secret_named = |needle: &str| v.secrets.iter().find(|s| s.0.contains(needle)).map(|s| s.1.clone());
    // (path, interval, committed value, base g)
    let mut rps: Vec<(String, (Integer, Integer), Integer, Integer)> = vec![];
    if v.kind.starts_with("issuance") {
        for (k, (i, val)) in v.hidden_vals.iter().enumerate() {
            rps.push((format!("/CL03/range_proofs_mi/{}", k), iv_x.clone(), val.clone(), v.a_bases.get(*i)?.clone()));
        }
        if let Some(r) = secret_named("randomness r of the commitment C") {
            rps.push(("/CL03/range_proof_r".into(), iv_r, r, v.a_bases.first()?.clone()));
        }
    } else {
        if let Some(e) = secret_named("signature exponent e") {
            rps.push(("/CL03/range_proof_e".into(), iv_e, e, v.g_bases.first()?.clone()));
        }
        for (k, (i, val)) in v.hidden_vals.iter().enumerate() {
            rps.push((format!("/CL03/range_proofs_commited_mi/{}", k), iv_x.clone(), val.clone(), v.g_bases.get(*i)?.clone()));
        }
    }
    let n = &v.issuer_n;
    for (path, (a, b), x, g) in &rps {
        let Some(node) = v.proof.pointer(path) else { continue };
        let (aa, bb, t_big) = tolerance_params(a, b);
        let xs: Integer = (x.clone() << t_big).into();
        let (xa, xb) = ((&xs - &aa).complete(), (&bb - &xs).complete());
        if xa < 0 || xb < 0 {
            continue;
        }
        let xa2: Integer = &xa - xa.clone().sqrt().square();
        let xb2: Integer = &xb - xb.clone().sqrt().square();
        for (field, x2) in [("E_a_2", xa2), ("E_b_2", xb2)] {
            if let Some(e2) = int_of(&node["proof_of_tolerance"][field]) {
                if e2 == pow(g, &x2, n) {
                    return Some((path.clone(), field));
                }
            }
        }
    }
    None
}

/// Lengths of the fields that belong to the k-th hidden attribute, collected over the whole run separately for
/// small attribute values (below 2^64) and full-size ones: (min, max, count) of the bit length per (kind, field).
/// A blinding value sized from the secret it hides makes the length of the response follow the size of the
/// attribute - visible to the recipient without any computation.
type LenStat = std::collections::BTreeMap<(String, String), [(u32, u32, u32); 2]>;
static FIELD_LENGTHS: std::sync::Mutex<Option<LenStat>> = std::sync::Mutex::new(None);

pub fn record_lengths(v: &View) {
    let mut g = FIELD_LENGTHS.lock().unwrap();
    let st = g.get_or_insert_with(LenStat::new);
    let prefixes: &[&str] = if v.kind.starts_with("issuance") { &["/CL03/proofs_commited_mi/", "/CL03/range_proofs_mi/"] } else { &["/CL03/proofs_commited_mi/", "/CL03/range_proofs_commited_mi/"] };
    for (path, val) in int_leaves(&v.proof) {
        for pre in prefixes {
            let Some(rest) = path.strip_prefix(pre) else { continue };
            let Some((k, tail)) = rest.split_once('/') else { continue };
            let Ok(k) = k.parse::<usize>() else { continue };
            // group elements (commitments) have the length of the modulus whatever they commit to
            if tail.ends_with("/E") || tail.ends_with("value") && tail.contains("commitment") || tail.starts_with("E") || tail.contains("/E_") || tail.ends_with("/F") {
                continue;
            }
            let Some((_, m)) = v.hidden_vals.get(k) else { continue };
            let class = if m.significant_bits() <= 64 { 0 } else if m.significant_bits() >= 200 { 1 } else { continue };
            let e = st.entry((v.kind.to_string(), format!("{}*/{}", pre, tail))).or_insert([(u32::MAX, 0, 0); 2]);
            let b = val.significant_bits();
            e[class] = (e[class].0.min(b), e[class].1.max(b), e[class].2 + 1);
        }
    }
}

/// judged once at the end of the run: no field is always at least 24 bits shorter for small attributes
pub fn judge_lengths() -> Result<u64, (String, String)> {
    let g = FIELD_LENGTHS.lock().unwrap();
    let mut judged = 0u64;
    if let Some(st) = g.as_ref() {
        for ((kind, field), [small, full]) in st.iter() {
            if small.2 >= 4 && full.2 >= 4 {
                judged += 1;
                if small.1 + 24 < full.0 {
                    return Err((
                        format!("field-length-follows-the-attribute-size:{}:{}", kind, field),
                        format!("{}: over the run, {} has {}..{} bits when the hidden attribute it belongs to is below 2^64 ({} proofs) and {}..{} bits when it is a full-size value ({} proofs): the recipient reads the size of the hidden attribute off the proof", kind, field, small.0, small.1, small.2, full.0, full.1, full.2),
                    ));
                }
            }
        }
    }
    Ok(judged)
}

pub fn check_view<CS: CLCiphersuite>(rep: &Report, ck: &str, c: &Case, v: &View) -> CheckResult {
    record_lengths(v);
    let cj = |d: Value| json!({"case": c, "kind": v.kind, "hidden": v.hidden, "detail": d});
    let chals = match public_challenges(v) {
        Ok(c) => c,
        Err(e) => {
            out(&format!("INCONCLUSIVE property=C19 {}", e));
            std::process::exit(2);
        }
    };
    let leaves = int_leaves(&v.proof);
    let secrets = &v.secrets;
    let mut n_div = 0u64;
    // (0) targeted pairs: the response that answers for hidden attribute m_i divided by its own challenge.
    // Sound for ANY attribute value (0 and 1 included): a properly blinded response has a quotient of the
    // size of blinding / challenge, far above 2^64.
    {
        let find = |needle: &str| chals.iter().find(|c| c.0.starts_with(needle)).map(|c| c.1.clone());
        let root = &v.proof["CL03"];
        let mut targeted: Vec<(String, Integer, Option<Integer>, Integer)> = vec![]; // (response path, response, challenge, secret)
        for (k, (_, m)) in v.hidden_vals.iter().enumerate() {
            if v.kind.starts_with("issuance") {
                let kk = if v.n_attr == 1 { 0 } else { k };
                if let Some(s) = int_of(&root["proof_commited_msgs"]["s1"][kk]) {
                    targeted.push((format!("/CL03/proof_commited_msgs/s1/{}", kk), s, find("/CL03/proof_commited_msgs (recomputed)"), m.clone()));
                }
                if let Some(s) = int_of(&root["proofs_commited_mi"][k]["value"]["s1"]) {
                    targeted.push((format!("/CL03/proofs_commited_mi/{}/value/s1", k), s, find(&format!("/CL03/proofs_commited_mi/{} (recomputed)", k)), m.clone()));
                }
                if let Some(s) = int_of(&root["proof_C_Ctrusted"]["d"][k]) {
                    targeted.push((format!("/CL03/proof_C_Ctrusted/d/{}", k), s, find("/CL03/proof_C_Ctrusted/challenge"), m.clone()));
                }
            } else {
                if let Some(s) = int_of(&root["spok"]["s_5"][k]) {
                    targeted.push((format!("/CL03/spok/s_5/{}", k), s, find("/CL03/spok/challenge"), m.clone()));
                }
                if let Some(s) = int_of(&root["proofs_commited_mi"][k]["value"]["s1"]) {
                    targeted.push((format!("/CL03/proofs_commited_mi/{}/value/s1", k), s, find(&format!("/CL03/proofs_commited_mi/{} (recomputed)", k)), m.clone()));
                }
            }
        }
        if targeted.len() < v.hidden_vals.len() * 2 {
            out(&format!("INCONCLUSIVE property=C19 only {} targeted responses found for {} hidden attributes (proof layout changed?)", targeted.len(), v.hidden_vals.len()));
            std::process::exit(2);
        }
        for (sp, s, ch, m) in &targeted {
            let Some(ch) = ch else {
                out(&format!("INCONCLUSIVE property=C19 no challenge found for {}", sp));
                std::process::exit(2);
            };
            n_div += 1;
            let q = (s / ch).complete();
            if !far(&q, m) {
                return rep.fail(
                    ck,
                    &format!("quotient-reveals-secret:{}:{}/own-challenge", v.kind, generic_path(sp)),
                    format!("{}: floor({} / its challenge) = {} differs from the hidden attribute ({}) by less than 2^64 - the response is not masked", v.kind, sp, short(&q), short(m)),
                    cj(json!({"response": sp, "attribute": m.to_string()})),
                );
            }
        }
        rep.class_n("targeted-response/challenge-pairs", targeted.len() as u64);
    }
    // (0b) a response whose blinding term is 0 or 1 is a multiple of its challenge (plus 1): a test that needs
    // no knowledge of the secret, so it also covers the commitments made inside proof generation.
    // For honest responses the probability is 1 / challenge.
    for (sp, s) in &leaves {
        if s.significant_bits() < 300 {
            continue;
        }
        for (cp, ch) in &chals {
            if ch.significant_bits() < 100 || ch >= s {
                continue;
            }
            n_div += 1;
            let r = (s % ch).complete();
            if r == 0 || r == 1 {
                return rep.fail(
                    ck,
                    &format!("unblinded-response:{}:{}", v.kind, generic_path(sp)),
                    format!("{}: {} = {} (mod {}): the blinding term of this response is {}", v.kind, sp, r, cp, r),
                    cj(json!({"response": sp, "challenge": cp})),
                );
            }
        }
    }
    let small_secrets = secrets.iter().any(|s| s.1.significant_bits() < 200);
    // (1) response / challenge over ALL leaves - only meaningful for high-entropy secrets
    for (sp, s) in &leaves {
        if small_secrets {
            break;
        }
        if *s <= 0 {
            continue;
        }
        for (cp, ch) in &chals {
            if ch > s {
                continue;
            }
            let q = (s / ch).complete();
            n_div += 1;
            for (name, x) in secrets {
                if !far(&q, x) {
                    return rep.fail(
                        ck,
                        &format!("quotient-reveals-secret:{}:{}/challenge", v.kind, generic_path(sp)),
                        format!("{}: floor({} / {}) differs from the {} by {} only", v.kind, sp, cp, name, (&q - x).complete()),
                        cj(json!({"response": sp, "challenge": cp, "secret": name})),
                    );
                }
            }
        }
    }
    // (2) response / response
    for (sp, s) in &leaves {
        if small_secrets {
            break;
        }
        if *s <= 0 {
            continue;
        }
        for (tp, t) in &leaves {
            if *t <= 1 || t > s || sp == tp {
                continue;
            }
            let q = (s / t).complete();
            n_div += 1;
            for (name, x) in secrets {
                if !far(&q, x) {
                    return rep.fail(
                        ck,
                        &format!("quotient-reveals-secret:{}:{}/{}", v.kind, generic_path(sp), generic_path(tp)),
                        format!("{}: floor({} / {}) differs from the {} by {} only", v.kind, sp, tp, name, (&q - x).complete()),
                        cj(json!({"response": sp, "divisor": tp, "secret": name})),
                    );
                }
            }
        }
    }
    rep.eval(ck, n_div);
    // (2b) two responses sharing their blinding under two challenges: (s - s')/(c - c') is the secret
    {
        let cs: Vec<Integer> = chals.iter().map(|c| c.1.clone()).collect();
        let sv: Vec<Integer> = secrets.iter().map(|s| s.1.clone()).filter(|x| x.significant_bits() >= 200).collect();
        rep.eval(ck, 1);
        if let Some((p1, p2, si)) = c17::attack_difference_quotient(&v.proof, &cs, &sv) {
            return rep.fail(
                ck,
                &format!("difference-quotient-yields-secret:{}:{}:{}", v.kind, generic_path(&p1), generic_path(&p2)),
                format!("{}: ({} - {}) / (c - c') equals a secret (index {}): shared blinding under two challenges", v.kind, p1, p2, si),
                cj(json!({"s": p1, "s_prime": p2})),
            );
        }
    }
    // (3a) range proofs: the commitments to the second parts of the square decompositions carry their h-part
    rep.eval(ck, 1);
    if let Some((path, field)) = unblinded_range_parts(v, CS::lm, CS::le, CS::ln) {
        return rep.fail(
            ck,
            &format!("range-proof-part-not-blinded:{}:{}:{}", v.kind, generic_path(&path), field),
            format!("{}: {}/proof_of_tolerance/{} is the bare power g^x of the second part of the square decomposition of the committed value: a recipient confirms a guessed value by recomputing it", v.kind, path, field),
            cj(json!({"range_proof": path, "field": field})),
        );
    }
    // (3) range proofs: the responses answer for the square roots of (2^T x - aa) and (bb - 2^T x)
    let lm = CS::lm;
    let le = CS::le;
    let ln = CS::ln;
    let iv_x = (Integer::from(0), Integer::from(2).pow(lm) - 1u32);
    let iv_e = (Integer::from(2).pow(le - 1) + 1u32, Integer::from(2).pow(le) - 1u32);
    let iv_r = (Integer::from(0), Integer::from(2).pow(ln) - 1u32);
    let secret_named = |needle: &str| secrets.iter().find(|s| s.0.contains(needle)).map(|s| s.1.clone());
    let mut rps: Vec<(String, (Integer, Integer), Option<Integer>)> = vec![];
    let root = &v.proof["CL03"];
    if v.kind.starts_with("issuance") {
        for (k, (_, val)) in v.hidden_vals.iter().enumerate() {
            rps.push((format!("/CL03/range_proofs_mi/{}", k), iv_x.clone(), Some(val.clone())));
        }
        rps.push(("/CL03/range_proof_r".into(), iv_r.clone(), secret_named("randomness r of the commitment C")));
    } else {
        rps.push(("/CL03/range_proof_e".into(), iv_e.clone(), secret_named("signature exponent e")));
        for (k, (_, val)) in v.hidden_vals.iter().enumerate() {
            rps.push((format!("/CL03/range_proofs_commited_mi/{}", k), iv_x.clone(), Some(val.clone())));
        }
    }
    let _ = root;
    for (path, (a, b), committed) in &rps {
        let Some(node) = v.proof.pointer(path) else {
            return rep.fail(ck, "range-proof-missing", format!("{} not found in the serialised proof", path), cj(json!(null)));
        };
        let Some(x) = committed else { continue };
        let (aa, bb, t_big) = tolerance_params(a, b);
        for which in ["proof_of_square_a", "proof_of_square_b"] {
            let ss = &node["proof_of_tolerance"][which]["proof_ss"];
            let (Some(d), Some(ch)) = (int_of(&ss["d"]), int_of(&ss["challenge"])) else { continue };
            if ch == 0 {
                continue;
            }
            let q = (&d / &ch).complete();
            let q2 = q.clone().square();
            let xa = ((&q2 + &aa).complete()) >> t_big;
            let xb = ((&bb - &q2).complete()) >> t_big;
            rep.eval(ck, 2);
            for (nm, xh) in [("floor((floor(d/c)^2 + aa) / 2^T)", xa), ("floor((bb - floor(d/c)^2) / 2^T)", xb)] {
                if !far(&xh, x) {
                    return rep.fail(
                        ck,
                        &format!("range-proof-response-reveals-committed-value:{}:{}", v.kind, generic_path(path)),
                        format!("{}: {} over {}/proof_of_tolerance/{}/proof_ss returns the committed value up to {}", v.kind, nm, path, which, (&xh - x).complete()),
                        cj(json!({"range_proof": path, "square_proof": which})),
                    );
                }
            }
        }
    }
    rep.nontrivial(ck, c);
    rep.class(&format!("kind:{}", v.kind));
    rep.class(&format!("n={},|U|={}", v.n_attr, v.hidden.len()));
    rep.class_n("challenges-recomputed-and-validated", chals.iter().filter(|c| c.0.contains("recomputed")).count() as u64);
    rep.sample(ck, json!({"kind": v.kind, "n": v.n_attr, "hidden": v.hidden, "integer_leaves": leaves.len(), "challenges": chals.len(), "quotients": n_div}));
    Ok(())
}

/// positive control: a response built with an under-sized blinding must be flagged
fn self_test() -> Result<(), String> {
    let mut st = 5u64;
    let m = attr_random(&mut st);
    let c = crate::clmath::int_from_seed(&mut st, 256);
    let r = crate::clmath::int_from_seed(&mut st, 256);
    let s: Integer = &r + (&c * &m).complete();
    let q = (&s / &c).complete();
    if far(&q, &m) {
        return Err("the division test misses an under-blinded response".into());
    }
    let r2 = crate::clmath::int_from_seed(&mut st, 256 + 256 + 80);
    let s2: Integer = &r2 + (&c * &m).complete();
    if !far(&(&s2 / &c).complete(), &m) {
        return Err("the division test flags a properly blinded response".into());
    }
    Ok(())
}

pub fn run(ctx: &Ctx, rep: &Report) -> Meta {
    if let Err(e) = self_test() {
        out(&format!("INCONCLUSIVE property=C19 self-test failed: {}", e));
        std::process::exit(2);
    }
    // another (smaller) ciphersuite is used first in this process; its proofs are not judged
    rep.note(format!("a complete run under a 512-bit parameter set declared through CLCiphersuite preceded the judged proofs (went through: {})", other_suite_first()));
    let sh = c17::shared(ctx, true);
    let nmax = ctx.tier.pick(3usize, 5usize);
    let fixed = c17::fixed_cases(ctx, nmax);
    let one = |rep: &Report, ck: &str, c: &Case| -> CheckResult {
        match c17::view_or_skip::<CL1024Sha256>(rep, ck, c, &sh)? {
            Some(v) => check_view::<CL1024Sha256>(rep, ck, c, &v),
            None => Ok(()),
        }
    };
    par_items(ctx, rep, "every-hidden-set", &fixed, |c| one(rep, "every-hidden-set", c));
    run_cases(ctx, rep, "generated", ctx.tier.pick(64, 600), 20, || c17::strat(nmax.max(4)), |c| one(rep, "generated", c));
    // small attribute values (0 and 1) at hidden positions: targeted pairs and the range-proof inverse map only
    let small: Vec<Case> = fixed
        .iter()
        .enumerate()
        .map(|(k, c)| {
            let mut c2 = c.clone();
            if !c.hidden_list.is_empty() || c.hidden_mask == 0 {
                return c2;
            }
            c2.small_mask = if k % 3 == 0 { c.hidden_mask } else { c.hidden_mask & (0b10101 >> (k % 2)) | (1 << (c.hidden_mask.trailing_zeros())) };
            c2.seed = c.seed.wrapping_add(1000 + k as u32);
            c2
        })
        .collect();
    par_items(ctx, rep, "small-attributes", &small, |c| one(rep, "small-attributes", c));
    // long-lived prover threads: many proofs generated one after the other on the same thread (state that
    // accumulates per thread - counters, buffers, re-keying - is reached only this way), each one judged
    let per_thread = ctx.tier.pick(36usize, 200usize);
    let jobs: Vec<usize> = (0..ctx.tier.pick(6usize, 12usize)).collect();
    par_items(ctx, rep, "long-lived-prover-thread", &jobs, |&j| {
        // bring any per-thread counter of the library's generator close to a power of two, differently on every
        // thread: the number of 32-bit words drawn so far is put ~300 below 2^16, 2^17 (= 2^16 64-bit words), 2^15,
        // 2^18, 2^20 and 2^14 (= 2^16 octets), so that the boundary is crossed while the first proofs are generated
        {
            let target: u64 = [(1u64 << 16) - 300, (1 << 17) - 600, (1 << 15) - 300, (1 << 18) - 300, (1 << 20) - 300, (1 << 14) - 100][j % 6];
            let mut left = target;
            while left > 0 {
                let w = left.min(1000);
                let _ = zkryptium::utils::random::random_bits(32 * w as u32);
                left -= w;
            }
            for _ in 0..j * 3 {
                let _ = zkryptium::utils::random::random_bits(1 + (j as u32 * 101) % 1500);
            }
        }
        let mut st = ctx.seed ^ (0x10_0000 + j as u64);
        for k in 0..per_thread {
            if rep.aborted() {
                break;
            }
            let n = 1 + (crate::gen::splitmix(&mut st) % 3) as usize;
            let hm = 1 + (crate::gen::splitmix(&mut st) as usize % ((1 << n) - 1)) as u8;
            let c = Case { key: crate::gen::splitmix(&mut st) as u16, n, hidden_mask: hm, kind: [2u8, 0, 2, 1][k % 4], seed: crate::gen::splitmix(&mut st) as u32, small_mask: if k % 5 == 4 { hm } else { 0 }, hidden_list: vec![], spare: (k % 3) as u8, eq_hidden: k % 7 == 3 };
            one(rep, "long-lived-prover-thread", &c)?;
        }
        rep.class_n("proofs-generated-on-long-lived-threads", per_thread as u64);
        Ok(())
    });
    // run-level statistic: field lengths must not follow the size of the hidden attribute
    if !rep.aborted() {
        match judge_lengths() {
            Ok(n) => rep.note(format!("length statistic: {} (kind, field) pairs compared between small and full-size hidden attributes", n)),
            Err((site, msg)) => rep.add_violation(Fail { check: "field-lengths".into(), site, msg, case: json!({"statistic": "field lengths over the run"}) }),
        }
    }
    // larger suites after the CL1024 proofs of this process (quick: two CL2048 proofs): the order "smaller suite
    // first" is the one in which state sized by the first suite is too small for the next
    if !rep.aborted() {
        let later: Vec<(ClSuite, usize, u32)> = if ctx.tier == Tier::Thorough { vec![(ClSuite::CL2048, 2, 12), (ClSuite::CL3072, 2, 12)] } else { vec![(ClSuite::CL2048, 1, 0)] };
        for (s2, nfix, ncases) in later {
            let keys = key_pool(s2, 0, nfix, ctx.seed);
            if keys.is_empty() {
                continue;
            }
            let sh2 = c17::Shared { keys, tp: None };
            let ckn = format!("generated-{}", s2.name());
            let judge = |c: &Case| {
                with_cl!(s2, CS => match build_view::<CS>(c, &sh2) {
                    Ok(v) => check_view::<CS>(rep, &ckn, c, &v),
                    Err(e) => rep.fail(&ckn, "honest-generation-failed", e, json!({"case": c})),
                })
            };
            // one signature proof and one issuance proof for certain, then generated ones
            let fixed2 = [
                Case { key: 0, n: 2, hidden_mask: 0b01, kind: 2, seed: (ctx.seed as u32) ^ 0x2048, small_mask: 0, hidden_list: vec![], spare: 0, eq_hidden: false },
                Case { key: 0, n: 2, hidden_mask: 0b10, kind: 0, seed: (ctx.seed as u32) ^ 0x2049, small_mask: 0, hidden_list: vec![], spare: 1, eq_hidden: false },
            ];
            par_items(ctx, rep, &ckn, &fixed2, |c| judge(c));
            run_cases(ctx, rep, &ckn, ncases, 5, || c17::strat(3), |c| judge(c));
        }
    }
    Meta {
        rule: "honest issuance proofs (with / without trusted commitment) and signature proofs for EVERY non-empty hidden set (n = 1..3 quick / 1..5 thorough) plus generated cases, issuance proofs whose hidden positions are listed in descending / mixed order (judged when the library goes through with that spelling), high-entropy 256-bit attributes, issuers with 0..3 more bases than attributes, a third of the generations right after a refused request (hidden position out of range) on the same thread; \
               attacker program: every Fiat-Shamir challenge recomputable from public data (stored ones, C and C mod 2^128 of the interval proofs, and the (t, s1, s2) proofs' challenges recomputed as the verifier does and validated against the verification equation); \
               no response is congruent to 0 or 1 modulo a challenge (unblinded response, no secret needed); for every integer leaf s, every such challenge c and every other leaf s': | floor(s/c) - x | >= 2^64 and | floor(s/s') - x | >= 2^64 for every secret x the prover holds (hidden attributes, e, s, the randomness of C and of the trusted commitment); \
               additionally, with hidden attributes forced to 0 / 1, the response answering for each hidden attribute divided by its own challenge (sound for small values); for every square proof of every embedded range proof the public inverse map floor((floor(d/c)^2 + aa)/2^T), floor((bb - floor(d/c)^2)/2^T) must be >= 2^64 away from the committed value (hidden attribute, e, r); \
               the commitments E_a_2 / E_b_2 of every embedded range proof are not the bare powers g^x of the recomputed second parts; over the whole run, no field that belongs to a hidden attribute is always at least 24 bits shorter when that attribute is below 2^64 than when it is a full-size value; long-lived prover threads generate 36 (quick) / 200 (thorough) proofs each in sequence, every one judged, after the thread has drawn a number of words just below 2^14 ... 2^20 (a different power of two per thread); positive control: an under-blinded response is flagged, a properly blinded one is not; non-trivial = proof with >= 1 hidden attribute; evaluations = quotients judged"
            .into(),
        assumptions: vec![
            "randomness of the commitments made inside proof generation (rx, rw, re, w, r_i) is not known to the harness and is judged only where the division yields a known secret".into(),
            "secrets are >= 256-bit uniform values: a near hit by chance has probability < 2^-190".into(),
        ],
    }
}

pub fn replay(ctx: &Ctx, rep: &Report, ck: &str, case: &Value) -> CheckResult {
    if ck == "field-lengths" {
        // the statistic is over a run: generate small-attribute and full-size cases again and judge
        let sh = c17::shared(ctx, false);
        for k in 0..24u32 {
            let c = Case { key: k as u16, n: 2, hidden_mask: 0b11, kind: if k % 2 == 0 { 2 } else { 0 }, seed: 900 + k, small_mask: if k % 4 < 2 { 0b11 } else { 0 }, hidden_list: vec![], spare: 0, eq_hidden: false };
            if let Ok(v) = build_view::<CL1024Sha256>(&c, &sh) {
                record_lengths(&v);
            }
        }
        return match judge_lengths() {
            Ok(_) => Ok(()),
            Err((site, msg)) => Err(Fail { check: ck.into(), site, msg, case: case.clone() }),
        };
    }
    let c: Case = serde_json::from_value(case["case"].clone()).map_err(|e| Fail { check: ck.into(), site: "replay-parse".into(), msg: e.to_string(), case: case.clone() })?;
    let sh = c17::shared(ctx, c.kind % 3 == 1);
    match c17::view_or_skip::<CL1024Sha256>(rep, ck, &c, &sh)? {
        Some(v) => check_view::<CL1024Sha256>(rep, ck, &c, &v),
        None => Ok(()),
    }
}
