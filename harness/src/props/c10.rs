//! C10 — every deterministic BBS operation matches the drafts (differential against the
//! reference model), every verifier decision equals the reference's, also under thread schedules.

use crate::bbs::*;
use crate::engine::*;
use crate::gen::*;
use crate::props::c04::scalar_from_seed;
use crate::refimpl::{self, Ref};
use crate::with_suite;
use bls12_381_plus::group::Curve;
use bls12_381_plus::{G1Projective, G2Projective, Scalar};
use proptest::prelude::*;
use serde::{Deserialize, Serialize};
use serde_json::{json, Value};
use zkryptium::utils::message::bbsplus_message::BBSplusMessage;
use zkryptium::utils::util::bbsplus_utils::hash_to_scalar;

#[derive(Clone, Debug, PartialEq, Eq, Serialize, Deserialize)]
pub enum ApiSel {
    None,
    Empty,
    Plain,
    Blind,
    BlindPrefixed,
    Ascii(BSpec),
}

impl ApiSel {
    fn bytes<CS: BbsCiphersuite>(&self) -> Option<Vec<u8>> {
        match self {
            ApiSel::None => None,
            ApiSel::Empty => Some(vec![]),
            ApiSel::Plain => Some(CS::API_ID.to_vec()),
            ApiSel::Blind => Some(CS::API_ID_BLIND.to_vec()),
            ApiSel::BlindPrefixed => Some([b"BLIND_", CS::API_ID_BLIND].concat()),
            ApiSel::Ascii(b) => Some(b.bytes()),
        }
    }
}

fn api_sel() -> impl Strategy<Value = ApiSel> {
    prop_oneof![
        Just(ApiSel::None),
        Just(ApiSel::Empty),
        Just(ApiSel::Plain),
        Just(ApiSel::Blind),
        Just(ApiSel::BlindPrefixed),
        bspec_from(&[1, 7, 20, 40], &[3]).prop_map(ApiSel::Ascii),
    ]
}

#[derive(Clone, Debug, PartialEq, Eq, Serialize, Deserialize)]
pub enum Mutn {
    None,
    MsgEdit(u16),
    MsgDrop(u16),
    MsgAdd,
    HeaderEdit,
    PhEdit,
    PkOther,
    BitFlip(u16),
    IndexShift(u16),
    ScalarAppend,
    ScalarDrop(u16),
    ZeroScalar(u16),
    IdentityPoint(u16),
    TrailingByte,
    LPlus,
    LMinus,
    BlindOther,
    /// an artefact assembled without the secret key around the identity element: a proof with Abar = Bbar = O,
    /// D = k*Bv and responses that cancel the recomputation; a signature under the identity public key
    /// (secret key 0).  The draft's decoders refuse both.
    ForgedIdentity(u16),
    /// one scalar of the artefact written as value + r (the same residue, not a canonical encoding)
    ScalarPlusR(u16),
    /// one more disclosed message than indexes
    MsgSurplus,
    /// one more index than disclosed messages
    IndexSurplus(u16),
    /// a second (index, message) entry under an index that is already listed
    IndexRepeat(u16),
}

fn mutn() -> impl Strategy<Value = Mutn> {
    prop_oneof![
        4 => Just(Mutn::None),
        2 => any::<u16>().prop_map(Mutn::MsgEdit),
        1 => any::<u16>().prop_map(Mutn::MsgDrop),
        1 => Just(Mutn::MsgAdd),
        1 => Just(Mutn::HeaderEdit),
        1 => Just(Mutn::PhEdit),
        1 => Just(Mutn::PkOther),
        3 => any::<u16>().prop_map(Mutn::BitFlip),
        1 => any::<u16>().prop_map(Mutn::IndexShift),
        1 => Just(Mutn::ScalarAppend),
        1 => any::<u16>().prop_map(Mutn::ScalarDrop),
        1 => any::<u16>().prop_map(Mutn::ZeroScalar),
        1 => any::<u16>().prop_map(Mutn::IdentityPoint),
        1 => Just(Mutn::TrailingByte),
        1 => Just(Mutn::LPlus),
        1 => Just(Mutn::LMinus),
        1 => Just(Mutn::BlindOther),
        2 => any::<u16>().prop_map(Mutn::ScalarPlusR),
        2 => any::<u16>().prop_map(Mutn::ForgedIdentity),
        1 => Just(Mutn::MsgSurplus),
        1 => any::<u16>().prop_map(Mutn::IndexSurplus),
        2 => any::<u16>().prop_map(Mutn::IndexRepeat),
    ]
}

#[derive(Clone, Debug, Serialize, Deserialize)]
pub enum Op {
    KeyGen { suite: SuiteId, ikm: BSpec, key_info: OptBytes, key_dst: OptBytes },
    Generators { suite: SuiteId, counts: Vec<usize>, api: ApiSel },
    H2s { suite: SuiteId, msg: BSpec, dst: BSpec },
    MsgScalars { suite: SuiteId, msgs: MsgVec, api: ApiSel },
    Sign { suite: SuiteId, key: KeySpec, header: OptBytes, msgs: MsgVec },
    Verify { suite: SuiteId, key: KeySpec, header: OptBytes, msgs: MsgVec, m: Mutn },
    Proof { suite: SuiteId, key: KeySpec, header: OptBytes, ph: OptBytes, msgs: MsgVec, mask: u32, by_ref: bool, seed: u32, m: Mutn },
    Blind { suite: SuiteId, key: KeySpec, header: OptBytes, ph: OptBytes, msgs: MsgVec, committed: MsgVec, mask: u32, cmask: u32, by_ref: bool, seed: u32, m: Mutn },
}

const IKM_LENS_ALL: &[usize] = &[0, 1, 16, 31, 32, 33, 48, 64, 100, 200];
const KEYINFO_LENS_ALL: &[usize] = &[1, 16, 255, 256, 65535, 65536];
const KEYDST_LENS_ALL: &[usize] = &[1, 16, 55, 254, 255, 256, 300];
const DST_LENS: &[usize] = &[0, 1, 16, 48, 254, 255, 256, 400];

fn op_strat(tier: Tier) -> impl Strategy<Value = Op> {
    let maxc = tier.pick(64usize, 1100usize);
    let small_counts: &'static [usize] = &[0, 1, 2, 3, 5, 9, 10, 11, 16, 17, 21, 33];
    prop_oneof![
        2 => (suite(), bspec_from(IKM_LENS_ALL, &[0, 0, 1, 2]), opt_bytes(KEYINFO_LENS_ALL),
              prop_oneof![3 => Just(OptBytes::None), 1 => Just(OptBytes::Empty), 3 => bspec_from(KEYDST_LENS_ALL, &[0, 3]).prop_map(OptBytes::Bytes)])
            .prop_map(|(suite, ikm, key_info, key_dst)| Op::KeyGen { suite, ikm, key_info, key_dst }),
        2 => (suite(), prop::collection::vec(prop_oneof![8 => 0usize..=40, 2 => 0usize..=maxc], 1..5), api_sel())
            .prop_map(|(suite, counts, api)| Op::Generators { suite, counts, api }),
        2 => (suite(), bspec_from(MSG_LENS_ALL, &[0, 1, 2, 3]), bspec_from(DST_LENS, &[0, 3]))
            .prop_map(|(suite, msg, dst)| Op::H2s { suite, msg, dst }),
        1 => (suite(), msg_vec(small_counts, MSG_LENS_ALL), api_sel()).prop_map(|(suite, msgs, api)| Op::MsgScalars { suite, msgs, api }),
        3 => (suite(), key_spec(), opt_bytes(HDR_LENS), msg_vec(small_counts, MSG_LENS_SMALL)).prop_map(|(suite, key, header, msgs)| Op::Sign { suite, key, header, msgs }),
        3 => (suite(), key_spec_simple(), opt_bytes(HDR_LENS_SMALL), msg_vec(small_counts, MSG_LENS_SMALL), mutn())
            .prop_map(|(suite, key, header, msgs, m)| Op::Verify { suite, key, header, msgs, m }),
        4 => (suite(), key_spec_simple(), opt_bytes(HDR_LENS_SMALL), opt_bytes(HDR_LENS_SMALL), msg_vec(small_counts, MSG_LENS_SMALL), any::<u32>(), any::<bool>(), any::<u32>(), mutn())
            .prop_map(|(suite, key, header, ph, msgs, mask, by_ref, seed, m)| Op::Proof { suite, key, header, ph, msgs, mask, by_ref, seed, m }),
        4 => (suite(), key_spec_simple(), opt_bytes(HDR_LENS_SMALL), opt_bytes(HDR_LENS_SMALL), msg_vec_range(0, 6, MSG_LENS_SMALL), msg_vec_range(0, 5, MSG_LENS_SMALL),
              (any::<u32>(), any::<u32>(), any::<bool>(), any::<u32>()), mutn())
            .prop_map(|(suite, key, header, ph, msgs, committed, (mask, cmask, by_ref, seed), m)| Op::Blind { suite, key, header, ph, msgs, committed, mask, cmask, by_ref, seed, m }),
    ]
}

fn big_mask(mask: u32, l: usize) -> Vec<usize> {
    // deterministic subset of 0..l from a 32-bit mask (period 32)
    (0..l).filter(|i| mask.rotate_left((*i / 32) as u32) >> (i % 32) & 1 == 1).collect()
}

type D = Result<(), (String, String)>; // (site, message)

fn cmp(site: &str, what: &str, lib: &Result<Vec<u8>, String>, rf: &Result<Vec<u8>, String>) -> D {
    match (lib, rf) {
        (Ok(a), Ok(b)) if a == b => Ok(()),
        (Err(_), Err(_)) => Ok(()),
        (Ok(a), Ok(b)) => Err((format!("output-differs:{}", site), format!("{}: library {} reference {}", what, hx(a), hx(b)))),
        (a, b) => Err((
            format!("decision-differs:{}", site),
            format!("{}: library {} reference {}", what, a.as_ref().map(|x| format!("Ok({})", hx(x))).unwrap_or_else(|e| format!("Err({})", e)), b.as_ref().map(|x| format!("Ok({})", hx(x))).unwrap_or_else(|e| format!("Err({})", e))),
        )),
    }
}

fn dec(site: &str, what: &str, lib: bool, rf: bool) -> D {
    if lib == rf {
        Ok(())
    } else {
        Err((format!("decision-differs:{}", site), format!("{}: library {} reference {}", what, if lib { "accepts" } else { "rejects" }, if rf { "accepts" } else { "rejects" })))
    }
}

fn edit(b: &Option<Vec<u8>>) -> Option<Vec<u8>> {
    let mut v = b.clone().unwrap_or_default();
    v.push(0x5a);
    Some(v)
}

pub fn diff<CS: BbsCiphersuite>(rep: &Report, ck: &str, op: &Op) -> D {
    match op {
        Op::KeyGen { suite, ikm, key_info, key_dst } => {
            let r = Ref::new(*suite);
            let (i, ki, kd) = (ikm.bytes(), key_info.get(), key_dst.get());
            let lib = KeyPair::<BBSplus<CS>>::generate(&i, ki.as_deref(), kd.as_deref())
                .map(|kp| [kp.private_key().to_bytes().to_vec(), kp.public_key().to_bytes().to_vec()].concat())
                .map_err(|e| format!("{:?}", e));
            let rf = r.keygen(&i, ki.as_deref(), kd.as_deref()).map(|sk| [refimpl::scalar_bytes(&sk).to_vec(), refimpl::g2_bytes(&r.sk_to_pk(&sk)).to_vec()].concat()).map_err(|e| e.0.to_string());
            rep.eval(ck, 1);
            rep.class(&format!("keygen:{}", if rf.is_ok() { "Ok" } else { "Err" }));
            cmp("keygen", "KeyGen/SkToPk", &lib, &rf)
        }
        Op::Generators { suite, counts, api } => {
            let r = Ref::new(*suite);
            let a = api.bytes::<CS>();
            // a history of create() calls against the stateless reference
            for &cnt in counts {
                let lib = Generators::create::<CS>(cnt, a.as_deref());
                let mut lb = lib.g1_base_point.to_affine().to_compressed().to_vec();
                for g in &lib.values {
                    lb.extend_from_slice(&g.to_affine().to_compressed());
                }
                let rf = r.create_generators(cnt, a.as_deref().unwrap_or(b"")).map(|gs| {
                    let mut o = refimpl::g1_bytes(&r.p1()).to_vec();
                    for g in gs {
                        o.extend_from_slice(&refimpl::g1_bytes(&g));
                    }
                    o
                });
                rep.eval(ck, 1);
                if let Ok(rb) = &rf {
                    if &lb != rb {
                        let first = (0..lb.len().min(rb.len()) / 48).find(|k| lb[k * 48..(k + 1) * 48] != rb[k * 48..(k + 1) * 48]);
                        return Err(("output-differs:generators".into(), format!("create({}, {:?}): {} vs {} points, first difference at element {:?} (0 = P1)", cnt, api, lb.len() / 48, rb.len() / 48, first)));
                    }
                }
            }
            rep.class("generators-history");
            Ok(())
        }
        Op::H2s { suite, msg, dst } => {
            let r = Ref::new(*suite);
            let (m, d) = (msg.bytes(), dst.bytes());
            let lib = hash_to_scalar::<CS>(&m, &d).map(|s| s.to_be_bytes().to_vec()).map_err(|e| format!("{:?}", e));
            let rf = r.h2s(&m, &d).map(|s| refimpl::scalar_bytes(&s).to_vec()).map_err(|e| e.0.to_string());
            rep.eval(ck, 1);
            rep.class(&format!("h2s:{}", if rf.is_ok() { "Ok" } else { "Err" }));
            cmp("hash_to_scalar", "hash_to_scalar", &lib, &rf)
        }
        Op::MsgScalars { suite, msgs, api } => {
            let r = Ref::new(*suite);
            let ms = msgs.materialize();
            let a = api.bytes::<CS>().unwrap_or_default();
            let lib = BBSplusMessage::messages_to_scalar::<CS>(&ms, &a).map(|v| v.iter().flat_map(|s| s.to_bytes_be()).collect::<Vec<u8>>()).map_err(|e| format!("{:?}", e));
            let rf = r.msgs_to_scalars(&ms, &a).map(|v| v.iter().flat_map(refimpl::scalar_bytes).collect::<Vec<u8>>()).map_err(|e| e.0.to_string());
            rep.eval(ck, 1);
            cmp("messages_to_scalars", "messages_to_scalars", &lib, &rf)?;
            if let Some(m0) = ms.first() {
                let one = BBSplusMessage::map_message_to_scalar_as_hash::<CS>(m0, &a).map(|s| s.to_bytes_be().to_vec()).map_err(|e| format!("{:?}", e));
                let rf1 = r.msgs_to_scalars(&ms[..1], &a).map(|v| refimpl::scalar_bytes(&v[0]).to_vec()).map_err(|e| e.0.to_string());
                cmp("map_message_to_scalar_as_hash", "map_message_to_scalar_as_hash", &one, &rf1)?;
            }
            Ok(())
        }
        Op::Sign { suite, key, header, msgs } => {
            let r = Ref::new(*suite);
            let (ikm, ki, kd) = key_inputs(key);
            let ms = msgs.materialize();
            let h = header.get();
            let kp = KeyPair::<BBSplus<CS>>::generate(&ikm, ki.as_deref(), kd.as_deref()).map_err(|e| ("keygen".to_string(), format!("{:?}", e)))?;
            let lib = Signature::<BBSplus<CS>>::sign(Some(&ms), kp.private_key(), kp.public_key(), h.as_deref()).map(|s| s.to_bytes().to_vec()).map_err(|e| format!("{:?}", e));
            let sk = r.keygen(&ikm, ki.as_deref(), kd.as_deref()).map_err(|e| ("ref-keygen".to_string(), e.0.to_string()))?;
            let rf = r.sign(&sk, &r.sk_to_pk(&sk), h.as_deref().unwrap_or(b""), &ms).map(|s| s.to_vec()).map_err(|e| e.0.to_string());
            rep.eval(ck, 1);
            rep.class(&format!("sign:{}", bucket(ms.len())));
            cmp("sign", "Sign", &lib, &rf)
        }
        Op::Verify { suite, key, header, msgs, m } => {
            let r = Ref::new(*suite);
            let kp = keypair::<CS>(key).map_err(|e| ("keygen".to_string(), format!("{:?}", e)))?;
            let mut ms = msgs.materialize();
            let mut h = header.get();
            let sig = Signature::<BBSplus<CS>>::sign(Some(&ms), kp.private_key(), kp.public_key(), h.as_deref()).map_err(|e| ("sign".to_string(), format!("{:?}", e)))?;
            let mut sb = sig.to_bytes().to_vec();
            let mut pkb = kp.public_key().to_bytes().to_vec();
            match m {
                Mutn::MsgEdit(i) if !ms.is_empty() => {
                    let k = pick(*i, ms.len());
                    ms[k].push(1)
                }
                Mutn::MsgDrop(i) if !ms.is_empty() => {
                    let k = pick(*i, ms.len());
                    ms.remove(k);
                }
                Mutn::MsgAdd => ms.push(b"added".to_vec()),
                Mutn::HeaderEdit => h = edit(&h),
                Mutn::PkOther => pkb = KeyPair::<BBSplus<CS>>::generate(&[3u8; 32], None, None).unwrap().public_key().to_bytes().to_vec(),
                Mutn::BitFlip(b) => {
                    let bit = pick(*b, 640);
                    sb[bit / 8] ^= 1 << (bit % 8)
                }
                Mutn::ZeroScalar(_) => sb[48..].iter_mut().for_each(|x| *x = 0),
                Mutn::ForgedIdentity(_) => {
                    // anybody can sign under the identity public key: the secret key is 0
                    if let Ok(f) = r.sign(&Scalar::ZERO, &G2Projective::IDENTITY, h.as_deref().unwrap_or(b""), &ms) {
                        sb = f.to_vec();
                        pkb = vec![0u8; 96];
                        pkb[0] = 0xc0;
                    }
                }
                Mutn::ScalarPlusR(_) => {
                    if let Some(a) = plus_r(&sb[48..80]) {
                        sb[48..80].copy_from_slice(&a)
                    }
                }
                Mutn::IdentityPoint(_) => {
                    sb[..48].iter_mut().for_each(|x| *x = 0);
                    sb[0] = 0xc0
                }
                Mutn::TrailingByte => sb.push(0),
                _ => {}
            }
            let lib = (|| {
                let pk = BBSplusPublicKey::from_bytes(&pkb).ok()?;
                let s = Signature::<BBSplus<CS>>::from_bytes(&<[u8; 80]>::try_from(sb.as_slice()).ok()?).ok()?;
                s.verify(&pk, Some(&ms), h.as_deref()).ok()
            })()
            .is_some();
            let rf = r.verify(&pkb, &sb, h.as_deref().unwrap_or(b""), &ms).is_ok();
            rep.eval(ck, 1);
            rep.class(&format!("verify:{}:{}", if matches!(m, Mutn::None) { "honest" } else { "mutated" }, if rf { "accept" } else { "reject" }));
            dec("verify", &format!("verify under {:?}", m), lib, rf)?;
            // the same decoded signature object asked three times: as given, with another header, as given again
            if ms.len() % 2 == 0 {
                if let (Ok(pk2), Some(Ok(s2))) = (BBSplusPublicKey::from_bytes(&pkb), <[u8; 80]>::try_from(sb.as_slice()).ok().map(|b| Signature::<BBSplus<CS>>::from_bytes(&b))) {
                    let h_other = edit(&h);
                    for (round, hh) in [(1, &h), (2, &h_other), (3, &h)] {
                        let lib2 = s2.verify(&pk2, Some(&ms), hh.as_deref()).is_ok();
                        let rf2 = r.verify(&pkb, &sb, hh.as_deref().unwrap_or(b""), &ms).is_ok();
                        rep.eval(ck, 1);
                        dec("verify", &format!("verify on one decoded object, call {} of 3 (header {}) under {:?}", round, if round == 2 { "edited" } else { "as given" }, m), lib2, rf2)?;
                    }
                }
            }
            Ok(())
        }
        Op::Proof { suite, key, header, ph, msgs, mask, by_ref, seed, m } => {
            let r = Ref::new(*suite);
            let kp = keypair::<CS>(key).map_err(|e| ("keygen".to_string(), format!("{:?}", e)))?;
            let ms = msgs.materialize();
            let l = ms.len();
            let (mut h, mut p) = (header.get(), ph.get());
            let mut idx = big_mask(*mask, l);
            let sig = Signature::<BBSplus<CS>>::sign(Some(&ms), kp.private_key(), kp.public_key(), h.as_deref()).map_err(|e| ("sign".to_string(), format!("{:?}", e)))?.to_bytes();
            let mut st = *seed as u64 | 1 << 33;
            let mut pb = if *by_ref {
                let rnd: Vec<Scalar> = (0..5 + l - idx.len()).map(|_| scalar_from_seed(&mut st)).collect();
                r.proof_gen(&kp.public_key().0, &sig, h.as_deref().unwrap_or(b""), p.as_deref().unwrap_or(b""), &ms, &idx, &rnd).map_err(|e| ("ref-proof-gen".to_string(), e.0.to_string()))?
            } else {
                PoKSignature::<BBSplus<CS>>::proof_gen(kp.public_key(), &sig, h.as_deref(), p.as_deref(), Some(&ms), Some(&idx)).map_err(|e| ("lib-proof-gen".to_string(), format!("{:?}", e)))?.to_bytes()
            };
            let mut dm: Vec<Vec<u8>> = idx.iter().map(|&i| ms[i].clone()).collect();
            let mut pkb = kp.public_key().to_bytes().to_vec();
            match m {
                Mutn::MsgEdit(i) if !dm.is_empty() => {
                    let k = pick(*i, dm.len());
                    dm[k].push(1)
                }
                Mutn::MsgDrop(i) if !dm.is_empty() => {
                    let k = pick(*i, dm.len());
                    dm.remove(k);
                    idx.remove(k);
                }
                Mutn::MsgAdd => {
                    dm.push(b"extra".to_vec());
                    idx.push(l);
                }
                Mutn::ForgedIdentity(i) => {
                    let api = r.api_id();
                    let hb = h.clone().unwrap_or_default();
                    let phb = p.clone().unwrap_or_default();
                    if let (Ok(gens), Ok(cms)) = (r.create_generators(l + 1, &api), r.msgs_to_scalars(&dm, &api)) {
                        if let Ok(domain) = r.domain(&kp.public_key().0, &gens[0], &gens[1..], &hb, &api) {
                            let bv = r.bv(&gens, &domain, &idx, &cms);
                            let k = Scalar::from(2 + *i as u64);
                            let o = G1Projective::IDENTITY;
                            let fp = crate::props::c04::assemble(&r, &kp.public_key().0, &gens, &hb, &phb, &idx, &cms, &api, o, o, Some(Scalar::ZERO), bv * k, Some(k), &mut st);
                            pb = fp.to_bytes();
                        }
                    }
                }
                Mutn::MsgSurplus => dm.push(b"never signed".to_vec()),
                Mutn::IndexSurplus(i) => {
                    // an index that is not listed yet (a repeated one is the same set: the library normalises it)
                    let free: Vec<usize> = (0..=l).filter(|k| !idx.contains(k)).collect();
                    idx.push(free[pick(*i, free.len())]);
                    idx.sort();
                }
                Mutn::IndexRepeat(i) if !dm.is_empty() => {
                    let k = pick(*i, dm.len());
                    let at = k + (*i as usize % 2);
                    dm.insert(at, if *i % 3 == 0 { dm[k].clone() } else { b"never signed".to_vec() });
                    idx.insert(at, idx[k]);
                }
                Mutn::HeaderEdit => h = edit(&h),
                Mutn::PhEdit => p = edit(&p),
                Mutn::PkOther => pkb = KeyPair::<BBSplus<CS>>::generate(&[3u8; 32], None, None).unwrap().public_key().to_bytes().to_vec(),
                Mutn::BitFlip(b) => {
                    let bit = pick(*b, pb.len() * 8);
                    pb[bit / 8] ^= 1 << (bit % 8)
                }
                Mutn::IndexShift(i) if !idx.is_empty() => {
                    // move the last disclosed index up (stays ascending)
                    let k = idx.len() - 1;
                    idx[k] += 1 + pick(*i, 3);
                }
                Mutn::ScalarAppend => pb.extend_from_slice(&refimpl::scalar_bytes(&scalar_from_seed(&mut st))),
                Mutn::ScalarDrop(i) => {
                    let n = (pb.len() - 144) / 32;
                    let off = 144 + 32 * pick(*i, n);
                    pb.drain(off..off + 32);
                }
                Mutn::ZeroScalar(i) => {
                    let n = (pb.len() - 144) / 32;
                    let off = 144 + 32 * pick(*i, n);
                    pb[off..off + 32].iter_mut().for_each(|x| *x = 0);
                }
                Mutn::ScalarPlusR(i) => {
                    let n = (pb.len() - 144) / 32;
                    let off = 144 + 32 * pick(*i, n);
                    if let Some(a) = plus_r(&pb[off..off + 32]) {
                        pb[off..off + 32].copy_from_slice(&a)
                    }
                }
                Mutn::IdentityPoint(i) => {
                    let off = 48 * pick(*i, 3);
                    pb[off..off + 48].iter_mut().for_each(|x| *x = 0);
                    pb[off] = 0xc0;
                }
                Mutn::TrailingByte => pb.push(7),
                _ => {}
            }
            let lib = (|| {
                let pk = BBSplusPublicKey::from_bytes(&pkb).ok()?;
                let pr = PoKSignature::<BBSplus<CS>>::from_bytes(&pb).ok()?;
                pr.proof_verify(&pk, Some(&dm), Some(&idx), h.as_deref(), p.as_deref()).ok()
            })()
            .is_some();
            let rf = r.proof_verify(&pkb, &pb, h.as_deref().unwrap_or(b""), p.as_deref().unwrap_or(b""), &dm, &idx).is_ok();
            rep.eval(ck, 1);
            rep.class(&format!("proof:{}:{}:{}", if *by_ref { "made-by-reference" } else { "made-by-library" }, if matches!(m, Mutn::None) { "honest" } else { "mutated" }, if rf { "accept" } else { "reject" }));
            if matches!(m, Mutn::None) && !rf {
                return Err(("honest-proof-rejected-by-reference".into(), format!("proof {} made by {}", hx(&pb), if *by_ref { "the reference" } else { "the library" })));
            }
            dec("proof_verify", &format!("proof_verify under {:?} (proof made by {})", m, if *by_ref { "reference" } else { "library" }), lib, rf)?;
            // the same decoded objects asked a second and a third time: with another header, then with the first
            // statement again; the reference is stateless, the library must decide the same way every time
            if st % 4 == 0 {
                if let (Ok(pk2), Ok(pr2)) = (BBSplusPublicKey::from_bytes(&pkb), PoKSignature::<BBSplus<CS>>::from_bytes(&pb)) {
                    let h_other = edit(&h);
                    for (round, hh) in [(1, &h), (2, &h_other), (3, &h)] {
                        let lib2 = pr2.proof_verify(&pk2, Some(&dm), Some(&idx), hh.as_deref(), p.as_deref()).is_ok();
                        let rf2 = r.proof_verify(&pkb, &pb, hh.as_deref().unwrap_or(b""), p.as_deref().unwrap_or(b""), &dm, &idx).is_ok();
                        rep.eval(ck, 1);
                        dec("proof_verify", &format!("proof_verify on one decoded object, call {} of 3 (header {}) under {:?}", round, if round == 2 { "edited" } else { "as given" }, m), lib2, rf2)?;
                    }
                    rep.class("proof:one-object-three-calls");
                }
            }
            Ok(())
        }
        Op::Blind { suite, key, header, ph, msgs, committed, mask, cmask, by_ref, seed, m } => {
            let r = Ref::new(*suite);
            let kp = keypair::<CS>(key).map_err(|e| ("keygen".to_string(), format!("{:?}", e)))?;
            let (sk, pk) = (kp.private_key(), kp.public_key());
            let mut ms = msgs.materialize();
            let mut cm = committed.materialize();
            let (l, mm) = (ms.len(), cm.len());
            let (mut h, mut p) = (header.get(), ph.get());
            let mut st = *seed as u64 | 1 << 34;
            // commitment by either side
            let (mut cb, spb) = if *by_ref {
                let rnd: Vec<Scalar> = (0..mm + 2).map(|_| scalar_from_seed(&mut st)).collect();
                r.commit(&cm, &rnd).map_err(|e| ("ref-commit".to_string(), e.0.to_string()))?
            } else {
                let (c, b) = Commitment::<BBSplus<CS>>::commit(Some(&cm)).map_err(|e| ("lib-commit".to_string(), format!("{:?}", e)))?;
                (c.to_bytes(), refimpl::octets_to_scalar(&b.to_bytes()).unwrap())
            };
            let honest_cb = cb.clone();
            // commitment validation decisions
            match m {
                Mutn::BitFlip(b) => {
                    let bit = pick(*b, cb.len() * 8);
                    cb[bit / 8] ^= 1 << (bit % 8)
                }
                Mutn::ScalarAppend => cb.extend_from_slice(&refimpl::scalar_bytes(&scalar_from_seed(&mut st))),
                Mutn::ScalarDrop(i) => {
                    let n = (cb.len() - 48) / 32;
                    let off = 48 + 32 * pick(*i, n);
                    cb.drain(off..off + 32);
                }
                Mutn::TrailingByte => cb.push(1),
                Mutn::IdentityPoint(_) => {
                    cb[..48].iter_mut().for_each(|x| *x = 0);
                    cb[0] = 0xc0;
                }
                Mutn::ZeroScalar(i) => {
                    let n = (cb.len() - 48) / 32;
                    let off = 48 + 32 * pick(*i, n);
                    cb[off..off + 32].iter_mut().for_each(|x| *x = 0);
                }
                Mutn::ScalarPlusR(i) => {
                    let n = (cb.len() - 48) / 32;
                    let off = 48 + 32 * pick(*i, n);
                    if let Some(a) = plus_r(&cb[off..off + 32]) {
                        cb[off..off + 32].copy_from_slice(&a)
                    }
                }
                _ => {}
            }
            let lib_sig = BlindSignature::<BBSplus<CS>>::blind_sign(sk, pk, Some(&cb), h.as_deref(), Some(&ms)).map(|s| s.to_bytes().to_vec()).map_err(|e| format!("{:?}", e));
            let ref_sk = refimpl::octets_to_scalar(&sk.to_bytes()).unwrap();
            let ref_sig = r.blind_sign(&ref_sk, &pk.0, &cb, h.as_deref().unwrap_or(b""), &ms).map(|s| s.to_vec()).map_err(|e| e.0.to_string());
            rep.eval(ck, 1);
            cmp("blind_sign", &format!("BlindSign under {:?} (commitment made by {})", m, if *by_ref { "reference" } else { "library" }), &lib_sig, &ref_sig)?;
            // signature without commitment
            let ls0 = BlindSignature::<BBSplus<CS>>::blind_sign(sk, pk, None, h.as_deref(), Some(&ms)).map(|s| s.to_bytes().to_vec()).map_err(|e| format!("{:?}", e));
            let rs0 = r.blind_sign(&ref_sk, &pk.0, &[], h.as_deref().unwrap_or(b""), &ms).map(|s| s.to_vec()).map_err(|e| e.0.to_string());
            cmp("blind_sign-no-commitment", "BlindSign without commitment", &ls0, &rs0)?;
            // continue with the honest commitment
            let sigb = BlindSignature::<BBSplus<CS>>::blind_sign(sk, pk, Some(&honest_cb), h.as_deref(), Some(&ms)).map_err(|e| ("lib-blind-sign".to_string(), format!("{:?}", e)))?.to_bytes();
            let di = big_mask(*mask, l);
            let dci = big_mask(*cmask, mm);
            let bf = BlindFactor::from_bytes(&refimpl::scalar_bytes(&spb)).unwrap();
            let mut pb = if *by_ref {
                let u = l - di.len() + 1 + mm - dci.len();
                let rnd: Vec<Scalar> = (0..5 + u).map(|_| scalar_from_seed(&mut st)).collect();
                r.blind_proof_gen(&pk.0, &sigb, h.as_deref().unwrap_or(b""), p.as_deref().unwrap_or(b""), &ms, &cm, &di, &dci, &spb, &rnd).map_err(|e| ("ref-blind-proof-gen".to_string(), e.0.to_string()))?
            } else {
                PoKSignature::<BBSplus<CS>>::blind_proof_gen(pk, &sigb, h.as_deref(), p.as_deref(), Some(&ms), Some(&cm), Some(&di), Some(&dci), Some(&bf)).map_err(|e| ("lib-blind-proof-gen".to_string(), format!("{:?}", e)))?.to_bytes()
            };
            let mut dm: Vec<Vec<u8>> = di.iter().map(|&i| ms[i].clone()).collect();
            let mut dcm: Vec<Vec<u8>> = dci.iter().map(|&j| cm[j].clone()).collect();
            let (mut di, mut dci) = (di, dci);
            let mut lv = l;
            let mut bfv = spb;
            let mut pkb = pk.to_bytes().to_vec();
            let mut sb = sigb.to_vec();
            match m {
                Mutn::MsgEdit(i) => {
                    if i % 2 == 0 && !dm.is_empty() {
                        let k = pick(*i, dm.len());
                        dm[k].push(1)
                    } else if !dcm.is_empty() {
                        let k = pick(*i, dcm.len());
                        dcm[k].push(1)
                    }
                    if !ms.is_empty() {
                        let k = pick(*i, ms.len());
                        ms[k].push(1)
                    } else if !cm.is_empty() {
                        cm[0].push(1)
                    }
                }
                Mutn::MsgAdd => cm.push(b"x".to_vec()),
                Mutn::HeaderEdit => h = edit(&h),
                Mutn::PhEdit => p = edit(&p),
                Mutn::PkOther => pkb = KeyPair::<BBSplus<CS>>::generate(&[3u8; 32], None, None).unwrap().public_key().to_bytes().to_vec(),
                Mutn::BitFlip(b) => {
                    let bit = pick(*b, pb.len() * 8);
                    pb[bit / 8] ^= 1 << (bit % 8);
                    let bit = pick(*b, 640);
                    sb[bit / 8] ^= 1 << (bit % 8);
                }
                Mutn::MsgSurplus => {
                    if st % 2 == 0 {
                        dm.push(b"never signed".to_vec())
                    } else {
                        dcm.push(b"never signed".to_vec())
                    }
                }
                Mutn::IndexSurplus(i) => {
                    if i % 2 == 0 {
                        let free: Vec<usize> = (0..=l).filter(|k| !di.contains(k)).collect();
                        di.push(free[pick(*i, free.len())]);
                        di.sort();
                    } else {
                        let free: Vec<usize> = (0..=mm).filter(|k| !dci.contains(k)).collect();
                        dci.push(free[pick(*i, free.len())]);
                        dci.sort();
                    }
                }
                Mutn::IndexRepeat(i) => {
                    let (d, ix) = if (i % 2 == 0 && !dm.is_empty()) || dcm.is_empty() { (&mut dm, &mut di) } else { (&mut dcm, &mut dci) };
                    if !d.is_empty() {
                        let k = pick(*i, d.len());
                        let at = k + ((*i as usize >> 1) % 2);
                        d.insert(at, if *i % 3 == 0 { d[k].clone() } else { b"never signed".to_vec() });
                        ix.insert(at, ix[k]);
                    }
                }
                Mutn::ScalarPlusR(i) => {
                    let n = (pb.len() - 144) / 32;
                    let off = 144 + 32 * pick(*i, n);
                    if let Some(a) = plus_r(&pb[off..off + 32]) {
                        pb[off..off + 32].copy_from_slice(&a)
                    }
                    if let Some(a) = plus_r(&sb[48..80]) {
                        sb[48..80].copy_from_slice(&a)
                    }
                }
                Mutn::LPlus => lv += 1,
                Mutn::LMinus if lv > 0 => lv -= 1,
                Mutn::BlindOther => bfv = scalar_from_seed(&mut st),
                Mutn::IdentityPoint(i) => {
                    let off = 48 * pick(*i, 3);
                    pb[off..off + 48].iter_mut().for_each(|x| *x = 0);
                    pb[off] = 0xc0;
                }
                _ => {}
            }
            // blind signature verification decision
            let bf2 = BlindFactor::from_bytes(&refimpl::scalar_bytes(&bfv)).unwrap();
            let lib = (|| {
                let k = BBSplusPublicKey::from_bytes(&pkb).ok()?;
                let s = BlindSignature::<BBSplus<CS>>::from_bytes(&<[u8; 80]>::try_from(sb.as_slice()).ok()?).ok()?;
                s.verify_blind_sign(&k, h.as_deref(), Some(&ms), Some(&cm), Some(&bf2)).ok()
            })()
            .is_some();
            let rf = r.verify_blind_sign(&pkb, &sb, h.as_deref().unwrap_or(b""), &ms, &cm, &bfv).is_ok();
            rep.eval(ck, 1);
            dec("verify_blind_sign", &format!("verify_blind_sign under {:?}", m), lib, rf)?;
            // blind proof verification decision
            let lib = catch(|| {
                (|| {
                    let k = BBSplusPublicKey::from_bytes(&pkb).ok()?;
                    let pr = PoKSignature::<BBSplus<CS>>::from_bytes(&pb).ok()?;
                    pr.blind_proof_verify(&k, h.as_deref(), p.as_deref(), Some(lv), Some(&dm), Some(&dcm), Some(&di), Some(&dci)).ok()
                })()
                .is_some()
            })
            .unwrap_or(false);
            let rf = r.blind_proof_verify(&pkb, &pb, h.as_deref().unwrap_or(b""), p.as_deref().unwrap_or(b""), lv, &dm, &dcm, &di, &dci).is_ok();
            rep.eval(ck, 1);
            rep.class(&format!("blind:{}:{}:{}", if *by_ref { "made-by-reference" } else { "made-by-library" }, if matches!(m, Mutn::None) { "honest" } else { "mutated" }, if rf { "accept" } else { "reject" }));
            if matches!(m, Mutn::None) && !rf {
                return Err(("honest-blind-proof-rejected-by-reference".into(), format!("blind proof {} made by {}", hx(&pb), if *by_ref { "the reference" } else { "the library" })));
            }
            dec("blind_proof_verify", &format!("blind_proof_verify under {:?} (made by {})", m, if *by_ref { "reference" } else { "library" }), lib, rf)?;
            // the same statement in the verifier's "one list" spelling: the disclosed committed messages ride in
            // disclosed_messages under their absolute positions j + L + 1, the committed lists stay empty / None
            let mut dm1 = dm.clone();
            dm1.extend(dcm.iter().cloned());
            let mut di1 = di.clone();
            let mut overflow = false;
            for j in &dci {
                match j.checked_add(lv + 1) {
                    Some(x) => di1.push(x),
                    None => overflow = true,
                }
            }
            if overflow || dcm.is_empty() {
                return Ok(());
            }
            let none_spelling = st % 2 == 0;
            let lib1 = catch(|| {
                (|| {
                    let k = BBSplusPublicKey::from_bytes(&pkb).ok()?;
                    let pr = PoKSignature::<BBSplus<CS>>::from_bytes(&pb).ok()?;
                    if none_spelling {
                        pr.blind_proof_verify(&k, h.as_deref(), p.as_deref(), Some(lv), Some(&dm1), None, Some(&di1), None).ok()
                    } else {
                        pr.blind_proof_verify(&k, h.as_deref(), p.as_deref(), Some(lv), Some(&dm1), Some(&[]), Some(&di1), Some(&[])).ok()
                    }
                })()
                .is_some()
            })
            .unwrap_or(false);
            let rf1 = r.blind_proof_verify(&pkb, &pb, h.as_deref().unwrap_or(b""), p.as_deref().unwrap_or(b""), lv, &dm1, &[], &di1, &[]).is_ok();
            rep.eval(ck, 1);
            rep.class(&format!("blind:one-list-spelling:{}:{}", if matches!(m, Mutn::None) { "honest" } else { "mutated" }, if rf1 { "accept" } else { "reject" }));
            if matches!(m, Mutn::None) && !rf1 {
                return Err(("honest-blind-proof-rejected-by-reference".into(), format!("one-list spelling of blind proof {}", hx(&pb))));
            }
            dec("blind_proof_verify", &format!("blind_proof_verify, one-list spelling, under {:?} (made by {})", m, if *by_ref { "reference" } else { "library" }), lib1, rf1)
        }
    }
}

fn suite_of(op: &Op) -> SuiteId {
    match op {
        Op::KeyGen { suite, .. } | Op::Generators { suite, .. } | Op::H2s { suite, .. } | Op::MsgScalars { suite, .. } | Op::Sign { suite, .. } | Op::Verify { suite, .. } | Op::Proof { suite, .. } | Op::Blind { suite, .. } => *suite,
    }
}

fn run_op(rep: &Report, ck: &str, op: &Op) -> CheckResult {
    // a third of the operations run after a warm-up history of unrelated legal calls on this thread
    let hs = serde_json::to_vec(op).map(|v| v.iter().fold(7u64, |a, b| a.wrapping_mul(131).wrapping_add(*b as u64))).unwrap_or(0);
    if hs % 3 == 0 {
        crate::history::warmup(hs, 1 + (hs % 4) as usize);
        rep.class("after-warm-up-history");
    } else if hs % 3 == 1 {
        // another third: a call the library refuses, immediately before the operation (the first library call of
        // the operation then meets whatever the error path left behind on this thread)
        let tag = with_suite!(suite_of(op), CS => crate::history::refused_call::<CS>(hs >> 3));
        rep.class(&format!("right-after-a-refused-call:{}", tag));
    }
    let res = with_suite!(suite_of(op), CS => diff::<CS>(rep, ck, op));
    match res {
        Ok(()) => {
            rep.nontrivial(ck, op);
            rep.sample(ck, json!({"op": op}));
            Ok(())
        }
        Err((site, msg)) => rep.fail(ck, &site, msg, json!({"op": op})),
    }
}

#[derive(Clone, Debug, Serialize, Deserialize)]
pub struct Schedule {
    pub ops: Vec<Op>,
    pub threads: usize,
    pub rotation: u8,
}

fn det_op_strat() -> impl Strategy<Value = Op> {
    // operations whose library side would be affected by shared state (caches, static buffers)
    prop_oneof![
        (suite(), prop::collection::vec(0usize..=24, 1..4), api_sel()).prop_map(|(suite, counts, api)| Op::Generators { suite, counts, api }),
        (suite(), key_spec_simple(), opt_bytes(HDR_LENS_SMALL), msg_vec_range(0, 12, MSG_LENS_SMALL)).prop_map(|(suite, key, header, msgs)| Op::Sign { suite, key, header, msgs }),
        (suite(), key_spec_simple(), opt_bytes(HDR_LENS_SMALL), msg_vec_range(0, 12, MSG_LENS_SMALL), mutn()).prop_map(|(suite, key, header, msgs, m)| Op::Verify { suite, key, header, msgs, m }),
        (suite(), key_spec_simple(), opt_bytes(HDR_LENS_SMALL), opt_bytes(HDR_LENS_SMALL), msg_vec_range(0, 8, MSG_LENS_SMALL), any::<u32>(), any::<bool>(), any::<u32>(), mutn())
            .prop_map(|(suite, key, header, ph, msgs, mask, by_ref, seed, m)| Op::Proof { suite, key, header, ph, msgs, mask, by_ref, seed, m }),
        (suite(), bspec_from(MSG_LENS_SMALL, &[0]), bspec_from(&[1, 16, 48], &[3])).prop_map(|(suite, msg, dst)| Op::H2s { suite, msg, dst }),
    ]
}

fn schedule_strat() -> impl Strategy<Value = Schedule> {
    (prop::collection::vec(det_op_strat(), 4..12), prop::sample::select(vec![2usize, 4, 16]), any::<u8>()).prop_map(|(ops, threads, rotation)| Schedule { ops, threads, rotation })
}

fn run_schedule(rep: &Report, ck: &str, s: &Schedule) -> CheckResult {
    let barrier = std::sync::Barrier::new(s.threads);
    let fails: std::sync::Mutex<Vec<(String, String, usize)>> = std::sync::Mutex::new(vec![]);
    std::thread::scope(|sc| {
        for t in 0..s.threads {
            let (barrier, fails) = (&barrier, &fails);
            sc.spawn(move || {
                barrier.wait();
                let n = s.ops.len();
                for k in 0..n {
                    let i = (k + t * (1 + s.rotation as usize)) % n;
                    let op = &s.ops[i];
                    let r = catch(|| with_suite!(suite_of(op), CS => diff::<CS>(rep, ck, op)));
                    match r {
                        Ok(Ok(())) => {}
                        Ok(Err((site, msg))) => fails.lock().unwrap().push((site, msg, i)),
                        Err(p) => fails.lock().unwrap().push(("panic-under-schedule".into(), p, i)),
                    }
                }
            });
        }
    });
    let f = fails.into_inner().unwrap();
    if let Some((site, msg, i)) = f.into_iter().next() {
        return rep.fail(ck, &format!("schedule:{}", site), format!("op #{} under {} threads: {}", i, s.threads, msg), json!({"schedule": s}));
    }
    rep.nontrivial(ck, s);
    rep.class(&format!("schedule:threads={}", s.threads));
    rep.sample(ck, json!({"threads": s.threads, "ops": s.ops.len(), "first_op": s.ops[0]}));
    Ok(())
}

pub fn run(ctx: &Ctx, rep: &Report) -> Meta {
    match crate::refcheck::validate_reference() {
        Ok(n) => rep.note(format!("reference model reproduces all fixtures ({} fixture items) before judging", n)),
        Err(e) => {
            out(&format!("INCONCLUSIVE property=C10 the reference model does not reproduce the fixtures: {}", e));
            std::process::exit(2);
        }
    }
    let tier = ctx.tier;
    run_cases(ctx, rep, "differential", ctx.tier.pick(3000, 30000), 300, || op_strat(tier), |op| run_op(rep, "differential", op));
    // boundary list: thresholds of KeyGen / hash_to_scalar and large counts
    let mut fixed: Vec<Op> = vec![];
    for suite in [SuiteId::Sha256, SuiteId::Shake256] {
        for ikl in [0usize, 31, 32, 33] {
            fixed.push(Op::KeyGen { suite, ikm: BSpec { len: ikl, class: 0, seed: 1 }, key_info: OptBytes::None, key_dst: OptBytes::None });
        }
        for kil in [65535usize, 65536] {
            fixed.push(Op::KeyGen { suite, ikm: BSpec { len: 32, class: 0, seed: 2 }, key_info: OptBytes::Bytes(BSpec { len: kil, class: 0, seed: 3 }), key_dst: OptBytes::None });
        }
        for kdl in [0usize, 255, 256] {
            fixed.push(Op::KeyGen { suite, ikm: BSpec { len: 32, class: 0, seed: 2 }, key_info: OptBytes::Empty, key_dst: if kdl == 0 { OptBytes::Empty } else { OptBytes::Bytes(BSpec { len: kdl, class: 3, seed: 4 }) } });
            fixed.push(Op::H2s { suite, msg: BSpec { len: 10, class: 0, seed: 5 }, dst: BSpec { len: kdl, class: 3, seed: 6 } });
        }
        for api in [ApiSel::None, ApiSel::Plain, ApiSel::Blind, ApiSel::BlindPrefixed] {
            fixed.push(Op::Generators { suite, counts: vec![tier.pick(257, 1100), 16, 17, 0, 1], api });
        }
        fixed.push(Op::Sign { suite, key: KeySpec { fixture: true, ikm: BSpec { len: 32, class: 0, seed: 0 }, key_info: OptBytes::None, key_dst: OptBytes::None }, header: OptBytes::None,
            msgs: MsgVec { items: (0..tier.pick(257usize, 1000usize)).map(|j| BSpec { len: j % 40, class: 0, seed: j as u32 }).collect() } });
        fixed.push(Op::Sign { suite, key: KeySpec { fixture: false, ikm: BSpec { len: 64, class: 0, seed: 9 }, key_info: OptBytes::None, key_dst: OptBytes::None }, header: OptBytes::Bytes(BSpec { len: 65536, class: 0, seed: 1 }),
            msgs: MsgVec { items: vec![BSpec { len: 1 << 20, class: 0, seed: 1 }, BSpec { len: 0, class: 0, seed: 2 }] } });
    }
    // every message length 0..=600 (thorough 0..=2100) as one vector per block of 50 lengths, every header length
    // 0..=1100 in Sign (octets compared with the reference), every hash_to_scalar input length 0..=300
    for suite in [SuiteId::Sha256, SuiteId::Shake256] {
        let top = tier.pick(600usize, 2100usize);
        for blk in (0..=top).step_by(50) {
            fixed.push(Op::MsgScalars { suite, msgs: MsgVec { items: (blk..(blk + 50).min(top + 1)).map(|len| BSpec { len, class: 0, seed: len as u32 }).collect() }, api: if blk % 100 == 0 { ApiSel::Plain } else { ApiSel::Blind } });
        }
        for hl in (0..=1100usize).filter(|h| tier == Tier::Thorough || h % 2 == (suite == SuiteId::Sha256) as usize) {
            fixed.push(Op::Sign { suite, key: KeySpec { fixture: false, ikm: BSpec { len: 32, class: 0, seed: 21 }, key_info: OptBytes::None, key_dst: OptBytes::None }, header: if hl == 0 { OptBytes::Empty } else { OptBytes::Bytes(BSpec { len: hl, class: 0, seed: hl as u32 }) },
                msgs: MsgVec { items: (0..[1usize, 3, 10, 17][hl % 4]).map(|j| BSpec { len: 5, class: 0, seed: j as u32 }).collect() } });
        }
        // every interface-identifier length around the 255-octet limit of a domain separation tag (the suffixes the
        // library appends are 4 to 26 octets long): generators, message mapping
        for al in 190..=262usize {
            let api = ApiSel::Ascii(BSpec { len: al, class: 3, seed: al as u32 });
            fixed.push(Op::MsgScalars { suite, msgs: MsgVec { items: vec![BSpec { len: 5, class: 0, seed: 1 }, BSpec { len: 0, class: 0, seed: 2 }] }, api: api.clone() });
            fixed.push(Op::Generators { suite, counts: vec![3], api });
        }
        for ml in 0..=300usize {
            fixed.push(Op::H2s { suite, msg: BSpec { len: ml, class: 0, seed: ml as u32 }, dst: BSpec { len: 16, class: 3, seed: 6 } });
        }
    }
    par_items(ctx, rep, "boundaries", &fixed, |op| run_op(rep, "boundaries", op));
    // volume: thousands of small Sign / Verify / ProofVerify comparisons (Sign is deterministic: octets must be equal).
    // A step that goes wrong for one value in a few hundred of an internal quantity (a leading zero octet of e, of a
    // challenge, of a hashed scalar) shows only in volume
    {
        let nvol = tier.pick(3600usize, 40000usize);
        let vol: Vec<Op> = (0..nvol)
            .map(|k| {
                let suite = if k % 2 == 0 { SuiteId::Sha256 } else { SuiteId::Shake256 };
                let key = KeySpec { fixture: k % 11 == 0, ikm: BSpec { len: 32, class: 0, seed: (k % 13) as u32 }, key_info: OptBytes::None, key_dst: OptBytes::None };
                let header = [OptBytes::None, OptBytes::Bytes(BSpec { len: 7, class: 0, seed: k as u32 }), OptBytes::Empty][k % 3].clone();
                let msgs = MsgVec { items: (0..(k / 3) % 4).map(|j| BSpec { len: [6usize, 0, 33][j % 3], class: 0, seed: (k * 8 + j) as u32 }).collect() };
                match k % 6 {
                    0 | 1 | 2 | 3 => Op::Sign { suite, key, header, msgs },
                    4 => Op::Verify { suite, key, header, msgs, m: Mutn::None },
                    _ => Op::Proof { suite, key, header, ph: OptBytes::Bytes(BSpec { len: 5, class: 0, seed: k as u32 }), msgs, mask: k as u32, by_ref: k % 12 == 5, seed: k as u32, m: Mutn::None },
                }
            })
            .collect();
        par_items(ctx, rep, "volume", &vol, |op| run_op(rep, "volume", op));
    }
    // every message count in a contiguous range: Sign octets, the verifier's decision, a proof made by either side
    let mut sweep: Vec<Op> = vec![];
    for l in 0..=ctx.tier.pick(72usize, 260usize) {
        let suite = if l % 2 == 0 { SuiteId::Sha256 } else { SuiteId::Shake256 };
        let key = KeySpec { fixture: l % 3 == 0, ikm: BSpec { len: 32, class: 0, seed: l as u32 }, key_info: OptBytes::None, key_dst: OptBytes::None };
        let msgs = MsgVec { items: (0..l).map(|j| BSpec { len: [3usize, 0, 32][j % 3], class: 0, seed: (l * 100 + j) as u32 }).collect() };
        let header = [OptBytes::None, OptBytes::Bytes(BSpec { len: 16, class: 0, seed: 2 })][l % 2].clone();
        sweep.push(Op::Sign { suite, key: key.clone(), header: header.clone(), msgs: msgs.clone() });
        sweep.push(Op::Proof { suite: suite.other(), key: key.clone(), header: header.clone(), ph: OptBytes::None, msgs: msgs.clone(), mask: 0x5a5a_a5a5, by_ref: l % 2 == 0, seed: l as u32, m: Mutn::None });
        if l <= 40 {
            sweep.push(Op::Blind { suite, key, header, ph: OptBytes::None, msgs: MsgVec { items: msgs.items.iter().take(l / 2).cloned().collect() }, committed: MsgVec { items: msgs.items.iter().skip(l / 2).cloned().collect() }, mask: 0x3c3c_c3c3, cmask: 0x0f0f_f0f0, by_ref: l % 2 == 1, seed: l as u32, m: Mutn::None });
        }
    }
    par_items(ctx, rep, "size-sweep", &sweep, |op| run_op(rep, "size-sweep", op));
    run_cases(ctx, rep, "schedules", ctx.tier.pick(48, 400), 60, schedule_strat, |s| run_schedule(rep, "schedules", s));
    // large inputs under contention: all workers sign (and have verified) statements whose domain input is far above
    // a few KiB (headers of 9 KiB .. 300 KiB, 170 .. 260 messages) at the same moment; a buffer pool or a lock that
    // is tried rather than waited for takes its other branch only then
    {
        let hl = [9000usize, 20000, 70000, 300000, 12000, 33000];
        let r = contend("large-inputs-under-contention", ctx.workers.max(4), ctx.tier.pick(3, 12), |t, round| {
            let suite = if (t + round) % 2 == 0 { SuiteId::Sha256 } else { SuiteId::Shake256 };
            let key = KeySpec { fixture: false, ikm: BSpec { len: 32, class: 0, seed: (t * 13 + round) as u32 }, key_info: OptBytes::None, key_dst: OptBytes::None };
            let op = if (t + round) % 3 == 0 {
                Op::Sign { suite, key, header: OptBytes::Bytes(BSpec { len: 16, class: 0, seed: 4 }), msgs: MsgVec { items: (0..170 + 30 * (t % 4)).map(|j| BSpec { len: 5, class: 0, seed: (t * 1000 + j) as u32 }).collect() } }
            } else if (t + round) % 3 == 1 {
                Op::Sign { suite, key, header: OptBytes::Bytes(BSpec { len: hl[(t + round) % hl.len()], class: 0, seed: t as u32 }), msgs: MsgVec { items: (0..3).map(|j| BSpec { len: 9, class: 0, seed: (t * 10 + j) as u32 }).collect() } }
            } else {
                Op::Verify { suite, key, header: OptBytes::Bytes(BSpec { len: hl[(t * 5 + round) % hl.len()], class: 0, seed: t as u32 }), msgs: MsgVec { items: (0..2).map(|j| BSpec { len: 9, class: 0, seed: (t * 10 + j) as u32 }).collect() }, m: Mutn::None }
            };
            run_op(rep, "large-inputs-under-contention", &op)
        });
        if let Err(f) = r {
            rep.add_violation(f);
        }
    }
    Meta {
        rule: "generated operations: KeyGen/SkToPk (ikm 0..200 octets, key_info up to 65536, key_dst up to 300 or None), histories of create_generators(count, api_id) calls (count 0..=64 quick / 1100 thorough; api_id in {None, empty, both API ids, BLIND_-prefixed, random ASCII}), \
               hash_to_scalar (dst up to 400 octets), messages_to_scalars, Sign, and verifier decisions on honest and mutated artefacts (message / header / ph / pk edits, bit flips, index shifts, whole-scalar framing edits, zero scalars, a scalar written as value + r, artefacts forged around the identity element (proof with Abar = Bbar = O and cancelling responses, signature under the identity public key), identity points, trailing bytes, L+-1, other blinding factor, list shapes of the disclosed data: one more message than indexes, one more (unlisted) index than messages, a second entry under an index that is already listed) \
               for verify, proof_verify, blind_sign's commitment validation, verify_blind_sign, blind_proof_verify; proofs and commitments made by the library must be accepted by the reference and vice versa; every blind proof statement (honest and mutated) is decided a second time in the verifier's one-list spelling (committed messages in disclosed_messages under their absolute positions j + L + 1, committed lists None or empty); \
               oracle: byte equality of outputs and equality of Ok/Err decisions with the independent reference model, which must first reproduce every fixture; \
               size sweep: Sign octets, proof and blind round trips for every L in 0..=72 (quick) / 0..=260 (thorough); every message length 0..=600 / 2100 through messages_to_scalars, every header length 0..=1100 through Sign, every hash_to_scalar input length 0..=300, every interface-identifier length 190..=262 through messages_to_scalars and create_generators; a third of the operations right after a call the library refuses, a third of the operations after a warm-up history; a quarter of the verification comparisons ask the same decoded object three times (as given, other header, as given); volume: 3600 (quick) / 40000 (thorough) small Sign / Verify / ProofVerify comparisons; schedules: lists of such operations executed by 2, 4 or 16 threads released from a barrier in rotated orders; large-inputs-under-contention: all workers at once Sign / Verify with headers of 9 KiB .. 300 KiB or 170 .. 260 messages; non-trivial = every generated operation (none coincides with a fixture); evaluations = compared outputs / decisions"
            .into(),
        assumptions: vec![
            "trusted and shared with the library: bls12_381_plus arithmetic, point compression, pairing, hash_to_curve, sha2 / sha3".into(),
            "default key dst follows the draft's fixture (api_id || KEYGEN_DST_); api_ids are short enough that every derived DST is <= 255 octets".into(),
            "index lists are ascending and duplicate-free (documented domain); interleavings are sampled, not enumerated".into(),
        ],
    }
}

pub fn replay(_ctx: &Ctx, rep: &Report, ck: &str, case: &Value) -> CheckResult {
    let perr = |e: String| Fail { check: ck.into(), site: "replay-parse".into(), msg: e, case: case.clone() };
    if ck == "schedules" {
        let s: Schedule = serde_json::from_value(case["schedule"].clone()).map_err(|e| perr(e.to_string()))?;
        run_schedule(rep, ck, &s)
    } else {
        let op: Op = serde_json::from_value(case["op"].clone()).map_err(|e| perr(e.to_string()))?;
        run_op(rep, ck, &op)
    }
}
