//! C17 — CL03 proofs do not hand the verifier the openings they are meant to hide.
//! The attacker programs see only `serde_json::to_value(proof)` and the public parameters.

use crate::cl::*;
use crate::engine::*;
use crate::gen::{pick, splitmix};
use crate::props::c15;
use crate::with_cl;
use proptest::prelude::*;
use rug::{Complete, Integer};
use serde::{Deserialize, Serialize};
use serde_json::{json, Value};

#[derive(Clone, Debug, Serialize, Deserialize)]
pub struct Case {
    pub key: u16,
    pub n: usize,
    /// non-empty hidden set
    pub hidden_mask: u8,
    /// 0 = issuance proof, 1 = issuance proof with trusted commitment, 2 = signature proof
    pub kind: u8,
    pub seed: u32,
    /// attributes forced to small values (bit i set: attribute i is 0 or 1) - used by C19 only
    #[serde(default)]
    pub small_mask: u8,
    /// explicit hidden positions (overrides hidden_mask; for attribute counts above 8)
    #[serde(default)]
    pub hidden_list: Vec<usize>,
    /// issuance only: the issuer has published this many more bases than there are attributes
    #[serde(default)]
    pub spare: u8,
    /// all hidden attributes carry the same (random 256-bit) value
    #[serde(default)]
    pub eq_hidden: bool,
}

pub fn strat(nmax: usize) -> impl Strategy<Value = Case> {
    (any::<u16>(), 1usize..=nmax, 1u8..=31, 0u8..3, any::<u32>(), prop::sample::select(vec![0u8, 0, 1, 2, 3]))
        .prop_map(|(key, n, hm, kind, seed, spare)| Case { key, n, hidden_mask: (hm as usize % ((1 << n) - 1)) as u8 + 1, kind, seed, small_mask: 0, hidden_list: vec![], spare, eq_hidden: false })
}

/// public base pair (g, h) modulo n, with a label
#[derive(Clone)]
pub struct BasePair {
    pub g: Integer,
    pub h: Integer,
    pub n: Integer,
    pub label: String,
    /// attribute position this base belongs to
    pub pos: usize,
}

/// what the other party holds: the serialised proof and public data; plus (for the oracle only) the secrets
pub struct View {
    pub kind: &'static str,
    pub proof: Value,
    pub pairs: Vec<BasePair>,
    pub n_attr: usize,
    pub hidden: Vec<usize>,
    /// (name, value) - known to the harness as the witness holder, never given to the attacker programs
    pub secrets: Vec<(String, Integer)>,
    /// hidden attribute values by position
    pub hidden_vals: Vec<(usize, Integer)>,
    /// every attribute value by position (witness side only)
    pub all_vals: Vec<Integer>,
    pub sig_v: Option<Integer>,
    /// public data needed by C19 to recompute challenges
    pub issuer_n: Integer,
    pub a_bases: Vec<Integer>,
    pub b: Integer,
    pub g_bases: Vec<Integer>,
    pub cpk_h: Integer,
    pub c_value: Option<Integer>,
}

pub struct Shared {
    pub keys: Vec<ClKey>,
    pub tp: Option<CL03CommitmentPublicKey>,
}

/// the honest proof of the case, or None for a hidden-position list given out of ascending order that the library
/// does not go through with (that spelling is the caller's choice; only what the library accepts is judged)
pub fn view_or_skip<CS: CLCiphersuite>(rep: &Report, ck: &str, c: &Case, sh: &Shared) -> Result<Option<View>, Fail>
where
    CS::HashAlg: digest::Digest,
{
    let out_of_order = c.hidden_list.windows(2).any(|w| w[0] >= w[1]);
    match build_view::<CS>(c, sh) {
        Ok(v) => {
            if out_of_order {
                rep.class("hidden-list-not-ascending:accepted-by-the-library");
            }
            Ok(Some(v))
        }
        Err(_) if out_of_order => {
            rep.class("hidden-list-not-ascending:refused-by-the-library");
            Ok(None)
        }
        Err(e) => rep.fail(ck, "honest-generation-failed", e, json!({"case": c})).map(|_| None),
    }
}

pub fn build_view<CS: CLCiphersuite>(c: &Case, sh: &Shared) -> Result<View, String>
where
    CS::HashAlg: digest::Digest,
{
    let key = &sh.keys[pick(c.key, sh.keys.len())];
    let pk = &key.pk;
    let n = c.n;
    let hidden: Vec<usize> = if c.hidden_list.is_empty() { (0..n.min(8)).filter(|i| c.hidden_mask >> i & 1 == 1).collect() } else { c.hidden_list.clone() };
    let mut st = (c.seed as u64) << 9 | 1;
    // high-entropy attributes only
    let vals: Vec<Integer> = (0..n).map(|i| if i < 8 && c.small_mask >> i & 1 == 1 { Integer::from((i + (c.seed as usize)) % 2) } else { attr_random(&mut st) }).collect();
    let mut vals = vals;
    if c.eq_hidden && hidden.len() >= 2 {
        let first = vals[hidden[0]].clone();
        for &i in &hidden[1..] {
            vals[i] = first.clone();
        }
    }
    let hidden_vals: Vec<(usize, Integer)> = hidden.iter().map(|&i| (i, vals[i].clone())).collect();
    let kind = if c.kind % 3 == 1 && sh.tp.is_none() { 0 } else { c.kind % 3 };
    if kind < 2 && !hidden.is_empty() {
        let bases = Bases::generate(pk, n + c.spare as usize);
        let msgs: Vec<CL03Message> = vals.iter().cloned().map(CL03Message::new).collect();
        let com = Commitment::<CL03<CS>>::commit_with_pk(&msgs, pk, &bases, Some(&hidden));
        let cc = com.cl03Commitment().clone();
        let tp = if kind == 1 { sh.tp.as_ref() } else { None };
        let tcom = tp.map(|t| Commitment::<CL03<CS>>::commit_with_commitment_pk(&msgs, t, Some(&hidden)).cl03Commitment().clone());
        // a third of the honest generations follow a refused request on the same thread
        if c.seed % 3 == 0 {
            let mut bad = hidden.clone();
            bad.push(n + c.spare as usize + 4);
            let _ = catch(|| ZKPoK::<CL03<CS>>::generate_proof(&msgs, &cc, tcom.as_ref(), pk, &bases, tp, &bad));
        }
        let zk = catch(|| ZKPoK::<CL03<CS>>::generate_proof(&msgs, &cc, tcom.as_ref(), pk, &bases, tp, &hidden)).map_err(|e| format!("generate_proof: {}", e))?;
        let c_issuer = CL03Commitment { value: cc.value.clone(), randomness: Integer::new() };
        let t_issuer = tcom.as_ref().map(|t| CL03Commitment { value: t.value.clone(), randomness: Integer::new() });
        if !catch(|| zk.verify_proof(&c_issuer, t_issuer.as_ref(), pk, &bases, tp, &hidden)).unwrap_or(false) {
            return Err("honest issuance proof does not verify".into());
        }
        let mut pairs: Vec<BasePair> = (0..n).map(|i| BasePair { g: bases.0[i].clone(), h: pk.b.clone(), n: pk.N.clone(), label: format!("(a_{}, b)", i), pos: i }).collect();
        if let Some(t) = tp {
            pairs.extend((0..n).map(|i| BasePair { g: t.g_bases[i].clone(), h: t.h.clone(), n: t.N.clone(), label: format!("(g_{}, h) of the trusted party", i), pos: i }));
        }
        let mut secrets: Vec<(String, Integer)> = hidden_vals.iter().map(|(i, v)| (format!("hidden attribute m_{}", i), v.clone())).collect();
        secrets.push(("randomness r of the commitment C".into(), cc.randomness.clone()));
        if let Some(t) = &tcom {
            secrets.push(("randomness of the trusted commitment".into(), t.randomness.clone()));
        }
        Ok(View {
            kind: if kind == 1 { "issuance-proof+trusted" } else { "issuance-proof" },
            proof: serde_json::to_value(&zk).unwrap(),
            pairs,
            n_attr: n,
            hidden,
            secrets,
            hidden_vals,
            all_vals: vals.clone(),
            sig_v: None,
            issuer_n: pk.N.clone(),
            a_bases: bases.0.clone(),
            b: pk.b.clone(),
            g_bases: tp.map(|t| t.g_bases.clone()).unwrap_or_default(),
            cpk_h: tp.map(|t| t.h.clone()).unwrap_or_default(),
            c_value: Some(cc.value.clone()),
        })
    } else {
        let vals_copy = vals.clone();
        let h = c15::honest::<CS>(key, n, &hidden, vals, false)?;
        if !catch(|| h.proof.proof_verify(&h.cpk, pk, &h.bases, &h.revealed, &hidden, n)).unwrap_or(false) {
            return Err("honest signature proof does not verify".into());
        }
        let sj = serde_json::to_value(&h.sig).unwrap();
        let (e, s, v) = (int_of(&sj["CL03"]["e"]).unwrap(), int_of(&sj["CL03"]["s"]).unwrap(), int_of(&sj["CL03"]["v"]).unwrap());
        // with many attributes only the base pairs of the hidden positions and of the two ends are tried
        let which: Vec<usize> = if n <= 8 { (0..n).collect() } else { let mut w = hidden.clone(); w.extend([0, n - 1]); w.sort(); w.dedup(); w };
        let mut pairs: Vec<BasePair> = which.iter().map(|&i| BasePair { g: h.cpk.g_bases[i].clone(), h: h.cpk.h.clone(), n: h.cpk.N.clone(), label: format!("(g_{}, h)", i), pos: i }).collect();
        pairs.extend(which.iter().map(|&i| BasePair { g: h.bases.0[i].clone(), h: pk.b.clone(), n: pk.N.clone(), label: format!("(a_{}, b)", i), pos: i }));
        let mut secrets: Vec<(String, Integer)> = hidden_vals.iter().map(|(i, v)| (format!("hidden attribute m_{}", i), v.clone())).collect();
        secrets.push(("signature exponent e".into(), e));
        secrets.push(("signature component s".into(), s));
        Ok(View {
            kind: "signature-proof",
            proof: serde_json::to_value(&h.proof).unwrap(),
            pairs,
            n_attr: n,
            hidden,
            secrets,
            hidden_vals,
            all_vals: vals_copy,
            sig_v: Some(v),
            issuer_n: pk.N.clone(),
            a_bases: h.bases.0.clone(),
            b: pk.b.clone(),
            g_bases: h.cpk.g_bases.clone(),
            cpk_h: h.cpk.h.clone(),
            c_value: None,
        })
    }
}

fn pow(b: &Integer, e: &Integer, n: &Integer) -> Integer {
    Integer::from(b.pow_mod_ref(e, n).unwrap())
}

/// Attacker program 1: (value, randomness)-shaped objects.  Returns (path, base label, candidate index)
/// when g^candidate * h^randomness = value for one of the candidates.
pub fn attack_pairs(proof: &Value, pairs: &[BasePair], candidates: &[Integer]) -> Option<(String, String, usize)> {
    let mut objs: Vec<(String, Integer, Integer)> = vec![];
    fn walk(v: &Value, path: String, out: &mut Vec<(String, Integer, Integer)>) {
        if let Value::Object(m) = v {
            if let (Some(val), Some(r)) = (m.get("value").and_then(int_of), m.get("randomness").and_then(int_of)) {
                out.push((path.clone(), val, r));
            }
            for (k, x) in m {
                walk(x, format!("{}/{}", path, k), out);
            }
        } else if let Value::Array(a) = v {
            for (k, x) in a.iter().enumerate() {
                walk(x, format!("{}/{}", path, k), out);
            }
        }
    }
    walk(proof, String::new(), &mut objs);
    for (path, val, r) in &objs {
        for bp in pairs {
            let hr = pow(&bp.h, r, &bp.n);
            for (ci, cand) in candidates.iter().enumerate() {
                let lhs = pow(&bp.g, cand, &bp.n) * &hr % &bp.n;
                if lhs == (val % &bp.n).complete() {
                    return Some((path.clone(), bp.label.clone(), ci));
                }
            }
        }
    }
    None
}

/// Attacker program 2: every integer leaf as a possible value V and every integer leaf as a possible
/// randomness rho: V = g^candidate * h^rho ?  Returns (value path, rho path, base label, candidate index).
pub fn attack_all_leaves(proof: &Value, pairs: &[BasePair], candidates: &[Integer]) -> Option<(String, String, String, usize)> {
    let leaves = int_leaves(proof);
    // group the base pairs by (h, n): h^rho is shared
    let mut groups: Vec<(Integer, Integer, Vec<usize>)> = vec![];
    for (i, bp) in pairs.iter().enumerate() {
        match groups.iter_mut().find(|g| g.0 == bp.h && g.1 == bp.n) {
            Some(g) => g.2.push(i),
            None => groups.push((bp.h.clone(), bp.n.clone(), vec![i])),
        }
    }
    for (h, n, members) in &groups {
        let vals: std::collections::HashMap<Integer, &String> = leaves.iter().filter(|(_, v)| *v > 1 && v < n).map(|(p, v)| (v.clone(), p)).collect();
        let gc: Vec<(usize, usize, Integer)> = members.iter().flat_map(|&pi| candidates.iter().enumerate().map(move |(ci, c)| (pi, ci, c))).map(|(pi, ci, c)| (pi, ci, pow(&pairs[pi].g, c, n))).collect();
        for (rp, rho) in &leaves {
            if rho.significant_bits() > 4096 {
                continue;
            }
            let hr = pow(h, rho, n);
            for (pi, ci, g) in &gc {
                let t = (g * &hr).complete() % n;
                if let Some(vp) = vals.get(&t) {
                    return Some(((*vp).clone(), rp.clone(), pairs[*pi].label.clone(), *ci));
                }
            }
        }
    }
    None
}

/// Attacker program 3: recover v = V * g^(-rho) for leaf pairs (V, rho); success is judged by the
/// caller who knows v.  Returns every candidate value together with its provenance.
pub fn attack_recover_v(proof: &Value, pairs: &[BasePair], v_true: &Integer) -> Option<(String, String, String)> {
    let leaves = int_leaves(proof);
    for bp in pairs {
        let vals: Vec<(&String, &Integer)> = leaves.iter().filter(|(_, v)| *v > 1 && *v < bp.n).map(|(p, v)| (p, v)).collect();
        for (rp, rho) in &leaves {
            if *rho == 0 || rho.significant_bits() > 4096 {
                continue;
            }
            let ginv = pow(&bp.g, &(-rho.clone()), &bp.n);
            for (vp, val) in &vals {
                if ((*val * &ginv).complete() % &bp.n) == *v_true {
                    return Some(((*vp).clone(), rp.clone(), bp.label.clone()));
                }
            }
        }
    }
    None
}

/// Attacker program 4: arithmetic relations between a candidate and the integer fields: a field that is
/// the candidate itself, a multiple of it, or candidate * (another field) + small - responses that were
/// not blinded at all confirm a guess without any exponentiation.  Returns (path, relation, candidate index).
pub fn attack_arithmetic(proof: &Value, candidates: &[Integer]) -> Option<(String, String, usize)> {
    let leaves = int_leaves(proof);
    for (ci, cand) in candidates.iter().enumerate() {
        if *cand < 2 {
            continue;
        }
        for (p, s) in &leaves {
            if *s == 0 {
                continue;
            }
            if s == cand {
                return Some((p.clone(), "field == candidate".into(), ci));
            }
            if s.is_divisible(cand) {
                return Some((p.clone(), "candidate divides the field".into(), ci));
            }
            // field = t + candidate * c for two other fields t, c is too weak a test in general (t is a
            // free variable); the unblinded special cases t = 0 and t = candidate are the two above
        }
    }
    None
}

/// Attacker program 5: two responses that share their blinding under two different challenges:
/// (s - s') / (c - c') is then the secret itself.  `challenges` are the publicly recomputable ones.
/// Returns (s path, s' path, candidate index) when the exact quotient equals a candidate.
pub fn attack_difference_quotient(proof: &Value, challenges: &[Integer], candidates: &[Integer]) -> Option<(String, String, usize)> {
    let leaves: Vec<(String, Integer)> = int_leaves(proof).into_iter().filter(|(_, v)| v.significant_bits() > 300).collect();
    let mut dcs: Vec<Integer> = vec![];
    for i in 0..challenges.len() {
        for j in 0..challenges.len() {
            if i != j {
                let d = (&challenges[i] - &challenges[j]).complete();
                if d != 0 && !dcs.contains(&d) {
                    dcs.push(d);
                }
            }
        }
    }
    for (i, (p1, s1)) in leaves.iter().enumerate() {
        for (p2, s2) in leaves.iter().skip(i + 1) {
            let ds = (s1 - s2).complete();
            if ds == 0 {
                continue;
            }
            for dc in &dcs {
                if ds.is_divisible(dc) {
                    let q = (&ds / dc).complete();
                    if let Some(ci) = candidates.iter().position(|c| *c == q || *c == (-&q).complete()) {
                        return Some((p1.clone(), p2.clone(), ci));
                    }
                }
            }
        }
    }
    None
}

/// Program 6 (run by the witness holder, who knows every attribute): for every field that is a group element V and
/// every message part M the prover could have committed to under one base family (a single attribute, all of them,
/// the hidden ones, the revealed ones, nothing), the blinding part V / M.  Two different fields with the same
/// blinding part share their commitment randomness; their quotient is then the quotient of the message parts, and
/// when that quotient involves a hidden attribute the recipient confirms guesses for it (exactly, if it is the only
/// hidden one involved).  A blinding part equal to 1 is a commitment that was not blinded at all.
/// Returns (path 1, path 2, family label, positions in which the two message parts differ).
pub fn shared_blinding(v: &View) -> Option<(String, String, String, Vec<usize>)> {
    use std::collections::HashMap;
    let leaves = int_leaves(&v.proof);
    let mut groups: Vec<(Integer, Integer, Vec<&BasePair>)> = vec![];
    for bp in &v.pairs {
        match groups.iter_mut().find(|g| g.0 == bp.h && g.1 == bp.n) {
            Some(g) => g.2.push(bp),
            None => groups.push((bp.h.clone(), bp.n.clone(), vec![bp])),
        }
    }
    for (_, n, members) in &groups {
        // only complete families (a base for every attribute) allow the "all / hidden / revealed" parts
        let singles: Vec<(Vec<usize>, Integer)> = members.iter().filter(|bp| bp.pos < v.all_vals.len()).map(|bp| (vec![bp.pos], pow(&bp.g, &v.all_vals[bp.pos], n))).collect();
        let mut parts: Vec<(Vec<usize>, Integer)> = vec![(vec![], Integer::from(1))];
        parts.extend(singles.iter().cloned());
        let complete = (0..v.n_attr).all(|i| singles.iter().any(|s| s.0 == [i]));
        if complete && v.n_attr >= 2 {
            let prod = |sel: &dyn Fn(usize) -> bool| -> (Vec<usize>, Integer) {
                let mut pos = vec![];
                let mut m = Integer::from(1);
                for i in 0..v.n_attr {
                    if sel(i) {
                        pos.push(i);
                        m = m * &singles.iter().find(|s| s.0 == [i]).unwrap().1 % n;
                    }
                }
                (pos, m)
            };
            for p in [prod(&|_| true), prod(&|i| v.hidden.contains(&i)), prod(&|i| !v.hidden.contains(&i))] {
                if p.0.len() >= 2 && !parts.iter().any(|q| q.0 == p.0) {
                    parts.push(p);
                }
            }
        }
        let inv: Vec<(Vec<usize>, Integer)> = parts.into_iter().filter_map(|(s, m)| m.invert(n).ok().map(|i| (s, i))).collect();
        let mut seen: HashMap<Integer, (String, Integer, Vec<usize>)> = HashMap::new();
        for (path, val) in &leaves {
            if *val <= 1 || val >= n {
                continue;
            }
            for (s, mi) in &inv {
                let r = (val * mi).complete() % n;
                if r == 1 {
                    if s.iter().any(|i| v.hidden.contains(i)) {
                        return Some((path.clone(), "(no blinding at all)".into(), members[0].label.clone(), s.clone()));
                    }
                    continue;
                }
                match seen.get(&r) {
                    Some((p2, v2, s2)) if v2 != val => {
                        let diff: Vec<usize> = (0..v.n_attr).filter(|i| s.contains(i) != s2.contains(i)).collect();
                        if diff.iter().any(|i| v.hidden.contains(i)) {
                            return Some((p2.clone(), path.clone(), members[0].label.clone(), diff));
                        }
                    }
                    Some(_) => {}
                    None => {
                        seen.insert(r, (path.clone(), val.clone(), s.clone()));
                    }
                }
            }
        }
    }
    None
}

pub fn check_view(rep: &Report, ck: &str, c: &Case, v: &View) -> CheckResult {
    crate::props::c19::record_lengths(v);
    let cj = |d: Value| json!({"case": c, "kind": v.kind, "hidden": v.hidden, "detail": d});
    let mut st = (c.seed as u64) << 3 | 7;
    // (A) openings of known secrets in (value, randomness) objects
    let secret_vals: Vec<Integer> = v.secrets.iter().map(|s| s.1.clone()).collect();
    rep.eval(ck, 1);
    if let Some((path, base, si)) = attack_pairs(&v.proof, &v.pairs, &secret_vals) {
        return rep.fail(
            ck,
            &format!("opening-in-proof:{}:{}", v.kind, generic_path(&path)),
            format!("{}: the object at {} opens to the {} under the base pair {} (value = g^x * h^randomness)", v.kind, path, v.secrets[si].0, base),
            cj(json!({"path": path, "base": base, "secret": v.secrets[si].0})),
        );
    }
    // (B) any leaf as value, any leaf as randomness
    rep.eval(ck, 1);
    if let Some((vp, rp, base, si)) = attack_all_leaves(&v.proof, &v.pairs, &secret_vals) {
        return rep.fail(
            ck,
            &format!("opening-from-leaves:{}:{}:{}", v.kind, generic_path(&vp), generic_path(&rp)),
            format!("{}: leaf {} = g^x * h^(leaf {}) for x = the {} under {}", v.kind, vp, rp, v.secrets[si].0, base),
            cj(json!({"value": vp, "randomness": rp, "base": base, "secret": v.secrets[si].0})),
        );
    }
    // (C) recovery of the signature's v
    if let Some(vt) = &v.sig_v {
        rep.eval(ck, 1);
        if let Some((vp, rp, base)) = attack_recover_v(&v.proof, &v.pairs, vt) {
            return rep.fail(
                ck,
                &format!("v-recovered:{}:{}:{}", v.kind, generic_path(&vp), generic_path(&rp)),
                format!("{}: (leaf {}) * g^-(leaf {}) equals the signature's v under {} - presentations of the same signature are linkable", v.kind, vp, rp, base),
                cj(json!({"value": vp, "randomness": rp, "base": base})),
            );
        }
    }
    // (E) difference quotients of response pairs over pairs of stored challenges
    let stored_challenges: Vec<Integer> = int_leaves(&v.proof).into_iter().filter(|(p, _)| p.ends_with("/challenge")).map(|x| x.1).collect();
    let recomputed = crate::props::c19::public_challenges(v).unwrap_or_default();
    let all_ch: Vec<Integer> = stored_challenges.into_iter().chain(recomputed.into_iter().map(|x| x.1)).collect();
    rep.eval(ck, 1);
    if let Some((p1, p2, si)) = attack_difference_quotient(&v.proof, &all_ch, &secret_vals) {
        return rep.fail(
            ck,
            &format!("difference-quotient-yields-secret:{}:{}:{}", v.kind, generic_path(&p1), generic_path(&p2)),
            format!("{}: ({} - {}) / (c - c') for two public challenges equals the {} - the two responses share their blinding", v.kind, p1, p2, v.secrets[si].0),
            cj(json!({"s": p1, "s_prime": p2, "secret": v.secrets[si].0})),
        );
    }
    // (F) commitments that share their randomness (or have none)
    rep.eval(ck, 1);
    if let Some((p1, p2, fam, diff)) = shared_blinding(v) {
        return rep.fail(
            ck,
            &format!("commitments-share-their-randomness:{}:{}:{}", v.kind, generic_path(&p1), generic_path(&p2)),
            format!("{}: {} and {} carry the same blinding part under the base family of {}; their quotient is a product over attribute positions {:?} alone, which confirms guesses for the hidden one(s) among them", v.kind, p1, p2, fam, diff),
            cj(json!({"field_1": p1, "field_2": p2, "positions": diff})),
        );
    }
    // (I) range proofs: E_a_2 / E_b_2 recomputed as bare powers of the second parts of the square decompositions
    // (CL1024 / CL2048 / CL3072 share lm = 256 and le = 258; ln is read off the modulus)
    rep.eval(ck, 1);
    if let Some((path, field)) = crate::props::c19::unblinded_range_parts(v, 256, 258, (v.issuer_n.significant_bits() / 512) * 512) {
        return rep.fail(
            ck,
            &format!("range-proof-part-not-blinded:{}:{}:{}", v.kind, generic_path(&path), field),
            format!("{}: {}/proof_of_tolerance/{} is a bare power g^x: a guessed committed value is confirmed by recomputing it", v.kind, path, field),
            cj(json!({"range_proof": path, "field": field})),
        );
    }
    // (G) a field that is exactly 0 or 1 where the honest prover puts a blinded value: a response whose blinding was
    // skipped for a special value (a hidden attribute equal to 0) confirms that value at sight
    rep.eval(ck, 1);
    if let Some((path, val)) = int_leaves(&v.proof).into_iter().find(|(p, x)| (*x == 0 || *x == 1) && !p.ends_with("/randomness")) {
        return rep.fail(
            ck,
            &format!("degenerate-field:{}:{}", v.kind, generic_path(&path)),
            format!("{}: the field {} is exactly {} (hidden attributes: {:?})", v.kind, path, val, v.hidden_vals.iter().map(|(i, x)| format!("m_{} = {}", i, short(x))).collect::<Vec<_>>()),
            cj(json!({"field": path})),
        );
    }
    // (H) two fields with the same value: legitimate only for a commitment that the proof carries twice because the
    // verifier compares the two copies (.../E, .../commitment/value, .../Ce/value, E_a_1, E_b_1).  Equal responses
    // (e.g. for two hidden attributes with the same value, or for blinding derived from the value) tell the
    // recipient that the two secrets are equal
    {
        let copy_ok = |p: &str| p.ends_with("/E") || p.ends_with("/value") || p.ends_with("/E_a_1") || p.ends_with("/E_b_1");
        let mut seen: std::collections::HashMap<Integer, String> = std::collections::HashMap::new();
        rep.eval(ck, 1);
        for (p, x) in int_leaves(&v.proof) {
            if x.significant_bits() < 64 {
                continue;
            }
            if let Some(q) = seen.get(&x) {
                if !(copy_ok(q) && copy_ok(&p)) {
                    return rep.fail(
                        ck,
                        &format!("equal-fields:{}:{}:{}", v.kind, generic_path(q), generic_path(&p)),
                        format!("{}: the fields {} and {} carry the same value ({} bits)", v.kind, q, p, x.significant_bits()),
                        cj(json!({"field_1": q, "field_2": p})),
                    );
                }
            } else {
                seen.insert(x, p);
            }
        }
    }
    // (D) dictionary attack: true value vs decoy, order decided by the seed; the attacker sees only
    // the proof, the public base pairs and the two candidates
    for (pos, truth) in &v.hidden_vals {
        let decoy = attr_random(&mut st);
        let flip = splitmix(&mut st) & 1 == 1;
        let cands = if flip { vec![decoy.clone(), truth.clone()] } else { vec![truth.clone(), decoy.clone()] };
        let guess = attack_pairs(&v.proof, &v.pairs, &cands)
            .map(|x| x.2)
            .or_else(|| attack_arithmetic(&v.proof, &cands).map(|x| x.2))
            .or_else(|| attack_difference_quotient(&v.proof, &all_ch, &cands).map(|x| x.2))
            .or_else(|| attack_all_leaves(&v.proof, &v.pairs, &cands).map(|x| x.3));
        rep.eval(ck, 1);
        if let Some(g) = guess {
            let right = (g == 1) == flip;
            return rep.fail(
                ck,
                &format!("dictionary-attack-succeeds:{}", v.kind),
                format!("{}: given two candidates for hidden attribute {}, recomputation from the proof singles out candidate {} ({})", v.kind, pos, g, if right { "the committed one" } else { "the decoy (!)" }),
                cj(json!({"position": pos})),
            );
        }
    }
    rep.nontrivial(ck, c);
    rep.class(&format!("kind:{}", v.kind));
    rep.class(&format!("n={},|U|={}", v.n_attr, v.hidden.len()));
    rep.sample(ck, json!({"kind": v.kind, "n": v.n_attr, "hidden": v.hidden, "integer_leaves": int_leaves(&v.proof).len(), "base_pairs": v.pairs.len()}));
    Ok(())
}

/// Two presentations of the same credential to the same commitment key, generated one after the other on the same
/// thread: no field may repeat (the recipient could link them), and no difference quotient (s - s') / (c - c') of
/// the same field over the two challenges may equal a secret of the holder.
pub fn two_presentations<CS: CLCiphersuite>(rep: &Report, ck: &str, c: &Case, sh: &Shared) -> CheckResult
where
    CS::HashAlg: digest::Digest,
{
    let key = &sh.keys[pick(c.key, sh.keys.len())];
    let pk = &key.pk;
    let n = c.n;
    let hidden: Vec<usize> = (0..n.min(8)).filter(|i| c.hidden_mask >> i & 1 == 1).collect();
    let mut st = (c.seed as u64) << 9 | 3;
    let vals: Vec<Integer> = (0..n).map(|_| attr_random(&mut st)).collect();
    let cj = |d: Value| json!({"case": c, "hidden": hidden, "detail": d});
    let h = match c15::honest::<CS>(key, n, &hidden, vals.clone(), false) {
        Ok(h) => h,
        Err(e) => return rep.fail(ck, "honest-generation-failed", e, cj(json!(null))),
    };
    // second presentation: same signature, same commitment key, other hidden set when there is one
    let hidden2: Vec<usize> = if c.seed % 2 == 0 || n < 2 { hidden.clone() } else { (0..n).filter(|i| !hidden.contains(i) || *i == hidden[0]).collect() };
    let p2 = match catch(|| PoKSignature::<CL03<CS>>::proof_gen(h.sig.cl03Signature(), &h.cpk, pk, &h.bases, &h.msgs, &hidden2)) {
        Ok(p) => p,
        Err(e) => return rep.fail(ck, "honest-generation-failed", format!("second presentation: {}", e), cj(json!(null))),
    };
    let (j1, j2) = (serde_json::to_value(&h.proof).unwrap(), serde_json::to_value(&p2).unwrap());
    let (l1, l2) = (int_leaves(&j1), int_leaves(&j2));
    let sj = serde_json::to_value(&h.sig).unwrap();
    let mut secrets: Vec<(String, Integer)> = vec![("signature exponent e".into(), int_of(&sj["CL03"]["e"]).unwrap()), ("signature component s".into(), int_of(&sj["CL03"]["s"]).unwrap()), ("signature component v".into(), int_of(&sj["CL03"]["v"]).unwrap())];
    secrets.extend(vals.iter().enumerate().filter(|(i, _)| hidden.contains(i) || hidden2.contains(i)).map(|(i, v)| (format!("hidden attribute m_{}", i), v.clone())));
    // (i) repeated fields
    rep.eval(ck, 1);
    let set1: std::collections::HashMap<&Integer, &String> = l1.iter().filter(|(_, v)| v.significant_bits() >= 64).map(|(p, v)| (v, p)).collect();
    for (p, v) in &l2 {
        if let Some(q) = set1.get(v) {
            return rep.fail(
                ck,
                &format!("field-repeats-across-presentations:{}:{}", generic_path(q), generic_path(p)),
                format!("two presentations of one credential (hidden {:?} and {:?} of {}): {} of the first equals {} of the second - the recipient links them", hidden, hidden2, n, q, p),
                cj(json!({"first": q, "second": p})),
            );
        }
    }
    // (ii) difference quotients of the same field over the two stored challenges
    let ch = |l: &[(String, Integer)]| l.iter().find(|(p, _)| p == "/CL03/spok/challenge").map(|x| x.1.clone());
    if let (Some(c1), Some(c2)) = (ch(&l1), ch(&l2)) {
        let dc = (&c1 - &c2).complete();
        rep.eval(ck, 1);
        if dc != 0 {
            let m2: std::collections::HashMap<&String, &Integer> = l2.iter().map(|(p, v)| (p, v)).collect();
            for (p, v1) in &l1 {
                let Some(v2) = m2.get(p) else { continue };
                let ds = (v1 - *v2).complete();
                if ds == 0 || !ds.is_divisible(&dc) {
                    continue;
                }
                let q = (&ds / &dc).complete();
                if let Some(sx) = secrets.iter().find(|s| s.1 == q || s.1 == (-&q).complete()) {
                    return rep.fail(
                        ck,
                        &format!("difference-quotient-across-presentations:{}", generic_path(p)),
                        format!("two presentations of one credential: ({} - its counterpart) / (c - c') equals the {} - the two proofs share their blinding", p, sx.0),
                        cj(json!({"field": p, "secret": sx.0})),
                    );
                }
            }
        }
    }
    rep.nontrivial(ck, &json!({"two": c}));
    rep.class("two-presentations-of-one-credential");
    Ok(())
}

/// positive control of the attacker programs: a proof-shaped object that DOES carry an opening must be found
fn self_test(sh: &Shared) -> Result<(), String> {
    let key = &sh.keys[0];
    let bases = Bases::generate(&key.pk, 1);
    let mut st = 99u64;
    let m = attr_random(&mut st);
    let com = Commitment::<CL03<CL1024Sha256>>::commit_with_pk(&[CL03Message::new(m.clone())], &key.pk, &bases, None);
    let leaky = json!({"x": {"commitment": serde_json::to_value(com.cl03Commitment()).unwrap()}});
    let pairs = vec![BasePair { g: bases.0[0].clone(), h: key.pk.b.clone(), n: key.pk.N.clone(), label: "(a_0, b)".into(), pos: 0 }];
    let decoy = attr_random(&mut st);
    if attack_pairs(&leaky, &pairs, &[decoy.clone(), m.clone()]).map(|x| x.2) != Some(1) {
        return Err("attack_pairs misses a planted opening".into());
    }
    if attack_all_leaves(&leaky, &pairs, &[decoy.clone(), m.clone()]).map(|x| x.3) != Some(1) {
        return Err("attack_all_leaves misses a planted opening".into());
    }
    let unblinded = json!({"s": serde_json::to_value(&m * Integer::from(12345u32)).unwrap()});
    if attack_arithmetic(&unblinded, &[decoy, m]).map(|x| x.2) != Some(1) {
        return Err("attack_arithmetic misses a planted multiple".into());
    }
    Ok(())
}

pub fn shared(ctx: &Ctx, with_tp: bool) -> Shared {
    std::thread::scope(|s| {
        let h = if with_tp { Some(s.spawn(|| CL03CommitmentPublicKey::generate::<CL1024Sha256>(None, Some(8)))) } else { None };
        let keys = key_pool(ClSuite::CL1024, 1, ctx.tier.pick(3, 6), ctx.seed);
        Shared { keys, tp: h.and_then(|h| h.join().ok()) }
    })
}

pub fn fixed_cases(ctx: &Ctx, nmax: usize) -> Vec<Case> {
    let mut out = vec![];
    let mut k = 0u32;
    for n in 1..=nmax {
        for mask in 1u8..(1 << n) {
            for kind in 0..3u8 {
                k += 1;
                if kind == 1 && k % 2 == 0 {
                    continue;
                }
                out.push(Case { key: (k * 7919) as u16, n, hidden_mask: mask, kind, seed: (ctx.seed as u32).wrapping_add(k), small_mask: 0, hidden_list: vec![], spare: if kind < 2 { (k % 3) as u8 } else { 0 }, eq_hidden: mask.count_ones() >= 2 && k % 2 == 0 });
            }
        }
    }
    // full disclosure (nothing hidden): e, v and the commitment randomness must still stay hidden
    for n in 1..=3usize {
        k += 1;
        out.push(Case { key: (k * 7919) as u16, n, hidden_mask: 0, kind: 2, seed: (ctx.seed as u32).wrapping_add(k), small_mask: 0, hidden_list: vec![], spare: 0, eq_hidden: false });
    }
    // many attributes, hidden positions beyond 32 and 64
    for (n, hl) in [(34usize, vec![33usize]), (66, vec![64]), (66, vec![2, 65]), (70, vec![0, 31, 32, 63, 64, 69])] {
        k += 1;
        out.push(Case { key: (k * 7919) as u16, n, hidden_mask: 0, kind: 2, seed: (ctx.seed as u32).wrapping_add(k), small_mask: 0, hidden_list: hl, spare: 0, eq_hidden: false });
    }
    // issuance proofs (with and without the trusted party) with the hidden positions listed out of ascending order:
    // a caller's spelling of the same set; what the library accepts in that spelling is judged like any other proof
    for (n, hl) in [(2usize, vec![1usize, 0]), (3, vec![2, 0]), (3, vec![1, 2, 0]), (3, vec![2, 1]), (4, vec![3, 1, 0]), (5, vec![4, 0, 2])] {
        for kind in 0..2u8 {
            k += 1;
            out.push(Case { key: (k * 7919) as u16, n, hidden_mask: 0, kind, seed: (ctx.seed as u32).wrapping_add(k), small_mask: 0, hidden_list: hl.clone(), spare: (k % 2) as u8, eq_hidden: false });
        }
    }
    // larger attribute counts: first / last / alternating positions hidden
    for n in [6usize, 8] {
        for (j, mask) in [1u8, 1 << (n - 1), 0b10100101 & (((1u16 << n) - 1) as u8)].into_iter().enumerate() {
            k += 1;
            out.push(Case { key: (k * 7919) as u16, n, hidden_mask: mask, kind: [2u8, 0, 2][j], seed: (ctx.seed as u32).wrapping_add(k), small_mask: 0, hidden_list: vec![], spare: 0, eq_hidden: false });
        }
    }
    out
}

pub fn run(ctx: &Ctx, rep: &Report) -> Meta {
    let sh = shared(ctx, true);
    if let Err(e) = self_test(&sh) {
        out(&format!("INCONCLUSIVE property=C17 attacker-program self-test failed: {}", e));
        std::process::exit(2);
    }
    rep.note("attacker programs find a planted opening (positive control)".into());
    // another (smaller) ciphersuite is used first in this process; its proofs are not judged
    rep.note(format!("a complete run under a 512-bit parameter set declared through CLCiphersuite preceded the judged proofs (went through: {})", other_suite_first()));
    let nmax = ctx.tier.pick(3usize, 5usize);
    let fixed = fixed_cases(ctx, nmax);
    let one = |rep: &Report, ck: &str, c: &Case| -> CheckResult {
        match view_or_skip::<CL1024Sha256>(rep, ck, c, &sh)? {
            Some(v) => check_view(rep, ck, c, &v),
            None => Ok(()),
        }
    };
    par_items(ctx, rep, "every-hidden-set", &fixed, |c| one(rep, "every-hidden-set", c));
    run_cases(ctx, rep, "generated", ctx.tier.pick(24, 300), 20, || strat(nmax.max(4)), |c| one(rep, "generated", c));
    // two presentations of one credential on one thread
    let twice: Vec<Case> = fixed.iter().filter(|c| c.kind == 2 && c.hidden_list.is_empty()).step_by(ctx.tier.pick(2, 1)).cloned().collect();
    par_items(ctx, rep, "two-presentations", &twice, |c| two_presentations::<CL1024Sha256>(rep, "two-presentations", c, &sh));
    // hidden attributes with the values 0 and 1: the programs that need no high-entropy candidate (A, B, C, E, F, G)
    let small: Vec<Case> = fixed
        .iter()
        .enumerate()
        .filter(|(k, c)| k % ctx.tier.pick(4, 2) == 0 && c.hidden_list.is_empty() && c.hidden_mask != 0)
        .map(|(k, c)| Case { small_mask: if k % 8 == 0 { c.hidden_mask } else { 1 << c.hidden_mask.trailing_zeros() }, seed: c.seed.wrapping_add(2000 + k as u32), ..c.clone() })
        .collect();
    par_items(ctx, rep, "small-attributes", &small, |c| one(rep, "small-attributes", c));
    // run-level statistic: the length of a field that belongs to a hidden attribute must not follow the size of
    // that attribute (the recipient would tell a small value from a digest at sight)
    if !rep.aborted() {
        match crate::props::c19::judge_lengths() {
            Ok(n) => rep.note(format!("length statistic: {} (kind, field) pairs compared between small and full-size hidden attributes", n)),
            Err((site, msg)) => rep.add_violation(Fail { check: "field-lengths".into(), site, msg, case: json!({"statistic": "field lengths over the run"}) }),
        }
    }
    // larger suites after the CL1024 proofs of this process (quick: two CL2048 proofs): the order "smaller suite
    // first" is the one in which state sized by the first suite is too small for the next
    if !rep.aborted() {
        let later: Vec<(ClSuite, usize, u32)> = if ctx.tier == Tier::Thorough { vec![(ClSuite::CL2048, 2, 12), (ClSuite::CL3072, 2, 12)] } else { vec![(ClSuite::CL2048, 1, 2)] };
        for (s2, nfix, ncases) in later {
            let keys = key_pool(s2, 0, nfix, ctx.seed);
            if keys.is_empty() {
                continue;
            }
            let sh2 = Shared { keys, tp: None };
            let ckn = format!("generated-{}", s2.name());
            run_cases(ctx, rep, &ckn, ncases, 5, || strat(3), |c| {
                let r = with_cl!(s2, CS => build_view::<CS>(c, &sh2));
                match r {
                    Ok(v) => check_view(rep, &ckn, c, &v),
                    Err(e) => rep.fail(&ckn, "honest-generation-failed", e, json!({"case": c})),
                }
            });
        }
    }
    Meta {
        rule: "honest issuance proofs (with and without trusted-party commitment) and signature proofs for EVERY non-empty hidden set (n = 1..3 quick / 1..5 thorough) plus generated cases, issuance proofs whose hidden positions are listed in descending / mixed order (judged when the library goes through with that spelling), high-entropy 256-bit attributes only, issuers with 0..3 more bases than attributes, a third of the generations right after a refused request (hidden position out of range) on the same thread; \
               attacker programs over serde_json::to_value(proof) and the public base pairs {(a_i, b), (g_i, h)}: (A) every (value, randomness)-shaped object tested as an opening of every secret the prover holds, \
               (B) every integer leaf as value against every integer leaf as randomness, (C) recovery of the signature's v as V * g^(-rho) over all leaf pairs, (D) dictionary attack with the true hidden attribute and a decoy in seed-shuffled order, by opening recomputation, by arithmetic relations (a field equal to or a multiple of the candidate) and by difference quotients (s - s')/(c - c') over all response pairs and all pairs of public challenges (shared blinding inside one proof), two-presentations: two proofs of one credential for the same commitment key generated in sequence on one thread share no field of 64 bits or more and no difference quotient (s - s')/(c - c') of a field over the two challenges equals e, s, v or a hidden attribute; (H) no two fields carry the same value unless both are copies of a commitment the verifier compares (half of the cases with two or more hidden attributes give them all the same value), over the whole run no field that belongs to a hidden attribute is always at least 24 bits shorter when the attribute is below 2^64; (I) E_a_2 / E_b_2 of every embedded range proof are not the bare powers g^x of the second parts recomputed by the witness holder, (G) no field outside the stripped commitment randomness is exactly 0 or 1 (also with hidden attributes forced to 0 / 1: small-attributes), (F, by the witness holder) the blinding part V / M of every group-element field for every message part M in {one attribute, all, hidden, revealed, none} under each base family: two different fields with the same blinding part whose message parts differ in a hidden position, or a blinding part equal to 1; \
               oracle: no program succeeds; positive control: the programs find a planted opening; non-trivial = proof with >= 1 hidden attribute; evaluations = attacker-program runs"
            .into(),
        assumptions: vec!["only the direct recomputation attacks named by the property are decided; subtler leaks are not found".into(), "attributes are random 256-bit values, so an accidental equality has probability < 2^-200".into()],
    }
}

pub fn replay(ctx: &Ctx, rep: &Report, ck: &str, case: &Value) -> CheckResult {
    if ck == "field-lengths" {
        return crate::props::c19::replay(ctx, rep, ck, case);
    }
    let c: Case = serde_json::from_value(case["case"].clone()).map_err(|e| Fail { check: ck.into(), site: "replay-parse".into(), msg: e.to_string(), case: case.clone() })?;
    let sh = shared(ctx, c.kind % 3 == 1);
    if ck == "two-presentations" {
        return two_presentations::<CL1024Sha256>(rep, ck, &c, &sh);
    }
    match view_or_skip::<CL1024Sha256>(rep, ck, &c, &sh)? {
        Some(v) => check_view(rep, ck, &c, &v),
        None => Ok(()),
    }
}
