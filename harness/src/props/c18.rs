//! C18 — CL03 keys and parameters are well formed and survive their encodings.

use crate::cl::*;
use crate::clmath::{gcd, is_prime, jacobi};
use crate::engine::*;
use crate::with_cl;
use proptest::prelude::*;
use rug::{Complete, Integer};
use serde::{Deserialize, Serialize};
use serde_json::{json, Value};
use zkryptium::utils::random::{rand_int, random_bits, random_number, random_prime, random_qr};

fn prime2(x: &Integer) -> bool {
    is_prime(x) && x.is_probably_prime(30) != rug::integer::IsPrime::No
}

/// residuosity of x modulo N = p q with known factors, plus range / gcd
fn check_qr(name: &str, x: &Integer, n: &Integer, p: &Integer, q: &Integer) -> Result<(), (String, String)> {
    if *x <= 1 || x >= n {
        return Err((format!("element-out-of-range:{}", name), format!("{} = {} is not in (1, N)", name, short(x))));
    }
    if gcd(x, n) != 1 {
        return Err((format!("element-not-coprime:{}", name), format!("gcd({}, N) != 1", name)));
    }
    if jacobi(x, p) != 1 || jacobi(x, q) != 1 {
        return Err((format!("element-not-a-quadratic-residue:{}", name), format!("{} = {} is not a square modulo N (Jacobi symbols {} / {})", name, short(x), jacobi(x, p), jacobi(x, q))));
    }
    Ok(())
}

fn check_modulus(n: &Integer, p: &Integer, q: &Integer, secparam: u32) -> Result<(), (String, String)> {
    if (p * q).complete() != *n {
        return Err(("modulus-not-pq".into(), "N != p * q".into()));
    }
    if p == q {
        return Err(("modulus-p-equals-q".into(), "p == q".into()));
    }
    for (nm, x) in [("p", p), ("q", q)] {
        if !prime2(x) {
            return Err((format!("factor-not-prime:{}", nm), format!("{} = {} is composite", nm, x)));
        }
        let half = (x - 1u32).complete() >> 1;
        if !prime2(&half) {
            return Err((format!("factor-not-a-safe-prime:{}", nm), format!("({} - 1) / 2 is composite for {} = {}", nm, nm, x)));
        }
        if x.significant_bits() != secparam + 1 {
            return Err((format!("factor-wrong-size:{}", nm), format!("{} has {} bits, configured {}", nm, x.significant_bits(), secparam + 1)));
        }
    }
    Ok(())
}

fn key_case<CS: CLCiphersuite>(rep: &Report, ck: &str, idx: usize, n_bases: usize, from_fixture: Option<&ClKey>) -> CheckResult
where
    CS::HashAlg: digest::Digest,
{
    let cj = |d: Value| json!({"key_index": idx, "suite": std::any::type_name::<CS>(), "detail": d});
    let kp_owned;
    let (pk, sk, kp_json): (CL03PublicKey, CL03SecretKey, Option<String>) = match from_fixture {
        Some(k) => (k.pk.clone(), k.sk.clone(), None),
        None => {
            kp_owned = KeyPair::<CL03<CS>>::generate();
            (kp_owned.public_key().clone(), kp_owned.private_key().clone(), Some(serde_json::to_string(&kp_owned).unwrap()))
        }
    };
    let fail = |e: (String, String)| rep.fail(ck, &e.0, format!("{} (N = {})", e.1, short(&pk.N)), cj(json!({"N": pk.N.to_string(), "p": sk.p.to_string(), "q": sk.q.to_string()})));
    rep.eval(ck, 1);
    if let Err(e) = check_modulus(&pk.N, &sk.p, &sk.q, CS::SECPARAM) {
        return fail(e);
    }
    if pk.N.significant_bits() > CS::ln + 2 || pk.N.significant_bits() < CS::ln {
        return fail(("modulus-wrong-size".into(), format!("N has {} bits", pk.N.significant_bits())));
    }
    for (nm, x) in [("b", &pk.b), ("c", &pk.c)] {
        rep.eval(ck, 1);
        if let Err(e) = check_qr(nm, x, &pk.N, &sk.p, &sk.q) {
            return fail(e);
        }
    }
    if pk.b == pk.c {
        return fail(("b-equals-c".into(), "b == c".into()));
    }
    let bases = Bases::generate(&pk, n_bases);
    if bases.0.len() != n_bases {
        return fail(("bases-count".into(), format!("{} bases for {} attributes", bases.0.len(), n_bases)));
    }
    for (i, a) in bases.0.iter().enumerate() {
        rep.eval(ck, 1);
        if let Err(e) = check_qr("a_i", a, &pk.N, &sk.p, &sk.q) {
            return fail((e.0, format!("a_{}: {}", i, e.1)));
        }
        if bases.0[..i].contains(a) || *a == pk.b || *a == pk.c {
            return fail(("base-repeated".into(), format!("a_{} repeats another public element", i)));
        }
    }
    // commitment key over the issuer modulus
    let cpk = CL03CommitmentPublicKey::generate::<CS>(Some(pk.N.clone()), Some(n_bases));
    if cpk.N != pk.N || cpk.g_bases.len() != n_bases {
        return fail(("commitment-key-shape".into(), "commitment key does not use the supplied modulus / base count".into()));
    }
    let (pp, qq) = ((&sk.p - 1u32).complete() >> 1, (&sk.q - 1u32).complete() >> 1);
    rep.eval(ck, 1);
    if let Err(e) = check_qr("h", &cpk.h, &pk.N, &sk.p, &sk.q) {
        return fail(e);
    }
    // h generates QR_N (order p'q'): h^p' != 1 != h^q'
    if Integer::from(cpk.h.pow_mod_ref(&pp, &pk.N).unwrap()) == 1 || Integer::from(cpk.h.pow_mod_ref(&qq, &pk.N).unwrap()) == 1 {
        return fail(("h-does-not-generate-QR_N".into(), "h has small order".into()));
    }
    for (i, g) in cpk.g_bases.iter().enumerate() {
        rep.eval(ck, 1);
        if let Err(e) = check_qr("g_i", g, &pk.N, &sk.p, &sk.q) {
            return fail((e.0, format!("g_{} (must lie in <h> = QR_N): {}", i, e.1)));
        }
    }
    // codecs
    rep.eval(ck, 6);
    let pkb = pk.to_bytes::<CL03<CS>>();
    if catch(|| CL03PublicKey::from_bytes::<CL03<CS>>(&pkb)).ok().as_ref() != Some(&pk) {
        return fail(("pk-bytes-roundtrip".into(), format!("from_bytes(to_bytes(pk)) != pk ({} octets)", pkb.len())));
    }
    let skb = sk.to_bytes::<CL03<CS>>();
    if catch(|| CL03SecretKey::from_bytes::<CL03<CS>>(&skb)).ok().as_ref() != Some(&sk) {
        return fail(("sk-bytes-roundtrip".into(), format!("from_bytes(to_bytes(sk)) != sk ({} octets)", skb.len())));
    }
    macro_rules! js {
        ($name:expr, $ty:ty, $v:expr) => {
            let s = serde_json::to_string($v).unwrap();
            match serde_json::from_str::<$ty>(&s) {
                Ok(b) if serde_json::to_string(&b).unwrap() == s => {}
                _ => return fail((format!("json-roundtrip:{}", $name), format!("{} does not survive serde_json", $name))),
            }
            // the other ways a JSON document reaches the type: an owned Value, a reader (a key file), a byte slice
            let via_value = serde_json::to_value($v).ok().and_then(|val| serde_json::from_value::<$ty>(val).ok()).map(|b| serde_json::to_string(&b).unwrap());
            let via_reader = serde_json::from_reader::<_, $ty>(std::io::Cursor::new(s.as_bytes().to_vec())).ok().map(|b| serde_json::to_string(&b).unwrap());
            let via_slice = serde_json::from_slice::<$ty>(s.as_bytes()).ok().map(|b| serde_json::to_string(&b).unwrap());
            for (how, got) in [("from_value", via_value), ("from_reader", via_reader), ("from_slice", via_slice)] {
                if got.as_deref() != Some(s.as_str()) {
                    return fail((format!("json-roundtrip:{}:{}", $name, how), format!("{} written by serde_json is not read back by serde_json::{}", $name, how)));
                }
            }
        };
    }
    js!("pk", CL03PublicKey, &pk);
    js!("sk", CL03SecretKey, &sk);
    js!("commitment-key", CL03CommitmentPublicKey, &cpk);
    // the empty spellings: a commitment key without attribute bases (None and Some(0)) and an empty base set
    if idx % 8 == 0 {
        for (how, k0) in [("Some(0)", catch(|| CL03CommitmentPublicKey::generate::<CS>(Some(pk.N.clone()), Some(0)))), ("None", catch(|| CL03CommitmentPublicKey::generate::<CS>(Some(pk.N.clone()), None)))] {
            if let Ok(k0) = k0 {
                rep.eval(ck, 1);
                rep.class(&format!("commitment-key-with-{}-bases:{}", k0.g_bases.len(), how));
                js!("commitment-key-without-or-default-bases", CL03CommitmentPublicKey, &k0);
            }
        }
        if let Ok(b0) = catch(|| Bases::generate(&pk, 0)) {
            js!("bases-empty", Bases, &b0);
        }
    }
    js!("bases", Bases, &bases);
    if let Some(s) = &kp_json {
        match serde_json::from_str::<KeyPair<CL03<CS>>>(s) {
            Ok(k2) if serde_json::to_string(&k2).unwrap() == *s && k2.public_key() == &pk && k2.private_key() == &sk => {}
            _ => return fail(("json-roundtrip:keypair".into(), "key pair does not survive serde_json".into())),
        }
    }
    // the library's own file encoder (KeyPair::write_keypair_to_file): the file has to hold exactly this key pair,
    // whatever the path held before: something longer, the previous key pair of this thread, this key pair
    if let (Some(s), true) = (&kp_json, idx % 4 == 0) {
        thread_local! {
            static PREVIOUS: std::cell::RefCell<Option<String>> = std::cell::RefCell::new(None);
        }
        let dir = format!("{}/.build/tmp", verif_dir());
        let dir = if std::fs::create_dir_all(&dir).is_ok() { dir } else { std::env::temp_dir().to_string_lossy().into_owned() };
        let path = format!("{}/zkverif-keypair-{}-{}.json", dir, std::process::id(), idx);
        let previous = PREVIOUS.with(|p| p.borrow().clone());
        let mut steps: Vec<(&str, String)> = vec![("over a longer file", s.clone())];
        if let Some(pv) = &previous {
            steps.push(("the previous key pair of this thread into the same path", pv.clone()));
            steps.push(("this key pair again", s.clone()));
        }
        let expected = |js: &str| serde_json::from_str::<Value>(js).unwrap();
        let _ = std::fs::write(&path, format!("{}{}", serde_json::to_string_pretty(&expected(s)).unwrap(), "#".repeat(37)));
        for (what, js) in steps {
            let k: KeyPair<CL03<CS>> = match serde_json::from_str(&js) {
                Ok(k) => k,
                Err(_) => break,
            };
            rep.eval(ck, 1);
            let wrote = catch(|| k.write_keypair_to_file(Some(path.clone())));
            let back = std::fs::read_to_string(&path).ok().and_then(|t| serde_json::from_str::<Value>(&t).ok());
            if wrote.is_err() || back != Some(expected(&js)) {
                let len = std::fs::metadata(&path).map(|m| m.len()).unwrap_or(0);
                let _ = std::fs::remove_file(&path);
                return fail(("keypair-file".into(), format!("write_keypair_to_file ({}): the file ({} octets) does not read back as the key pair that was written", what, len)));
            }
            rep.class("keypair-file-written-and-read-back");
        }
        let _ = std::fs::remove_file(&path);
        PREVIOUS.with(|p| *p.borrow_mut() = Some(s.clone()));
    }
    // a signature and a commitment made with this key: exponent sizes and codecs
    let m = CL03Message::new(Integer::from(42));
    let sig = Signature::<CL03<CS>>::sign(&pk, &sk, &bases, &m);
    let sb = sig.to_bytes();
    rep.eval(ck, 4);
    if Signature::<CL03<CS>>::from_bytes(&sb) != sig {
        return fail(("signature-bytes-roundtrip".into(), "from_bytes(to_bytes(sig)) != sig".into()));
    }
    js!("signature", Signature<CL03<CS>>, &sig);
    // signatures whose v has leading zero bytes / tiny / maximal components survive the byte codec as well
    {
        let nbytes = ((CS::ln + 7) / 8) as u32;
        for (what, v2) in [("v = 1", Integer::from(1)), ("v with one leading zero byte", (Integer::from(1) << (8 * (nbytes - 1))) - 1u32), ("v with three leading zero bytes", (Integer::from(1) << (8 * (nbytes - 3))) - 7u32), ("v = N - 1", (&pk.N - 1u32).complete())] {
            let sg: Signature<CL03<CS>> = serde_json::from_value(json!({"CL03": {"e": int_val(&Integer::from(5)), "s": int_val(&Integer::from(9)), "v": int_val(&v2)}})).unwrap();
            rep.eval(ck, 1);
            if catch(|| Signature::<CL03<CS>>::from_bytes(&sg.to_bytes()) == sg).unwrap_or(false) != true {
                return fail(("signature-bytes-roundtrip:special-values".into(), format!("from_bytes(to_bytes(sig)) fails or differs for {}", what)));
            }
        }
    }
    let com = Commitment::<CL03<CS>>::commit_with_pk(&[m.clone()], &pk, &bases, None);
    if com.randomness().significant_bits() != CS::ln {
        return fail(("commitment-randomness-wrong-length".into(), format!("{} bits, configured {}", com.randomness().significant_bits(), CS::ln)));
    }
    let com2 = Commitment::<CL03<CS>>::commit_with_commitment_pk(&[m], &cpk, None);
    if com2.randomness().significant_bits() != CS::ln {
        return fail(("commitment-randomness-wrong-length".into(), format!("{} bits, configured {}", com2.randomness().significant_bits(), CS::ln)));
    }
    // random_qr against the known factors
    for _ in 0..4 {
        let x = random_qr(&pk.N);
        rep.eval(ck, 1);
        if let Err(e) = check_qr("random_qr", &x, &pk.N, &sk.p, &sk.q) {
            return fail(e);
        }
    }
    rep.nontrivial(ck, &json!({"N": pk.N.to_string()}));
    rep.class(&format!("key:{}", if from_fixture.is_some() { "fixture-primes" } else { "generate()" }));
    rep.sample(ck, json!({"N_bits": pk.N.significant_bits(), "p_bits": sk.p.significant_bits(), "bases": n_bases, "pk_octets": pkb.len(), "sk_octets": skb.len(), "sig_octets": sb.len()}));
    Ok(())
}

fn own_modulus_case<CS: CLCiphersuite>(rep: &Report, ck: &str, n_bases: usize) -> CheckResult {
    let _ = zkryptium::verif_hooks::take_modulus_factors();
    let cpk = CL03CommitmentPublicKey::generate::<CS>(None, Some(n_bases));
    let cj = |d: Value| json!({"N": cpk.N.to_string(), "detail": d});
    let Some((ps, qs)) = zkryptium::verif_hooks::take_modulus_factors() else {
        out("INCONCLUSIVE property=C18 hook H2 did not record the factors of the commitment-key modulus");
        std::process::exit(2);
    };
    let (p, q) = (Integer::from_str_radix(&ps, 10).unwrap(), Integer::from_str_radix(&qs, 10).unwrap());
    let fail = |e: (String, String)| rep.fail(ck, &format!("own-modulus:{}", e.0), e.1, cj(json!({"p": ps, "q": qs})));
    rep.eval(ck, 1);
    if let Err(e) = check_modulus(&cpk.N, &p, &q, CS::SECPARAM) {
        return fail(e);
    }
    if let Err(e) = check_qr("h", &cpk.h, &cpk.N, &p, &q) {
        return fail(e);
    }
    let (pp, qq) = ((&p - 1u32).complete() >> 1, (&q - 1u32).complete() >> 1);
    if Integer::from(cpk.h.pow_mod_ref(&pp, &cpk.N).unwrap()) == 1 || Integer::from(cpk.h.pow_mod_ref(&qq, &cpk.N).unwrap()) == 1 {
        return fail(("h-does-not-generate-QR_N".into(), "h has small order".into()));
    }
    if cpk.g_bases.len() != n_bases {
        return fail(("base-count".into(), format!("{} bases", cpk.g_bases.len())));
    }
    for (i, g) in cpk.g_bases.iter().enumerate() {
        rep.eval(ck, 1);
        if let Err(e) = check_qr("g_i", g, &cpk.N, &p, &q) {
            return fail((e.0, format!("g_{}: {}", i, e.1)));
        }
    }
    let s = serde_json::to_string(&cpk).unwrap();
    if serde_json::from_str::<CL03CommitmentPublicKey>(&s).ok().as_ref() != Some(&cpk) {
        return fail(("json-roundtrip".into(), "commitment key does not survive serde_json".into()));
    }
    rep.nontrivial(ck, &json!({"N": cpk.N.to_string()}));
    rep.sample(ck, json!({"own_modulus_bits": cpk.N.significant_bits(), "bases": n_bases}));
    Ok(())
}

#[derive(Clone, Debug, Serialize, Deserialize)]
pub struct RndCase {
    pub fun: u8,
    pub bits: u32,
    pub lo: i64,
    pub span: u64,
    pub draws: u16,
}

fn rnd_strat() -> impl Strategy<Value = RndCase> {
    (0u8..5, prop::sample::select(vec![1u32, 2, 3, 8, 63, 64, 65, 127, 128, 256, 258, 1024, 1536, 2047, 2048, 2049, 2560, 3072, 3073, 4096, 4100]), -5i64..1000, prop::sample::select(vec![0u64, 1, 2, 3, 7, 255, 1 << 40]), 8u16..64)
        .prop_map(|(fun, bits, lo, span, draws)| RndCase { fun, bits, lo, span, draws })
}

fn rnd_case(rep: &Report, ck: &str, c: &RndCase) -> CheckResult {
    let cj = |d: Value| json!({"rnd": c, "detail": d});
    match c.fun {
        0 => {
            for _ in 0..c.draws {
                let x = random_bits(c.bits);
                rep.eval(ck, 1);
                if x.significant_bits() != c.bits {
                    return rep.fail(ck, "random_bits:wrong-length", format!("random_bits({}) returned a value of {} bits: {}", c.bits, x.significant_bits(), x), cj(json!(null)));
                }
            }
        }
        1 => {
            let (a, b) = (Integer::from(c.lo), Integer::from(c.lo) + c.span);
            let mut seen_lo = false;
            let mut seen_hi = false;
            let draws = if c.span <= 3 { 200 } else { c.draws as usize };
            for _ in 0..draws {
                let x = rand_int(a.clone(), b.clone());
                rep.eval(ck, 1);
                if x < a || x > b {
                    return rep.fail(ck, "rand_int:out-of-range", format!("rand_int({}, {}) = {}", a, b, x), cj(json!(null)));
                }
                seen_lo |= x == a;
                seen_hi |= x == b;
            }
            // both end points are reachable: on ranges of <= 4 values 200 draws miss one with probability < 2^-80
            if c.span <= 3 && !(seen_lo && seen_hi) {
                return rep.fail(ck, "rand_int:end-point-never-drawn", format!("200 draws of rand_int({}, {}) never returned {}", a, b, if seen_lo { "the upper end" } else { "the lower end" }), cj(json!(null)));
            }
        }
        2 => {
            let n = Integer::from(c.span) + 1u32;
            for _ in 0..c.draws {
                let x = random_number(n.clone());
                rep.eval(ck, 1);
                if x < 0 || x >= n {
                    return rep.fail(ck, "random_number:out-of-range", format!("random_number({}) = {}", n, x), cj(json!(null)));
                }
            }
        }
        3 => {
            if c.bits >= 8 && c.bits <= 258 {
                for _ in 0..(c.draws / 4).max(2) {
                    let x = random_prime(c.bits);
                    rep.eval(ck, 1);
                    if !prime2(&x) {
                        return rep.fail(ck, "random_prime:composite", format!("random_prime({}) = {}", c.bits, x), cj(json!(null)));
                    }
                    if x.significant_bits() != c.bits {
                        // next_prime can cross 2^n only when the draw lies within a prime gap of 2^n: probability ~ n / 2^(n-1)
                        if c.bits >= 64 {
                            return rep.fail(ck, "random_prime:wrong-length", format!("random_prime({}) has {} bits", c.bits, x.significant_bits()), cj(json!(null)));
                        }
                    }
                }
            }
        }
        _ => {
            // distinctness of successive draws (a constant or a per-call fixed seed would repeat)
            let xs: Vec<Integer> = (0..c.draws).map(|_| random_bits(256)).collect();
            rep.eval(ck, xs.len() as u64);
            let mut s = xs.clone();
            s.sort();
            s.dedup();
            if s.len() != xs.len() {
                return rep.fail(ck, "random_bits:repeats", "two of the 256-bit draws are equal".into(), cj(json!(null)));
            }
        }
    }
    rep.nontrivial(ck, c);
    rep.class(&format!("random-fn:{}", ["random_bits", "rand_int", "random_number", "random_prime", "distinct-draws"][c.fun as usize]));
    rep.sample(ck, json!({"rnd": c}));
    Ok(())
}

pub fn run(ctx: &Ctx, rep: &Report) -> Meta {
    // fresh keys from generate(), each with bases and an issuer-modulus commitment key
    // key generation is the expensive operation here (seconds each): 128 keys in quick, 640 in thorough; a defect of
    // the prime search that shows once in a hundred keys is likely to be seen only by the thorough tier
    let n_gen = ctx.tier.pick(128usize, 640usize);
    let items: Vec<usize> = (0..n_gen).collect();
    par_items(ctx, rep, "generated-keys-CL1024", &items, |&i| key_case::<CL1024Sha256>(rep, "generated-keys-CL1024", i, 1 + i % 8, None));
    // keys built from fixture primes through the public constructors, all three suites
    for (suite, cnt) in [(ClSuite::CL1024, ctx.tier.pick(4usize, 10usize)), (ClSuite::CL2048, ctx.tier.pick(1, 3)), (ClSuite::CL3072, ctx.tier.pick(1, 2))] {
        let keys = key_pool(suite, 0, cnt, ctx.seed);
        let ckn = format!("fixture-prime-keys-{}", suite.name());
        let idx: Vec<usize> = (0..keys.len()).collect();
        par_items(ctx, rep, &ckn, &idx, |&i| with_cl!(suite, CS => key_case::<CS>(rep, &ckn, i, 1 + i % 5, Some(&keys[i]))));
    }
    // every base count: Bases::generate(pk, n) and a commitment key with n bases over the issuer modulus for every n
    // in 9..=70 (quick) / 9..=200 (thorough); a generation that is split into blocks or workers loses or repeats
    // elements at counts no short list anticipates
    {
        let keys = key_pool(ClSuite::CL1024, 0, 2, ctx.seed);
        let ns: Vec<usize> = (9..=ctx.tier.pick(70usize, 200usize)).collect();
        par_items(ctx, rep, "base-count-sweep", &ns, |&n| key_case::<CL1024Sha256>(rep, "base-count-sweep", n % keys.len(), n, Some(&keys[n % keys.len()])));
        if !rep.aborted() {
            rep.exhaustive(format!("every base count n in 9..={} for Bases::generate and CL03CommitmentPublicKey::generate over the issuer modulus", ctx.tier.pick(70, 200)));
        }
    }
    // commitment keys over an own modulus (hook H2 hands out the factors)
    let own: Vec<usize> = (0..ctx.tier.pick(3usize, 9usize)).collect();
    par_items(ctx, rep, "own-modulus-commitment-keys", &own, |&i| own_modulus_case::<CL1024Sha256>(rep, "own-modulus-commitment-keys", if i % 3 == 2 { 17 + i / 3 } else { 1 + i % 5 }));
    run_cases(ctx, rep, "random-helpers", ctx.tier.pick(400, 4000), 100, rnd_strat, |c| rnd_case(rep, "random-helpers", c));
    if ctx.tier == Tier::Thorough && !rep.aborted() {
        // one CL2048 key from generate(), capped at 20 minutes; not completing is inconclusive for that suite only
        let (tx, rx) = std::sync::mpsc::channel();
        std::thread::spawn(move || {
            let kp = KeyPair::<CL03<CL2048Sha256>>::generate();
            let _ = tx.send((kp.public_key().clone(), kp.private_key().clone()));
        });
        match rx.recv_timeout(std::time::Duration::from_secs(1200)) {
            Ok((pk, sk)) => {
                let k = ClKey { suite: ClSuite::CL2048, pk, sk, id: "CL2048-generated".into(), origin: "generate()" };
                if let Err(f) = key_case::<CL2048Sha256>(rep, "generated-key-CL2048", 0, 2, Some(&k)) {
                    rep.add_violation(f);
                }
                rep.note("one CL2048 key from KeyPair::generate() checked".into());
            }
            Err(_) => rep.note("CL2048 KeyPair::generate() did not finish within 20 minutes: inconclusive for that suite".into()),
        }
    }
    Meta {
        rule: "fresh KeyPair::<CL03<CL1024>>::generate() keys (128 quick / 640 thorough; one CL2048 key in thorough), keys assembled from pre-computed safe primes for CL1024 / CL2048 / CL3072, Bases::generate (1..8, and every count 9..=70 quick / 9..=200 thorough), commitment keys with as many bases over the issuer modulus, and over an own modulus (factors through hook H2, 1..5 and 17 / 18 / 19 bases); \
               oracle (own Miller-Rabin with 40 fixed bases + GMP, own Jacobi symbol and gcd): N = p q, p != q, p, q, (p-1)/2, (q-1)/2 prime, |p| = |q| = SECPARAM + 1 bits; b, c, a_i, h, g_i in (1, N), coprime to N, squares modulo p and q, pairwise distinct; h generates QR_N; \
               byte round trips of pk, sk, signature and JSON round trips of pk, sk, key pair, commitment key, bases, signature (read back with from_str, from_value, from_reader, from_slice), including a commitment key generated with Some(0) / None attribute bases and an empty base set; every fourth generated key pair written with write_keypair_to_file over a longer file, then the thread's previous key pair and this one again into the same path, the file read back each time; commitment randomness of exactly ln bits; random_bits(n) of exactly n bits, rand_int(a, b) in [a, b] reaching both ends on tiny ranges, random_number(n) < n, random_prime(n) prime of n bits, random_qr a residue; \
               non-trivial = every generated key / parameter set / random-helper case; evaluations = judgements"
            .into(),
        assumptions: vec!["primality is probabilistic on both sides (error far below 2^-60)".into(), "CL2048 / CL3072 generate() is sampled at most once (cost: minutes)".into()],
    }
}

pub fn replay(_ctx: &Ctx, rep: &Report, ck: &str, case: &Value) -> CheckResult {
    if ck == "random-helpers" {
        let c: RndCase = serde_json::from_value(case["rnd"].clone()).map_err(|e| Fail { check: ck.into(), site: "replay-parse".into(), msg: e.to_string(), case: case.clone() })?;
        return rnd_case(rep, ck, &c);
    }
    if ck == "base-count-sweep" {
        let keys = key_pool(ClSuite::CL1024, 0, 2, _ctx.seed);
        for n in 9..=70usize {
            key_case::<CL1024Sha256>(rep, ck, n % keys.len(), n, Some(&keys[n % keys.len()]))?;
        }
        return Ok(());
    }
    // key material is freshly generated: re-run the generation-based checks a few times
    for i in 0..4 {
        key_case::<CL1024Sha256>(rep, ck, i, 1 + i, None)?;
    }
    own_modulus_case::<CL1024Sha256>(rep, ck, 2)
}
