#!/bin/bash
# One-time offline build: GMP (generic C, no m4 needed) into .build/gmp-cache, then the harness.
set -e
cd "$(dirname "$(readlink -f "$0")")"
export CARGO_NET_OFFLINE=true
./check build
echo "setup done"
