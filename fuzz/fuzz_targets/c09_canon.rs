#![no_main]
use libfuzzer_sys::fuzz_target;
// decode -> encode -> compare, and decision equality with the reference decoder
fuzz_target!(|data: &[u8]| {
    zkverif::fuzz_entry::c09(data);
});
