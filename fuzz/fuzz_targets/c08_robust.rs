#![no_main]
use libfuzzer_sys::fuzz_target;
// structured target: bytes -> (entry point, honest artefact, mutations, index lists, counts);
// any panic / overflow / exceeded generator budget inside the library is a crash
fuzz_target!(|data: &[u8]| {
    zkverif::fuzz_entry::c08(data);
});
